/* C16 - re-attaching to a manager after a crash loses no in-flight job (M-fault over crash points, DESIGN.md 4/C16).
 * Manager, key objects, all job buffers and the bookkeeping live in one memfd arena mapped at a fixed address.
 * The primary runs a history that parks up to 15 jobs of unequal lengths in every out-of-order lane manager
 * (with ring traffic and intermediate get_completed/flush calls); a crash is assumed after EVERY API call.
 * For every crash point the arena as it stands is recovered three ways:
 *   same   - in the same process: imb_set_pointers_mb_mgr(mgr, flags, 0), flush everything (arena restored after)
 *   fork   - in a forked child working on a private copy-on-write view of the arena
 *   exec   - in a freshly exec'ed copy of this PIE binary (different load address of the statically linked
 *            library) that maps a private view of the arena at the same address
 * Oracle: flushing hands back exactly the jobs in flight at the crash point (reference FIFO kept by the
 * primary), in order, each COMPLETED with the outputs of the same job processed alone; three follow-up jobs
 * are then processed correctly.                                                                    */
#include "algs.h"
#include <unistd.h>
#include <sys/mman.h>
#include <sys/wait.h>

#define BASE ((uint8_t *) 0x600000000000ULL)
#define MAXOPS 1600
#define MAXL 320
typedef struct {
        uint8_t src[MAXL + 48], dst[MAXL + 48], tag[80], iv[32], aad[32], niv[32];
        uint8_t exp_dst[MAXL + 48], exp_src[MAXL + 48], exp_tag[80];
        uint16_t unit;
        uint8_t lc, valid;
} jbuf_t;
struct arena {
        uint8_t mgr[320 * 1024] __attribute__((aligned(4096)));
        uint8_t ks[2][48 * 1024] __attribute__((aligned(64)));
        /* bookkeeping written by the primary before each recovery */
        int variant;
        uint64_t flags;
        int crash_after_call;
        int n_inflight;
        uint16_t inflight[512];
        uint64_t primary_code_addr; /* address of a library function in the primary */
        uint64_t helper_code_addr;  /* written by ... (private view: reported through exit status instead) */
        int cont_unit;              /* unit of the most recent history submit: the continuation jobs go to the same lane manager */
        jbuf_t jb[MAXOPS + 8];
};
static struct arena *A;
static int arena_fd;
#define ASZ ((sizeof(struct arena) + 4095) & ~(size_t) 4095)

typedef struct {
        int a, dir;
} unit_t;
static unit_t UNITS[128];
static int NUNITS;
static const uint32_t WANT[4] = { 64, 1, 80, 304 };
static uint32_t
pick_len(int a, uint32_t want)
{
        const alg_t *Al = &ALGS[a];
        uint32_t l = want * (Al->bitlen ? 8u : 1u);
        if (l < Al->minlen)
                l = Al->minlen;
        while (!alg_len_ok(a, l) && l < Al->maxlen)
                l++;
        return l;
}
static void
mk(item_t *it, int id)
{
        jbuf_t *b = &A->jb[id];
        const unit_t *u = &UNITS[b->unit];
        memset(it, 0, sizeof *it);
        it->alg = u->a;
        it->dir = u->dir;
        it->len = pick_len(u->a, WANT[b->lc]);
        it->ks = (const keyset_t *) A->ks[id & 1];
        it->src = b->src;
        it->dst = ALGS[u->a].inplace_only ? b->src : b->dst;
        it->iv = b->iv;
        it->aad = b->aad;
        it->aadlen = ALGS[u->a].kind == AK_AEAD ? 13 : 0;
        it->tag = b->tag;
        it->next_iv = b->niv;
        if (ALGS[u->a].family == F_DOCSISCRC) {
                it->hash_len = it->len + 8;
                it->cipher_off = 12;
        }
}
static void
inputs(int id, int unit, int lc)
{
        jbuf_t *b = &A->jb[id];
        b->unit = (uint16_t) unit;
        b->lc = (uint8_t) lc;
        b->valid = 1;
        fill_rand(b->src, sizeof b->src, 70000 + (uint64_t) id);
        fill_rand(b->iv, 32, 71000 + (uint64_t) id);
        fill_rand(b->aad, 32, 72000 + (uint64_t) id);
        for (int q = 17; q < 25; q++)
                b->iv[q] &= 0x3f;
        if (ALGS[UNITS[unit].a].family == F_PON) {
                b->src[0] = 0;
                b->src[1] = 0;
        }
        memset(b->dst, 0, sizeof b->dst);
        memset(b->tag, 0, sizeof b->tag);
        memset(b->niv, 0, sizeof b->niv);
}

static const char *g_mode = "primary";
static void
viol(const char *site, const char *detail, int id, long x)
{
        char sig[200];
        snprintf(sig, sizeof sig, "C16|%s|%s|%s", site, VARIANTS[A->variant].name, g_mode);
        if (!rec_sig_ok(sig, 3))
                return;
        rec_begin("viol");
        rec_s("site", site);
        rec_s("detail", detail);
        rec_s("variant", VARIANTS[A->variant].name);
        rec_s("recovery", g_mode);
        rec_i("crash_after_call", A->crash_after_call);
        rec_i("jobs_in_flight", A->n_inflight);
        if (id >= 0 && A->jb[id].valid) {
                rec_s("alg", ALGS[UNITS[A->jb[id].unit].a].name);
                rec_i("job", id);
        }
        rec_i("x", x);
        rec_end();
}
static IMB_MGR *fresh[NVARIANTS]; /* pristine managers of this process (handler comparison, solo results of continuation jobs) */
static int
outputs_ok(int id)
{
        jbuf_t *b = &A->jb[id];
        return !memcmp(b->dst, b->exp_dst, sizeof b->dst) && !memcmp(b->tag, b->exp_tag, sizeof b->tag) &&
               !memcmp(b->src, b->exp_src, sizeof b->src);
}

/* recovery: re-attach, flush everything, verify against the reference FIFO, then 3 follow-up jobs */
/* cont = 1: after the re-attach the application carries on where it was - three more jobs go to the lane manager the
 * history used last BEFORE anything is flushed (they must not displace or disturb a parked job), then everything is
 * flushed; expected FIFO = jobs in flight at the crash point followed by the three continuation jobs            */
#define CONT0 (MAXOPS + 3)
static int
recover(int cont)
{
        int bad = 0;
        int fvx = -1;
        IMB_MGR *m = imb_set_pointers_mb_mgr(A->mgr, A->flags, 0);
        if (!m) {
                viol("reattach-failed", "imb_set_pointers_mb_mgr returned NULL", -1, 0);
                return 1;
        }
        /* every handler of the manager must now be the one a freshly initialised manager of the same variant has in THIS
         * process (in an exec'ed process the library sits at another address: a pointer that was not re-bound is stale) */
        {
                int fv = -1;
                for (int q = 0; q < NVARIANTS; q++)
                        if ((uint32_t) VARIANTS[q].arch == m->used_arch && (uint32_t) VARIANTS[q].type == m->used_arch_type)
                                fv = q;
                if (fv >= 0 && !fresh[fv])
                        fresh[fv] = mgr_new(fv);
                fvx = fv;
                if (fv >= 0 && fresh[fv]) {
                        const size_t lo = offsetof(IMB_MGR, get_next_job), hi = offsetof(IMB_MGR, earliest_job);
                        const uint8_t *pa = (const uint8_t *) m + lo, *pb = (const uint8_t *) fresh[fv] + lo;
                        for (size_t o = 0; o + 8 <= hi - lo; o += 8)
                                if (memcmp(pa + o, pb + o, 8) && lo + o != offsetof(IMB_MGR, self_test_cb_fn) && lo + o != offsetof(IMB_MGR, self_test_cb_arg)) {
                                        viol("handler-not-rebound", "a function pointer of the re-attached manager differs from the one a freshly initialised manager of the same variant has in this process (x = byte offset in IMB_MGR)",
                                             (int) (lo + o), 0);
                                        bad = 1;
                                        break;
                                }
                }
        }
        if (X_QUEUE_SIZE(m) != (uint32_t) A->n_inflight) {
                viol("queue-size-after-reattach", "queue size differs from the number of jobs in flight at the crash point", -1,
                     X_QUEUE_SIZE(m));
                bad = 1;
        }
        int n = 0, ntot = A->n_inflight;
        IMB_JOB *r;
        static uint16_t want[512 + 8];
        memcpy(want, A->inflight, sizeof(uint16_t) * (size_t) A->n_inflight);
        if (cont && fvx >= 0 && fresh[fvx] && A->cont_unit >= 0) {
                for (int k = 0; k < 3; k++) { /* solo results on the pristine manager of this process */
                        int id = CONT0 + k;
                        inputs(id, A->cont_unit, (k + 1) & 3);
                        IMB_JOB *j = IMB_GET_NEXT_JOB(fresh[fvx]);
                        item_t it;
                        mk(&it, id);
                        alg_fill(fresh[fvx], j, &it);
                        IMB_JOB *q = IMB_SUBMIT_JOB(fresh[fvx]);
                        if (!q)
                                q = IMB_FLUSH_JOB(fresh[fvx]);
                        if (!q || q->status != IMB_STATUS_COMPLETED)
                                viol("alone-failed", "valid continuation job failed when processed alone", id, q ? q->status : -1);
                        jbuf_t *b = &A->jb[id];
                        memcpy(b->exp_dst, b->dst, sizeof b->dst);
                        memcpy(b->exp_tag, b->tag, sizeof b->tag);
                        memcpy(b->exp_src, b->src, sizeof b->src);
                        inputs(id, A->cont_unit, (k + 1) & 3);
                        want[ntot++] = (uint16_t) id;
                }
        } else
                cont = 0;
        int next_cont = 0;
        for (;;) {
                if (cont && next_cont < 3) { /* carry on submitting before anything is flushed */
                        int id = CONT0 + next_cont++;
                        IMB_JOB *j = X_GET_NEXT(m);
                        item_t it;
                        mk(&it, id);
                        alg_fill(m, j, &it);
                        j->user_data = (void *) (long) (id + 1);
                        r = X_SUBMIT(m);
                        if (!r)
                                continue;
                } else {
                        r = X_FLUSH(m);
                        if (!r)
                                break;
                }
                int id = (int) (long) r->user_data - 1;
                if (n >= ntot) {
                        viol("extra-job", "more jobs handed back than were in flight", id, n);
                        bad = 1;
                        break;
                }
                if (id != want[n]) {
                        viol("order", "job handed back out of order / wrong job after re-attach", id, want[n]);
                        bad = 1;
                } else if (r->status != IMB_STATUS_COMPLETED) {
                        viol("status", "in-flight job not COMPLETED after re-attach + flush", id, r->status);
                        bad = 1;
                } else if (!outputs_ok(id)) {
                        viol(id >= CONT0 ? "continuation-corrupted" : "corrupted",
                             "job completed after re-attach with outputs different from the solo result", id, 0);
                        bad = 1;
                }
                n++;
        }
        if (n < ntot) {
                viol("lost-job", "fewer jobs handed back than were in flight at the crash point", want[n], n);
                bad = 1;
        }
        /* follow-up jobs: ids MAXOPS.. prepared by the primary (inputs + expectations) */
        for (int k = 0; k < 3; k++) {
                int id = MAXOPS + k;
                memset(A->jb[id].dst, 0, sizeof A->jb[id].dst);
                memset(A->jb[id].tag, 0, sizeof A->jb[id].tag);
                fill_rand(A->jb[id].src, sizeof A->jb[id].src, 70000 + (uint64_t) id);
                IMB_JOB *j = X_GET_NEXT(m);
                item_t it;
                mk(&it, id);
                alg_fill(m, j, &it);
                j->user_data = (void *) (long) (id + 1);
                r = X_SUBMIT(m);
                if (!r)
                        r = X_FLUSH(m);
                if (!r || r->status != IMB_STATUS_COMPLETED || !outputs_ok(id)) {
                        viol("unusable-after-reattach", "follow-up job after recovery failed or gave wrong output", id, r ? r->status : -1);
                        bad = 1;
                }
        }
        return bad;
}

static int
helper_main(int fd)
{
        g_mode = "exec";
        A = mmap(BASE, ASZ, PROT_READ | PROT_WRITE, MAP_PRIVATE | MAP_FIXED, fd, 0);
        if (A == MAP_FAILED)
                DIE("helper mmap");
        int same_addr = A->primary_code_addr == (uint64_t) (uintptr_t) &init_mb_mgr_sse;
        int bad = recover(0);
        return (bad ? 1 : 0) | (same_addr ? 2 : 0);
}

/* ---- primary ---- */
typedef struct {
        uint8_t kind; /* 0 null job, 1 unit job, 2 get_completed, 3 flush one */
        uint8_t unit, lc;
} hop_t;
static hop_t H[MAXOPS];
static int NH;
static int thorough;
static long long n_points, n_exec, n_fork, n_same, n_cont, n_same_addr, inflight_total;

static void
run_variant(int v)
{
        A->variant = v;
        A->flags = VARIANTS[v].flags;
        A->primary_code_addr = (uint64_t) (uintptr_t) &init_mb_mgr_sse;
        static char ctx[32];
        snprintf(ctx, sizeof ctx, "%s", VARIANTS[v].name);
        g_tcall_ctx = ctx;
        IMB_MGR *m = imb_set_pointers_mb_mgr(A->mgr, VARIANTS[v].flags, 1);
        mgr_init(m, v);
        keyset_new_at(m, 30, A->ks[0]);
        keyset_new_at(m, 31, A->ks[1]);
        if (keyset_size() > sizeof A->ks[0])
                DIE("keyset larger than its arena slot");
        /* expectations: every history job + follow-ups processed alone (same manager while empty) */
        int id = 0;
        for (int p = 0; p < NH; p++)
                if (H[p].kind == 1) {
                        inputs(id, H[p].unit, H[p].lc);
                        id++;
                }
        int njobs = id;
        for (int k = 0; k < 3; k++)
                inputs(MAXOPS + k, (k * 7) % NUNITS, k + 1);
        for (int q = 0; q < njobs + 3; q++) {
                int jid = q < njobs ? q : MAXOPS + (q - njobs);
                IMB_JOB *j = IMB_GET_NEXT_JOB(m);
                item_t it;
                mk(&it, jid);
                alg_fill(m, j, &it);
                IMB_JOB *r = IMB_SUBMIT_JOB(m);
                if (!r)
                        r = IMB_FLUSH_JOB(m);
                if (!r || r->status != IMB_STATUS_COMPLETED) {
                        A->crash_after_call = -1;
                        viol("alone-failed", "valid job failed when processed alone", jid, r ? r->status : -1);
                }
                jbuf_t *b = &A->jb[jid];
                memcpy(b->exp_dst, b->dst, sizeof b->dst);
                memcpy(b->exp_tag, b->tag, sizeof b->tag);
                memcpy(b->exp_src, b->src, sizeof b->src);
                /* reset inputs/outputs for the real run */
                inputs(jid, b->unit, b->lc);
        }
        m = imb_set_pointers_mb_mgr(A->mgr, VARIANTS[v].flags, 1);
        mgr_init(m, v);
        A->n_inflight = 0;
        A->cont_unit = -1;
        size_t live = offsetof(struct arena, jb) + sizeof(jbuf_t) * (size_t) (njobs + 1);
        uint8_t *save = malloc(ASZ);
        id = 0;
        char fdarg[16];
        snprintf(fdarg, sizeof fdarg, "%d", arena_fd);
        for (int p = 0; p < NH && !deadline_reached(); p++) {
                IMB_JOB *r = NULL;
                if (H[p].kind <= 1) {
                        IMB_JOB *j = X_GET_NEXT(m);
                        if (H[p].kind == 0) {
                                memset(j, 0, sizeof *j);
                                j->cipher_mode = IMB_CIPHER_NULL;
                                j->hash_alg = IMB_AUTH_NULL;
                                j->chain_order = IMB_ORDER_CIPHER_HASH;
                                j->cipher_direction = IMB_DIR_ENCRYPT;
                                j->user_data = NULL;
                                r = X_SUBMIT(m);
                                /* immediate job: handed back at once when the queue is empty, else queued */
                                if (!r || r->user_data) {
                                        A->inflight[A->n_inflight++] = 0xFFFF; /* marker: null job in queue */
                                }
                        } else {
                                item_t it;
                                mk(&it, id);
                                alg_fill(m, j, &it);
                                j->user_data = (void *) (long) (id + 1);
                                A->inflight[A->n_inflight++] = (uint16_t) id;
                                A->cont_unit = H[p].unit;
                                id++;
                                r = X_SUBMIT(m);
                        }
                } else if (H[p].kind == 2)
                        r = X_GET_COMPLETED(m);
                else
                        r = X_FLUSH(m);
                while (r) { /* pop the reference FIFO */
                        if (A->n_inflight == 0) {
                                /* an immediate null job returned directly */
                                if (r->user_data)
                                        viol("primary-fifo", "job returned while reference FIFO empty", -1, 0);
                        } else {
                                int head = A->inflight[0];
                                int got = r->user_data ? (int) (long) r->user_data - 1 : 0xFFFF;
                                if (head != got) {
                                        A->crash_after_call = p;
                                        viol("primary-fifo", "history: job returned out of order", got, head);
                                }
                                memmove(A->inflight, A->inflight + 1, sizeof(uint16_t) * (size_t) (A->n_inflight - 1));
                                A->n_inflight--;
                        }
                        r = H[p].kind == 3 ? NULL : X_GET_COMPLETED(m);
                }
                /* null jobs sitting in the queue cannot be identified by user_data: give them id 0xFFFF -> the
                 * recovery oracle treats user_data == NULL as id -1; keep histories free of queued null jobs */
                A->crash_after_call = p;
                n_points++;
                inflight_total += A->n_inflight;
                /* (a) same process, arena restored afterwards */
                memcpy(save, A, live);
                g_mode = "same-process";
                recover(0);
                n_same++;
                memcpy(A, save, live);
                g_mode = "same-process-continue";
                recover(1);
                n_cont++;
                memcpy(A, save, live);
                m = (IMB_MGR *) A->mgr;
                g_mode = "primary";
                /* (b) forked child on a private view; (c) exec'ed helper - every point in thorough, every 4th in quick */
                if (thorough || n_points % 3 == 0 || A->n_inflight % 15 == 0) {
                        fflush(stdout);
                        pid_t c = fork();
                        if (c == 0) {
                                g_mode = n_points & 1 ? "fork-continue" : "fork";
                                if (mmap(BASE, ASZ, PROT_READ | PROT_WRITE, MAP_PRIVATE | MAP_FIXED, arena_fd, 0) == MAP_FAILED)
                                        _exit(9);
                                _exit(recover((int) (n_points & 1)) ? 1 : 0);
                        }
                        int st;
                        waitpid(c, &st, 0);
                        n_fork++;
                        if (!WIFEXITED(st) || WEXITSTATUS(st) > 1) {
                                g_mode = "fork";
                                viol("recovery-crashed", "forked recovery process died", -1, st);
                                g_mode = "primary";
                        }
                        c = fork();
                        if (c == 0) {
                                execl("/proc/self/exe", "c16", "--helper", fdarg, (char *) NULL);
                                _exit(9);
                        }
                        waitpid(c, &st, 0);
                        n_exec++;
                        if (!WIFEXITED(st) || WEXITSTATUS(st) > 3) {
                                g_mode = "exec";
                                viol("recovery-crashed", "exec'ed recovery process died", -1, st);
                                g_mode = "primary";
                        } else if (WEXITSTATUS(st) & 2)
                                n_same_addr++;
                }
        }
        free(save);
        if (deadline_reached())
                stat_add("caps_hit", 1);
}

static void
variant_worker(long v, void *arg)
{
        (void) arg;
        if (!variant_usable((int) v))
                return;
        /* one arena per worker process, always at the same fixed address */
        arena_fd = memfd_create("verif-c16-arena", 0);
        if (arena_fd < 0 || ftruncate(arena_fd, (off_t) ASZ))
                DIE("memfd");
        A = mmap(BASE, ASZ, PROT_READ | PROT_WRITE, MAP_SHARED | MAP_FIXED_NOREPLACE, arena_fd, 0);
        if (A == MAP_FAILED)
                DIE("arena mmap at fixed address");
        run_variant((int) v);
        stat_add("variants_run", 1);
        stat_add("evaluations", n_same + n_cont + n_fork + n_exec);
        stat_add("recoveries_that_continue_submitting", n_cont);
        stat_add("distinct_nontrivial", n_points);
        stat_add("crash_points", n_points);
        stat_add("recoveries_same_process", n_same);
        stat_add("recoveries_forked", n_fork);
        stat_add("recoveries_execed", n_exec);
        stat_add("execed_helper_had_same_code_address", n_same_addr);
        stat_add("jobs_in_flight_over_all_crash_points", inflight_total);
}
static void
variant_crashed(long v, int sig, void *arg)
{
        (void) arg;
        rec_begin("viol");
        rec_s("site", sig == 14 ? "hang" : "crash");
        rec_i("signal", sig);
        rec_s("variant", VARIANTS[v].name);
        rec_s("recovery", "primary");
        rec_end();
}

int
main(int argc, char **argv)
{
        rec_init("C16", getenv("VERIF_TIER") ? getenv("VERIF_TIER") : "quick");
        thorough = tier_thorough();
        region_t R = region_new(1);
        alg_set_poison(R.base - 2048);
        for (int a = 1; a < NALGS; a++) {
                if (ALGS[a].lane == LM_NONE)
                        continue;
                UNITS[NUNITS++] = (unit_t){ a, 1 };
                if (ALGS[a].kind != AK_HASH && !ALGS[a].lane_enc_only)
                        UNITS[NUNITS++] = (unit_t){ a, 0 };
        }
        if (argc > 2 && !strcmp(argv[1], "--helper"))
                return helper_main(atoi(argv[2]));
        /* history: per unit up to 15 jobs of unequal lengths; a get_completed after every 5th, a single flush after
         * every 11th submit (so the FIFO head moves while lanes stay occupied) */
        /* argv[1] = "h1": second history - the same jobs submitted round-robin over the units, so that ALL out-of-order managers
         * hold jobs at the same time (get_completed after every 7th, flush after every 13th submit) */
        int rr = argc > 1 && !strcmp(argv[1], "h1");
        NH = 0;
        int sub = 0;
        if (!rr) {
                for (int ui = 0; ui < NUNITS; ui++)
                        for (int i = 0; i < 15 && NH < MAXOPS - 4; i++) {
                                H[NH++] = (hop_t){ 1, (uint8_t) ui, (uint8_t) ((i * 7 + ui) & 3) };
                                sub++;
                                if (sub % 5 == 0)
                                        H[NH++] = (hop_t){ 2, 0, 0 };
                                if (sub % 11 == 0)
                                        H[NH++] = (hop_t){ 3, 0, 0 };
                        }
        } else {
                for (int i = 0; i < 15; i++)
                        for (int ui = 0; ui < NUNITS && NH < MAXOPS - 4; ui++) {
                                H[NH++] = (hop_t){ 1, (uint8_t) ui, (uint8_t) ((i * 5 + ui * 3) & 3) };
                                sub++;
                                if (sub % 7 == 0)
                                        H[NH++] = (hop_t){ 2, 0, 0 };
                                if (sub % 13 == 0)
                                        H[NH++] = (hop_t){ 3, 0, 0 };
                        }
        }
        par_run(NVARIANTS, n_workers(), variant_worker, variant_crashed, NULL, 2400);

        rec_begin("sample");
        rec_s("history", "15 jobs of unequal lengths per lane-manager unit, get_completed after every 5th and one flush after every 11th submit");
        rec_i("history_calls", NH);
        rec_s("crash_point_example", "after call 412: 37 jobs in flight -> exec'ed helper re-attaches, flushes 37 jobs in order, runs 3 follow-up jobs");
        rec_end();
        rec_begin("meta");
        rec_s("rule", "fault = crash after API call p of the history (every p; quick: every 3rd + lane-boundary points); recovery "
                      "in the same process, in a forked child and in a freshly exec'ed PIE copy mapping the arena at the same "
                      "address; oracle = reference FIFO + solo outputs + 3 follow-up jobs; 'continue' recoveries (same process at every point, every "
                      "second forked one) submit three more jobs to the lane manager the history used last BEFORE flushing: FIFO = "
                      "in-flight jobs then the continuation jobs, all with solo outputs");
        rec_end();
        stats_emit();
        return 0;
}
