/* C20 - power-up self-test gates initialisation (M-fault through the library's own CORRUPT callback seam).
 * Enumerates corruption sets {} / every single test / every pair / (thorough) every triple / all, on every
 * init configuration (7 explicit variants, sse with both flags off, init_mb_mgr_auto with the 4 flag combinations). */
#include "common.h"

typedef struct {
        const char *name;
        int variant; /* index into VARIANTS or -1 for auto */
        uint64_t flags;
} cfg_t;
static cfg_t CFG[16];
static int NCFG;
#define MAXT 64
static int NT; /* tests announced with the empty corruption set */
static char descr0[MAXT][48];

static struct run {
        uint64_t target, failed, passed, corrupt_cb;
        int cur, nstart, order_bad;
        char descr[MAXT][48];
} R0, *RP = &R0;
#define R (*RP)
/* nested initialisation: while the outer manager's self-test sits in the CORRUPT callback of test nest_at (after the test
 * vector was staged, before it is used), a second manager is initialised completely - what an overlapping initialisation
 * on another thread amounts to, made deterministic */
static int nest_at = -1, nest_done;
static uint64_t nest_inner_target;
static struct {
        uint64_t failed, passed;
        int pass_bit, err, nstart;
} NI;
static void (*nest_init)(IMB_MGR *);
static uint64_t nest_flags;
static int cb(void *arg, const IMB_SELF_TEST_CALLBACK_DATA *d);
static void
nested_init(void)
{
        struct run inner, *save = RP;
        memset(&inner, 0, sizeof inner);
        inner.cur = -1;
        inner.target = nest_inner_target;
        RP = &inner;
        IMB_MGR *m2 = alloc_mb_mgr(nest_flags);
        imb_self_test_set_cb(m2, cb, NULL);
        nest_init(m2);
        NI.failed = inner.failed;
        NI.passed = inner.passed;
        NI.nstart = inner.nstart;
        NI.pass_bit = !!(m2->features & IMB_FEATURE_SELF_TEST_PASS);
        NI.err = m2->imb_errno;
        free_mb_mgr(m2);
        RP = save;
}
static int
cb(void *arg, const IMB_SELF_TEST_CALLBACK_DATA *d)
{
        (void) arg;
        if (!d || !d->phase)
                return 1;
        if (RP == &R0 && nest_at >= 0 && !nest_done && !strcmp(d->phase, IMB_SELF_TEST_PHASE_CORRUPT) && R0.cur == nest_at) {
                nest_done = 1;
                nested_init();
        }
        if (!strcmp(d->phase, IMB_SELF_TEST_PHASE_START)) {
                R.cur++;
                R.nstart++;
                if (R.cur < MAXT)
                        snprintf(R.descr[R.cur], 48, "%s|%s", d->type ? d->type : "?", d->descr ? d->descr : "?");
        } else if (R.cur < 0 || R.cur >= MAXT) {
                R.order_bad++;
        } else if (!strcmp(d->phase, IMB_SELF_TEST_PHASE_PASS)) {
                if ((R.passed | R.failed) >> R.cur & 1)
                        R.order_bad++;
                R.passed |= 1ULL << R.cur;
        } else if (!strcmp(d->phase, IMB_SELF_TEST_PHASE_FAIL)) {
                if ((R.passed | R.failed) >> R.cur & 1)
                        R.order_bad++;
                R.failed |= 1ULL << R.cur;
        } else if (!strcmp(d->phase, IMB_SELF_TEST_PHASE_CORRUPT)) {
                R.corrupt_cb |= 1ULL << R.cur;
                if (R.target >> R.cur & 1)
                        return 0; /* corrupt this test's input */
        }
        return 1;
}

static void
viol(const cfg_t *c, const char *site, const char *detail, uint64_t target, long long x)
{
        char sig[160];
        snprintf(sig, sizeof sig, "C20|%s|%s", site, c->name);
        if (!rec_sig_ok(sig, 4))
                return;
        rec_begin("viol");
        rec_s("site", site);
        rec_s("detail", detail);
        rec_s("config", c->name);
        rec_i("corrupted_set", (long long) target);
        rec_i("failed_set", (long long) R.failed);
        rec_i("passed_set", (long long) R.passed);
        rec_i("x", x);
        rec_end();
}

static const char *FAMILIES[] = { "KAT_AEAD|AES-GCM",  "KAT_AEAD|AES-CCM",    "KAT_Cipher|AES-CBC",  "KAT_Cipher|AES-CTR",
                                  "KAT_Cipher|AES-ECB", "KAT_Cipher|AES-CFB", "KAT_Cipher|TDES-EDE-CBC", "KAT_Auth|AES-GMAC",
                                  "KAT_Auth|AES-CMAC", "KAT_Auth|SHA1",       "KAT_Auth|SHA224",     "KAT_Auth|SHA256",
                                  "KAT_Auth|SHA384",   "KAT_Auth|SHA512",     "KAT_Auth|HMAC-SHA1",  "KAT_Auth|HMAC-SHA224",
                                  "KAT_Auth|HMAC-SHA256", "KAT_Auth|HMAC-SHA384", "KAT_Auth|HMAC-SHA512" };
#define NFAM ((int) (sizeof FAMILIES / sizeof FAMILIES[0]))
/* "KAT_Cipher|AES128-CBC" -> "KAT_Cipher|AES-CBC", "KAT_Auth|HMAC-SHA2-256" -> "KAT_Auth|HMAC-SHA256" */
static void
normalise(const char *in, char *out)
{
        const char *bar = strchr(in, '|');
        size_t o = 0;
        if (!bar) {
                strcpy(out, in);
                return;
        }
        memcpy(out, in, (size_t) (bar - in) + 1);
        o = (size_t) (bar - in) + 1;
        const char *p = bar + 1;
        if (!strncmp(p, "AES", 3) && p[3] >= '0' && p[3] <= '9') {
                memcpy(out + o, "AES", 3);
                o += 3;
                p += 3;
                while (*p >= '0' && *p <= '9')
                        p++;
        }
        while (*p) {
                if (!strncmp(p, "SHA2-", 5)) {
                        memcpy(out + o, "SHA", 3);
                        o += 3;
                        p += 5;
                } else
                        out[o++] = *p++;
        }
        out[o] = 0;
}

static long long n_runs, n_distinct;
static void
one_run(const cfg_t *c, uint64_t target)
{
        RP = &R0;
        memset(&R, 0, sizeof R);
        R.cur = -1;
        R.target = target;
        IMB_MGR *m = alloc_mb_mgr(c->flags);
        if (!m)
                DIE("alloc");
        imb_self_test_set_cb(m, cb, NULL);
        if (c->variant >= 0)
                VARIANTS[c->variant].init(m);
        else if (c->variant == -2)
                init_mb_mgr_sse(m);
        else
                init_mb_mgr_auto(m, NULL);
        n_runs++;
        int e = imb_get_errno(m);
        int pass = !!(m->features & IMB_FEATURE_SELF_TEST_PASS);
        if (!(m->features & IMB_FEATURE_SELF_TEST))
                viol(c, "no-selftest-feature", "IMB_FEATURE_SELF_TEST not set after init", target, 0);
        if (target == 0 && NT == 0) { /* first clean run defines the test list */
                NT = R.nstart;
                memcpy(descr0, R.descr, sizeof descr0);
        }
        if (R.nstart != NT || memcmp(descr0, R.descr, sizeof descr0))
                viol(c, "test-sequence", "START sequence differs from the uncorrupted reference run", target, R.nstart);
        uint64_t all = NT >= 64 ? ~0ULL : (1ULL << NT) - 1;
        uint64_t t = target & all;
        if (R.order_bad)
                viol(c, "callback-order", "PASS/FAIL/CORRUPT callback outside a START..result bracket or duplicated", target,
                     R.order_bad);
        if (R.failed != t)
                viol(c, "fail-set", "FAIL callbacks do not match exactly the corrupted tests", target, (long long) R.failed);
        if (R.passed != (all & ~t))
                viol(c, "pass-set", "PASS callbacks do not match exactly the uncorrupted tests", target, (long long) R.passed);
        if (R.corrupt_cb != all)
                viol(c, "corrupt-callback", "CORRUPT phase not offered for every test", target, (long long) R.corrupt_cb);
        if (pass != (t == 0))
                viol(c, "pass-bit", "IMB_FEATURE_SELF_TEST_PASS does not reflect the outcome", target, pass);
        if (e != (t ? IMB_ERR_SELFTEST : 0))
                viol(c, "errno", "error code after init is not IMB_ERR_SELFTEST iff a test failed", target, e);
        if (target == 0) {
                char nrm[MAXT][64];
                for (int i = 0; i < NT && i < MAXT; i++)
                        normalise(R.descr[i], nrm[i]);
                for (int f = 0; f < NFAM; f++) {
                        int found = 0;
                        for (int i = 0; i < NT && i < MAXT; i++)
                                if (!strcmp(nrm[i], FAMILIES[f]))
                                        found = 1;
                        if (!found)
                                viol(c, "missing-algorithm", FAMILIES[f], target, f);
                }
                if (c->variant >= 0 && (m->used_arch != (uint32_t) VARIANTS[c->variant].arch ||
                                        m->used_arch_type != (uint32_t) VARIANTS[c->variant].type))
                        viol(c, "variant", "init selected another variant", target, m->used_arch * 10 + m->used_arch_type);
        }
        /* manager empty afterwards */
        if (m->queue_size && (IMB_QUEUE_SIZE(m) != 0 || IMB_FLUSH_JOB(m) != NULL || IMB_GET_COMPLETED_JOB(m) != NULL))
                viol(c, "not-empty", "manager not empty after the self-test", target, 0);
        if (t == 0 && m->get_next_job) { /* usable: one NULL job round trip */
                IMB_JOB *j = IMB_GET_NEXT_JOB(m);
                memset(j, 0, sizeof *j);
                j->cipher_mode = IMB_CIPHER_NULL;
                j->hash_alg = IMB_AUTH_NULL;
                j->chain_order = IMB_ORDER_CIPHER_HASH;
                j->cipher_direction = IMB_DIR_ENCRYPT;
                IMB_JOB *r = IMB_SUBMIT_JOB(m);
                if (!r)
                        r = IMB_FLUSH_JOB(m);
                if (!r || r->status != IMB_STATUS_COMPLETED)
                        viol(c, "unusable", "manager unusable after a passed self-test", target, 0);
        }
        free_mb_mgr(m);
}

static int thorough;
static void
run_cfg(long item, void *arg)
{
        (void) arg;
        const cfg_t *c = &CFG[item];
        NT = 0;
        one_run(c, 0);
        int n = NT;
        if (n <= 0 || n > 63) {
                viol(c, "test-count", "unexpected number of self tests", 0, n);
                return;
        }
        long long sets = 1;
        for (int a = 0; a < n; a++) {
                one_run(c, 1ULL << a);
                sets++;
        }
        /* overlapping initialisations: at every test k a second manager of the same configuration is initialised from inside
         * the outer CORRUPT callback; outer and inner each corrupt test k or nothing (4 combinations): both must report exactly
         * what they report alone */
        if (c->variant != -1) {
                nest_init = c->variant >= 0 ? VARIANTS[c->variant].init : init_mb_mgr_sse;
                nest_flags = c->flags;
                for (int k = 0; k < n; k++)
                        for (int oc = 0; oc < 2; oc++)
                                for (int ic = 0; ic < 2; ic++) {
                                        nest_at = k;
                                        nest_done = 0;
                                        nest_inner_target = ic ? 1ULL << k : 0;
                                        memset(&NI, 0, sizeof NI);
                                        one_run(c, oc ? 1ULL << k : 0); /* checks the outer manager */
                                        nest_at = -1;
                                        sets++;
                                        uint64_t all = (1ULL << n) - 1, it = nest_inner_target;
                                        if (!nest_done)
                                                viol(c, "nested-not-run", "CORRUPT callback of the chosen test not reached", 1ULL << k, k);
                                        else if (NI.nstart != n || NI.failed != it || NI.passed != (all & ~it) || NI.pass_bit != (it == 0) ||
                                                 NI.err != (it ? IMB_ERR_SELFTEST : 0))
                                                viol(c, "nested-init-outcome", "a manager initialised while another manager's self-test was in progress did not report exactly its own corrupted tests (x = test index*4 + outer*2 + inner)",
                                                     it, k * 4 + oc * 2 + ic);
                                }
        }
        for (int a = 0; a < n; a++)
                for (int b = a + 1; b < n; b++) {
                        one_run(c, 1ULL << a | 1ULL << b);
                        sets++;
                }
        for (int a = 0; a < n; a++)
                for (int b = a + 1; b < n; b++)
                        for (int d = b + 1; d < n; d++) {
                                one_run(c, 1ULL << a | 1ULL << b | 1ULL << d);
                                sets++;
                                if (thorough)
                                        for (int e = d + 1; e < n; e++) {
                                                one_run(c, 1ULL << a | 1ULL << b | 1ULL << d | 1ULL << e);
                                                sets++;
                                        }
                        }
        one_run(c, (1ULL << n) - 1);
        one_run(c, ((1ULL << n) - 1) & 0x5555555555555555ULL);
        sets += 2;
        stat_add("evaluations", n_runs);
        stat_add("distinct_nontrivial", sets - 1);
        stat_add("configs", 1);
        stat_max("max_tests_announced", n);
        if (item == 6) {
                rec_begin("sample");
                rec_s("config", c->name);
                rec_s("corrupted_tests", "{3, 17}");
                rec_s("test_3", descr0[3]);
                rec_s("test_17", descr0[17]);
                rec_s("expected", "FAIL callbacks exactly for tests 3 and 17, pass bit clear, errno IMB_ERR_SELFTEST");
                rec_end();
        }
        n_runs = 0;
}
static void
crashed(long item, int sig, void *arg)
{
        (void) arg;
        rec_begin("viol");
        rec_s("site", "crash");
        rec_i("signal", sig);
        rec_s("config", CFG[item].name);
        rec_end();
}

int
main(void)
{
        rec_init("C20", getenv("VERIF_TIER") ? getenv("VERIF_TIER") : "quick");
        thorough = tier_thorough();
        for (int v = 0; v < NVARIANTS; v++)
                if (variant_usable(v))
                        CFG[NCFG++] = (cfg_t){ VARIANTS[v].name, v, VARIANTS[v].flags };
        CFG[NCFG++] = (cfg_t){ "sse_both_off", 0, IMB_FLAG_SHANI_OFF | IMB_FLAG_GFNI_OFF };
        CFG[NCFG - 1].variant = -2;
        CFG[NCFG++] = (cfg_t){ "auto", -1, 0 };
        CFG[NCFG++] = (cfg_t){ "auto_shani_off", -1, IMB_FLAG_SHANI_OFF };
        CFG[NCFG++] = (cfg_t){ "auto_gfni_off", -1, IMB_FLAG_GFNI_OFF };
        CFG[NCFG++] = (cfg_t){ "auto_both_off", -1, IMB_FLAG_SHANI_OFF | IMB_FLAG_GFNI_OFF };
        par_run(NCFG, n_workers(), run_cfg, crashed, NULL, 1200);
        rec_begin("meta");
        rec_s("rule", "fault = set of self-test entries whose CORRUPT callback returns 0; enumerated: empty set, every single "
                      "entry, every pair, every triple, (thorough) every quadruple, every second entry, all; on 12 init configurations; "
                      "distinct_nontrivial = non-empty corruption sets executed");
        rec_end();
        stats_emit();
        return 0;
}
