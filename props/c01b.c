/* C01 (bit offsets) - SNOW3G-UEA2 and KASUMI-F8 bit-length jobs whose cipher_start_src_offset_in_bits is NOT a multiple
 * of 8 (M-shape). The library's convention for these (both the direct _BIT functions and the jobs, every variant):
 * the offset applies to source and destination alike - destination bits [off, off+len) = source bits [off, off+len) xor
 * keystream bits [0, len) - and every other bit of the destination keeps its previous value (SNOW3G with an offset
 * below 8 bits that ... see c09d.c for the one byte-aligned exception, which is not exercised here).
 * Enumerated: algorithm x variant x direction x length in bits (1..140 dense, then stride boundaries up to 2100)
 * x offset (every non byte-aligned offset 1..39) x {out of place, in place} x jobs in flight {1, 5, 17} with unequal
 * lengths (fills the 16 SNOW3G lanes of AVX512). Keystream from the reference model. */
#include "algs.h"
#include "ref_3gpp.h"

#define NJ 17
#define BUFB 400
static IMB_MGR *m;
static keyset_t *KS;
static int g_v, g_alg;
static const char *ANAME[2] = { "snow3g-uea2", "kasumi-f8" };
static long long n_eval;
static inline int
gb(const uint8_t *p, size_t i)
{
        return (p[i >> 3] >> (7 - (i & 7))) & 1;
}
static void
viol(const char *site, const char *detail, uint32_t bits, uint32_t off, int inplace, int nj, int job)
{
        char sig[200];
        snprintf(sig, sizeof sig, "C01b|%s|%s|%s|%d", site, ANAME[g_alg], VARIANTS[g_v].name, inplace);
        if (!rec_sig_ok(sig, 3))
                return;
        rec_begin("viol");
        rec_s("site", site);
        rec_s("alg", g_alg ? "kasumi-f8-bit-offset" : "snow3g-uea2-bit-offset");
        rec_s("variant", VARIANTS[g_v].name);
        rec_s("detail", detail);
        rec_i("len", bits);
        rec_i("off", off);
        rec_i("inplace", inplace);
        rec_i("jobs_in_flight", nj);
        rec_i("job", job);
        rec_end();
}
static uint8_t IN[NJ][BUFB], OUT[NJ][BUFB], BEFORE[NJ][BUFB], IVB[NJ][16], KSB[BUFB], ZERO[BUFB];
static void
fill(IMB_JOB *j, int k, uint32_t bits, uint32_t off, int inplace, int dir)
{
        memset(j, 0, sizeof *j);
        j->cipher_direction = dir ? IMB_DIR_ENCRYPT : IMB_DIR_DECRYPT;
        j->chain_order = dir ? IMB_ORDER_CIPHER_HASH : IMB_ORDER_HASH_CIPHER;
        j->hash_alg = IMB_AUTH_NULL;
        j->src = inplace ? OUT[k] : IN[k];
        j->dst = OUT[k];
        j->iv = IVB[k];
        j->key_len_in_bytes = 16;
        item_t it;
        memset(&it, 0, sizeof it);
        /* key objects through the catalogue's key set */
        IMB_JOB tmp;
        it.alg = alg_id(ANAME[g_alg]);
        it.dir = dir;
        it.len = bits;
        it.ks = KS;
        it.src = j->src;
        it.dst = j->dst;
        it.iv = j->iv;
        alg_fill(m, &tmp, &it);
        *j = tmp;
        j->msg_len_to_cipher_in_bits = bits;
        j->cipher_start_src_offset_in_bits = off;
        j->user_data = (void *) (uintptr_t) (k + 1);
}
static void
run_case(uint32_t bits, uint32_t off, int inplace, int nj, int dir)
{
        uint32_t jb[NJ];
        for (int k = 0; k < nj; k++) {
                jb[k] = k == 0 ? bits : 1 + (bits * 7 + (uint32_t) k * 53) % 2100;
                size_t tb = (off + jb[k] + 7) / 8 + 2;
                fill_rand(IN[k], tb, 100 + bits + (uint64_t) k);
                fill_rand(OUT[k], tb, 200 + bits * 3 + (uint64_t) k);
                fill_rand(IVB[k], 16, 300 + (uint64_t) k);
                memcpy(BEFORE[k], OUT[k], tb);
        }
        int got = 0;
        for (int k = 0; k < nj; k++) {
                IMB_JOB *j = X_GET_NEXT(m);
                fill(j, k, jb[k], off, inplace, dir);
                j = X_SUBMIT(m);
                if (imb_get_errno(m))
                        viol("valid-job-rejected", "bit-length job with a non byte-aligned offset rejected", jb[k], off, inplace, nj, k);
                while (j) {
                        got++;
                        if (j->status != IMB_STATUS_COMPLETED)
                                viol("not-completed", "job not COMPLETED", jb[k], off, inplace, nj, k);
                        j = X_GET_COMPLETED(m);
                }
        }
        IMB_JOB *j;
        while ((j = X_FLUSH(m)) != NULL) {
                got++;
                if (j->status != IMB_STATUS_COMPLETED)
                        viol("not-completed", "job not COMPLETED", bits, off, inplace, nj, -1);
        }
        if (got != nj)
                viol("not-exactly-once", "jobs handed back != jobs submitted", bits, off, inplace, nj, got);
        for (int k = 0; k < nj; k++) {
                size_t tb = (off + jb[k] + 7) / 8 + 2;
                if (g_alg == 0)
                        ref_snow3g_uea2(keyset_raw(KS), IVB[k], ZERO, KSB, jb[k]);
                else
                        ref_kasumi_f8(keyset_raw(KS), IVB[k], ZERO, KSB, jb[k]);
                const uint8_t *src = inplace ? BEFORE[k] : IN[k];
                n_eval++;
                for (size_t i = 0; i < tb * 8; i++) {
                        int e = (i >= off && i < off + jb[k]) ? (gb(src, i) ^ gb(KSB, i - off)) : gb(BEFORE[k], i);
                        if (gb(OUT[k], i) != e) {
                                viol(i >= off && i < off + jb[k] ? "dst-mismatch" : "bit-outside-message-changed",
                                     "destination bits [off, off+len) must be source ^ keystream and every other bit unchanged", jb[k], off, inplace, nj, k);
                                break;
                        }
                }
                if (!inplace) {
                        uint8_t chk[BUFB];
                        fill_rand(chk, tb, 100 + bits + (uint64_t) k);
                        if (memcmp(chk, IN[k], tb))
                                viol("src-modified", "out-of-place job modified its source", jb[k], off, inplace, nj, k);
                }
        }
}
static void
run_alg_variant(long item, void *arg)
{
        (void) arg;
        g_alg = (int) (item / NVARIANTS);
        g_v = (int) (item % NVARIANTS);
        if (!variant_usable(g_v))
                return;
        m = mgr_new(g_v);
        KS = keyset_new(m, 33);
        static char ctx[64];
        snprintf(ctx, sizeof ctx, "%s/%s-bit-offset", VARIANTS[g_v].name, ANAME[g_alg]);
        g_tcall_ctx = ctx;
        static const int NJS[3] = { 1, 5, 17 };
        for (uint32_t bits = 1; bits <= 2100; bits += (bits < 140 ? 1 : (tier_thorough() ? 3 : 61)))
                for (uint32_t off = 1; off < 40; off++) {
                        if (off % 8 == 0)
                                continue;
                        if (!tier_thorough() && bits > 140 && off > 9)
                                continue;
                        for (int inplace = 0; inplace < 2; inplace++)
                                for (int q = 0; q < 3; q++) {
                                        if (q && (off % 5 || bits % 3))
                                                continue;
                                        run_case(bits, off, inplace, NJS[q], (int) ((bits + off) & 1));
                                }
                }
        stat_add("evaluations", n_eval);
        stat_add("distinct_nontrivial", n_eval);
        n_eval = 0;
        free_mb_mgr(m);
}
static void
crashed(long item, int sig, void *arg)
{
        (void) arg;
        rec_begin("viol");
        rec_s("site", sig == 14 ? "hang" : "crash");
        rec_i("signal", sig);
        rec_s("alg", item / NVARIANTS ? "kasumi-f8-bit-offset" : "snow3g-uea2-bit-offset");
        rec_s("variant", VARIANTS[item % NVARIANTS].name);
        rec_end();
}
int
main(void)
{
        rec_init("C01", getenv("VERIF_TIER") ? getenv("VERIF_TIER") : "quick");
        par_run(2L * NVARIANTS, n_workers(), run_alg_variant, crashed, NULL, 1800);
        rec_begin("meta");
        rec_s("rule_bit_offsets", "case = (SNOW3G-UEA2 | KASUMI-F8 bit-length job, variant, direction, length in bits, non byte-aligned offset 1..39, in/out of "
                                  "place, 1/5/17 jobs of unequal lengths in flight); oracle = destination bits [off, off+len) = source ^ reference keystream, every "
                                  "other bit of the destination unchanged, source unchanged");
        rec_end();
        stats_emit();
        return 0;
}
