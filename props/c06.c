/* C06 - every permitted cipher x hash suite runs exactly the named algorithms (M-shape, full product, DESIGN.md 4/C06).
 * The complete product cipher_mode (0..IMB_CIPHER_NUM) x key length {8,16,24,32} x direction x hash_alg
 * (0..IMB_AUTH_NUM) x chain order is instantiated with otherwise valid parameters (96-byte message) through the
 * job API and the asynchronous burst API on every variant. Oracle:
 *  (a) acceptance equals an independent restatement of the documented key-size / AEAD-pairing / chain-order rules;
 *  (b) for accepted cells the destination equals the reference of the NAMED cipher with the NAMED key size and the
 *      tag equals the reference of the NAMED hash over the range as it stands when the hash stage runs; CUSTOM
 *      stages are invoked exactly once, in the requested order;
 *  (c) imb_set_session() gives equal suite ids to descriptors equal in (mode, key size, direction, hash, order);
 *  (d) the burst API result equals the job API result.                                              */
#include "algs.h"

#define MLEN 96
static const int KLENS[4] = { 8, 16, 24, 32 };
static IMB_MGR *m;
static keyset_t *KS;
static int g_v;
static uint8_t src0[256], buf[256], buf2[256], tagb[96], tagb2[96], ivb[32], aadb[32], nivb[32];
static struct gcm_context_data gctx;
static struct chacha20_poly1305_context_data cctx;
static int custom_calls[2], custom_seq, custom_order[2];
static int
custom_cipher(IMB_JOB *j)
{
        custom_calls[0]++;
        custom_order[0] = ++custom_seq;
        j->status |= IMB_STATUS_COMPLETED_CIPHER;
        return 0;
}
static int
custom_hash(IMB_JOB *j)
{
        custom_calls[1]++;
        custom_order[1] = ++custom_seq;
        j->status |= IMB_STATUS_COMPLETED_AUTH;
        return 0;
}

static int
row_for_cipher(int cm, int klen)
{
        int any = -1;
        for (int a = 0; a < NALGS; a++)
                if (ALGS[a].kind != AK_HASH && ALGS[a].cm == cm) {
                        if (ALGS[a].klen == klen)
                                return a;
                        if (any < 0)
                                any = a;
                }
        return cm == IMB_CIPHER_NULL ? 0 : any;
}
static int
row_for_hash(int ha)
{
        for (int a = 0; a < NALGS; a++)
                if (ALGS[a].kind == AK_HASH && ALGS[a].ha == ha)
                        return a;
        return -1;
}
static int
aead_row(int cm, int klen, int ha)
{
        for (int a = 0; a < NALGS; a++)
                if (ALGS[a].kind == AK_AEAD && ALGS[a].cm == cm && ALGS[a].ha == ha && ALGS[a].klen == klen)
                        return a;
        return -1;
}

/* ---- documented rules, restated ---- */
static int
partner_hash(int cm)
{
        switch (cm) {
        case IMB_CIPHER_GCM: return IMB_AUTH_AES_GMAC;
        case IMB_CIPHER_GCM_SGL: return IMB_AUTH_GCM_SGL;
        case IMB_CIPHER_CCM: return IMB_AUTH_AES_CCM;
        case IMB_CIPHER_PON_AES_CNTR: return IMB_AUTH_PON_CRC_BIP;
        case IMB_CIPHER_CHACHA20_POLY1305: return IMB_AUTH_CHACHA20_POLY1305;
        case IMB_CIPHER_CHACHA20_POLY1305_SGL: return IMB_AUTH_CHACHA20_POLY1305_SGL;
        case IMB_CIPHER_SNOW_V_AEAD: return IMB_AUTH_SNOW_V_AEAD;
        case IMB_CIPHER_SM4_GCM: return IMB_AUTH_SM4_GCM;
        }
        return 0;
}
static int
partner_cipher(int ha)
{
        switch (ha) {
        case IMB_AUTH_AES_GMAC: return IMB_CIPHER_GCM;
        case IMB_AUTH_GCM_SGL: return IMB_CIPHER_GCM_SGL;
        case IMB_AUTH_AES_CCM: return IMB_CIPHER_CCM;
        case IMB_AUTH_PON_CRC_BIP: return IMB_CIPHER_PON_AES_CNTR;
        case IMB_AUTH_CHACHA20_POLY1305: return IMB_CIPHER_CHACHA20_POLY1305;
        case IMB_AUTH_CHACHA20_POLY1305_SGL: return IMB_CIPHER_CHACHA20_POLY1305_SGL;
        case IMB_AUTH_SNOW_V_AEAD: return IMB_CIPHER_SNOW_V_AEAD;
        case IMB_AUTH_SM4_GCM: return IMB_CIPHER_SM4_GCM;
        case IMB_AUTH_DOCSIS_CRC32: return IMB_CIPHER_DOCSIS_SEC_BPI;
        }
        return 0;
}
static int
key_ok(int cm, int klen)
{
        switch (cm) {
        case IMB_CIPHER_NULL:
        case IMB_CIPHER_CUSTOM: return 1;
        case IMB_CIPHER_CBC:
        case IMB_CIPHER_ECB:
        case IMB_CIPHER_CNTR:
        case IMB_CIPHER_CNTR_BITLEN:
        case IMB_CIPHER_CFB:
        case IMB_CIPHER_GCM:
        case IMB_CIPHER_GCM_SGL: return klen == 16 || klen == 24 || klen == 32;
        case IMB_CIPHER_CBCS_1_9: return klen == 16;
        case IMB_CIPHER_DOCSIS_SEC_BPI:
        case IMB_CIPHER_CCM:
        case IMB_CIPHER_ZUC_EEA3: return klen == 16 || klen == 32;
        case IMB_CIPHER_DES:
        case IMB_CIPHER_DOCSIS_DES: return klen == 8;
        case IMB_CIPHER_DES3: return klen == 24;
        case IMB_CIPHER_PON_AES_CNTR:
        case IMB_CIPHER_SNOW3G_UEA2_BITLEN:
        case IMB_CIPHER_KASUMI_UEA1_BITLEN:
        case IMB_CIPHER_SM4_ECB:
        case IMB_CIPHER_SM4_CBC:
        case IMB_CIPHER_SM4_CNTR:
        case IMB_CIPHER_SM4_GCM: return klen == 16;
        case IMB_CIPHER_CHACHA20:
        case IMB_CIPHER_CHACHA20_POLY1305:
        case IMB_CIPHER_CHACHA20_POLY1305_SGL:
        case IMB_CIPHER_SNOW_V:
        case IMB_CIPHER_SNOW_V_AEAD: return klen == 32;
        }
        return 0;
}
static int
expect_valid(int cm, int klen, int dir, int ha, int order)
{
        if (cm <= 0 || cm >= IMB_CIPHER_NUM || ha <= 0 || ha >= IMB_AUTH_NUM)
                return 0;
        if (!key_ok(cm, klen))
                return 0;
        if (partner_hash(cm) && ha != partner_hash(cm))
                return 0;
        if (partner_cipher(ha) && cm != partner_cipher(ha))
                return 0;
        if (ha == IMB_AUTH_DOCSIS_CRC32 &&
            !((dir == IMB_DIR_ENCRYPT && order == IMB_ORDER_HASH_CIPHER) || (dir == IMB_DIR_DECRYPT && order == IMB_ORDER_CIPHER_HASH)))
                return 0;
        return 1;
}

typedef struct {
        int cm, klen, dir, ha, order;
} cell_t;
static void
cell_of(long c, cell_t *x)
{
        x->order = 1 + (int) (c % 2);
        c /= 2;
        x->ha = (int) (c % (IMB_AUTH_NUM + 1));
        c /= (IMB_AUTH_NUM + 1);
        x->dir = 1 + (int) (c % 2);
        c /= 2;
        x->klen = KLENS[c % 4];
        c /= 4;
        x->cm = (int) c;
}
#define NCELLS ((long) (IMB_CIPHER_NUM + 1) * 4 * 2 * (IMB_AUTH_NUM + 1) * 2)

static int
build(IMB_JOB *j, const cell_t *x, item_t *it_out, int *have_ref, uint8_t *data, uint8_t *tag)
{
        int R = row_for_cipher(x->cm, x->klen), H = row_for_hash(x->ha), AE = aead_row(x->cm, x->klen, x->ha);
        item_t it;
        memset(&it, 0, sizeof it);
        *have_ref = 0;
        memcpy(data, src0, sizeof src0);
        memset(tag, 0, 96);
        it.dir = x->dir == IMB_DIR_ENCRYPT;
        it.ks = KS;
        it.src = data;
        it.dst = data;
        it.iv = ivb;
        it.aad = aadb;
        it.tag = tag + 16;
        it.next_iv = nivb;
        it.chain_order = x->order;
        if (AE >= 0) {
                it.alg = AE;
                it.len = MLEN;
                it.aadlen = 12;
                if (ALGS[AE].family == F_DOCSISCRC) {
                        it.hash_off = 0;
                        it.hash_len = MLEN;
                        it.cipher_off = 12;
                        it.len = MLEN - 8;
                }
                if (ALGS[AE].family == F_PON) {
                        data[0] = 0;
                        data[1] = (uint8_t) ((MLEN - 8) << 2); /* PLI = 88 */
                }
                alg_fill(m, j, &it);
                {
                        IMB_JOB dj;
                        item_t d = it;
                        d.chain_order = 0;
                        alg_fill(m, &dj, &d);
                        *have_ref = (int) dj.chain_order == x->order; /* judged against the reference in the documented order only */
                }
        } else if (R >= 0 && ALGS[R].kind != AK_AEAD) {
                it.alg = R;
                it.len = ALGS[R].bitlen ? MLEN * 8 : MLEN;
                if (R == 0)
                        it.len = MLEN;
                if (H >= 0) {
                        it.alg2 = H;
                        it.hlen = ALGS[H].bitlen ? MLEN * 8 : MLEN;
                        it.hiv = ivb;
                        it.hivlen = ALGS[H].ivlens[0];
                }
                alg_fill(m, j, &it);
                *have_ref = (ALGS[R].klen == x->klen || R == 0) && (H >= 0 || x->ha == IMB_AUTH_NULL);
        } else {
                /* cipher modes without a plain catalogue row: AEAD ciphers with a foreign hash, CUSTOM, SGL, invalid */
                int RA = -1;
                for (int a = 0; a < NALGS; a++)
                        if (ALGS[a].kind == AK_AEAD && ALGS[a].cm == x->cm && (RA < 0 || ALGS[a].klen == x->klen))
                                RA = a;
                if (RA >= 0) {
                        it.alg = RA;
                        it.len = MLEN;
                        it.aadlen = 12;
                        if (ALGS[RA].family == F_DOCSISCRC) {
                                it.hash_len = MLEN;
                                it.cipher_off = 12;
                                it.len = MLEN - 8;
                        }
                        alg_fill(m, j, &it);
                } else {
                        it.alg = 1; /* aes-cbc-128 template */
                        it.len = MLEN;
                        alg_fill(m, j, &it);
                }
                if (H >= 0) { /* foreign hash: take its hash-specific fields */
                        IMB_JOB hj;
                        item_t hi = it;
                        hi.alg = H;
                        hi.alg2 = 0;
                        hi.len = ALGS[H].bitlen ? MLEN * 8 : MLEN;
                        hi.ivlen = 0;
                        hi.taglen = 0;
                        alg_fill(m, &hj, &hi);
                        j->u = hj.u;
                        j->auth_tag_output = hj.auth_tag_output;
                        j->auth_tag_output_len_in_bytes = hj.auth_tag_output_len_in_bytes;
                        j->msg_len_to_hash_in_bytes = hj.msg_len_to_hash_in_bytes;
                }
        }
        /* AEAD hashes given with a non-partner cipher: supply their usual fields */
        if (AE < 0 && partner_cipher(x->ha)) {
                j->auth_tag_output = tag + 16;
                j->auth_tag_output_len_in_bytes = x->ha == IMB_AUTH_AES_CCM || x->ha == IMB_AUTH_PON_CRC_BIP ? 8 : x->ha == IMB_AUTH_DOCSIS_CRC32 ? 4 : 16;
                j->u.GCM.aad = aadb;
                j->u.GCM.aad_len_in_bytes = 12;
                if (x->ha == IMB_AUTH_GCM_SGL)
                        j->u.GCM.ctx = &gctx;
                if (x->ha == IMB_AUTH_CHACHA20_POLY1305_SGL)
                        j->u.CHACHA20_POLY1305.ctx = &cctx;
                j->msg_len_to_hash_in_bytes = MLEN;
        }
        if (x->cm == IMB_CIPHER_GCM_SGL || x->cm == IMB_CIPHER_CHACHA20_POLY1305_SGL) {
                j->sgl_state = IMB_SGL_INIT;
                j->iv_len_in_bytes = 12;
                j->auth_tag_output = tag + 16;
                j->auth_tag_output_len_in_bytes = 16;
                if (x->cm == IMB_CIPHER_GCM_SGL)
                        j->u.GCM.ctx = &gctx;
                else
                        j->u.CHACHA20_POLY1305.ctx = &cctx;
                j->msg_len_to_cipher_in_bytes = 0;
                j->msg_len_to_hash_in_bytes = 0;
                *have_ref = 0;
        }
        /* the cell's own session fields always win */
        j->cipher_mode = (IMB_CIPHER_MODE) x->cm;
        j->hash_alg = (IMB_HASH_ALG) x->ha;
        j->cipher_direction = (IMB_CIPHER_DIRECTION) x->dir;
        j->chain_order = (IMB_CHAIN_ORDER) x->order;
        j->key_len_in_bytes = (uint64_t) x->klen;
        j->cipher_func = custom_cipher;
        j->hash_func = custom_hash;
        if (x->cm == IMB_CIPHER_CUSTOM || x->ha == IMB_AUTH_CUSTOM)
                *have_ref = 0;
        if (x->ha == IMB_AUTH_NULL && R >= 0 && ALGS[R].kind != AK_AEAD)
                j->auth_tag_output = NULL;
        *it_out = it;
        return 0;
}

static void
viol(const cell_t *x, const char *site, const char *detail, const char *api, long v)
{
        char sig[200];
        snprintf(sig, sizeof sig, "C06|%s|%d|%d|%s|%s", site, x->cm, x->ha, VARIANTS[g_v].name, api);
        if (!rec_sig_ok(sig, 2))
                return;
        int R = row_for_cipher(x->cm, x->klen), H = row_for_hash(x->ha);
        rec_begin("viol");
        rec_s("site", site);
        rec_s("detail", detail);
        rec_s("variant", VARIANTS[g_v].name);
        rec_s("api", api);
        rec_i("cipher_mode", x->cm);
        rec_i("key_len", x->klen);
        rec_i("dir", x->dir);
        rec_i("hash_alg", x->ha);
        rec_i("chain_order", x->order);
        rec_s("cipher_row", R >= 0 ? ALGS[R].name : "-");
        rec_s("hash_row", H >= 0 ? ALGS[H].name : "-");
        rec_i("x", v);
        rec_end();
}

static long long n_cells, n_acc, n_ref, n_rej;
static long cur_cell;
static void
run_cell(long c)
{
        cell_t x;
        cell_of(c, &x);
        cur_cell = c;
        int exp = expect_valid(x.cm, x.klen, x.dir, x.ha, x.order);
        item_t it, it2;
        int have_ref, hr2;
        n_cells++;
        /* ---- job API ---- */
        memset(&gctx, 0, sizeof gctx);
        memset(&cctx, 0, sizeof cctx);
        custom_calls[0] = custom_calls[1] = custom_seq = 0;
        IMB_JOB *j = X_GET_NEXT(m);
        build(j, &x, &it, &have_ref, buf, tagb);
        uint8_t pre[256];
        memcpy(pre, buf, sizeof pre);
        IMB_JOB snap = *j;
        IMB_JOB *r = X_SUBMIT(m);
        int err = imb_get_errno(m);
        if (!r)
                r = X_FLUSH(m);
        if (!r) {
                viol(&x, "no-job-returned", "submit + flush returned no job", "job", err);
                return;
        }
        int accepted = r->status != IMB_STATUS_INVALID_ARGS;
        if (accepted != exp)
                viol(&x, exp ? "valid-suite-rejected" : "invalid-suite-accepted",
                     exp ? "suite permitted by the documented rules was rejected"
                         : "suite outside the documented key-size / pairing / chain-order rules was accepted",
                     "job", err);
        if (!accepted) {
                n_rej++;
                if (err == 0)
                        viol(&x, "rejected-without-errno", "INVALID_ARGS status but manager error code is 0", "job", 0);
                if (memcmp(buf, pre, sizeof pre))
                        viol(&x, "rejected-job-touched-buffer", "rejected job modified its data buffer", "job", 0);
        } else {
                n_acc++;
                if (r->status != IMB_STATUS_COMPLETED)
                        viol(&x, "accepted-not-completed", "accepted suite did not complete", "job", r->status);
                else if (exp && have_ref) {
                        uint8_t ed[256], et[64], niv[16];
                        memcpy(ed, src0, sizeof src0);
                        item_t ref = it;
                        uint8_t scratch[256];
                        memcpy(scratch, pre, sizeof pre);
                        ref.src = scratch;
                        ref.dst = scratch;
                        int mask;
                        if (it.alg2)
                                mask = alg_ref_chain(&ref, ed, et);
                        else
                                mask = alg_ref(&ref, NULL, ed, et, niv);
                        n_ref++;
                        if (ALGS[it.alg].family == F_DOCSISCRC || ALGS[it.alg].family == F_PON) {
                                if (memcmp(buf, ed, MLEN + 4))
                                        viol(&x, "wrong-cipher-output", "frame differs from the named suite's reference", "job", 0);
                        } else if ((mask & 1) && alg_cmp_dst(&it, buf, ed))
                                viol(&x, "wrong-cipher-output", "destination is not the named cipher / key size applied to the source", "job", 0);
                        if ((mask & 2) && memcmp(tagb + 16, et, (size_t) item_taglen(it.alg2 ? &(item_t){ .alg = it.alg2 } : &it)))
                                viol(&x, "wrong-hash-output", "tag is not the named hash over the range as it stood when the hash stage ran", "job", 0);
                }
                if (x.cm == IMB_CIPHER_CUSTOM && custom_calls[0] != 1)
                        viol(&x, "custom-cipher-calls", "custom cipher stage not invoked exactly once", "job", custom_calls[0]);
                if (x.ha == IMB_AUTH_CUSTOM && custom_calls[1] != 1)
                        viol(&x, "custom-hash-calls", "custom hash stage not invoked exactly once", "job", custom_calls[1]);
                if (x.cm == IMB_CIPHER_CUSTOM && x.ha == IMB_AUTH_CUSTOM && custom_calls[0] == 1 && custom_calls[1] == 1) {
                        int cipher_first = custom_order[0] < custom_order[1];
                        if (cipher_first != (x.order == IMB_ORDER_CIPHER_HASH))
                                viol(&x, "custom-stage-order", "stages ran in the wrong order", "job", cipher_first);
                }
        }
        (void) snap;
        /* ---- suite ids ---- */
        IMB_JOB s1, s2;
        build(&s1, &x, &it2, &hr2, buf2, tagb2);
        build(&s2, &x, &it2, &hr2, buf2, tagb2);
        s2.user_data = (void *) 77;
        s2.src = buf;
        uint32_t id1 = imb_set_session(m, &s1), id2 = imb_set_session(m, &s2);
        if ((id1 != 0) != (id2 != 0) || s1.suite_id[0] != s2.suite_id[0] || s1.suite_id[1] != s2.suite_id[1])
                viol(&x, "suite-id-differs", "descriptors equal in the session fields got different suite ids", "session", 0);
        /* ---- burst API ---- */
        memset(&gctx, 0, sizeof gctx);
        memset(&cctx, 0, sizeof cctx);
        custom_calls[0] = custom_calls[1] = custom_seq = 0;
        IMB_JOB *jobs[2];
        if (X_GET_NEXT_BURST(m, 1, jobs) != 1) {
                viol(&x, "burst-no-slot", "get_next_burst(1) on an empty manager returned no slot", "burst", 0);
                return;
        }
        build(jobs[0], &x, &it2, &hr2, buf2, tagb2);
        imb_set_session(m, jobs[0]);
        IMB_JOB *bj = jobs[0];
        uint32_t nr = X_SUBMIT_BURST(m, 1, jobs);
        int berr = imb_get_errno(m);
        int baccepted;
        if (nr == 0 && berr != 0) {
                baccepted = 0;
        } else {
                if (nr == 0)
                        nr = X_FLUSH_BURST(m, 1, jobs);
                baccepted = nr == 1 && jobs[0]->status != IMB_STATUS_INVALID_ARGS;
                if (nr != 1)
                        viol(&x, "burst-lost-job", "burst job neither rejected nor returned", "burst", nr);
        }
        (void) bj;
        if (baccepted != accepted)
                viol(&x, "burst-acceptance-differs", "burst API accepts/rejects the suite differently from the job API", "burst", berr);
        else if (accepted && r->status == IMB_STATUS_COMPLETED && x.cm != IMB_CIPHER_CUSTOM && x.ha != IMB_AUTH_CUSTOM) {
                if (memcmp(buf, buf2, sizeof buf))
                        viol(&x, "burst-output-differs", "burst API data output differs from the job API for the same suite", "burst", 0);
                if (memcmp(tagb, tagb2, sizeof tagb))
                        viol(&x, "burst-tag-differs", "burst API tag differs from the job API for the same suite", "burst", 0);
        }
        /* leave the manager empty for the next cell */
        while (X_FLUSH(m))
                ;
}

static int cached_v = -1;
static void
run_item(long item, void *arg)
{
        (void) arg;
        int v = (int) (item / NCELLS);
        long c = item % NCELLS;
        if (!variant_usable(v))
                return;
        if (getenv("VERIF_C06_LO") && (c < atol(getenv("VERIF_C06_LO")) || c > atol(getenv("VERIF_C06_HI"))))
                return;
        if (cached_v != v) { /* items are striped over workers: long runs of one variant per worker */
                if (cached_v >= 0) {
                        keyset_free(KS);
                        free_mb_mgr(m);
                }
                g_v = v;
                m = mgr_new(v);
                KS = keyset_new(m, 40);
                g_tcall_ctx = VARIANTS[v].name;
                cached_v = v;
        }
        run_cell(c);
        if ((n_cells & 1023) == 0 || c == NCELLS - 1 || item + 64 >= NCELLS * NVARIANTS) {
                stat_add("evaluations", n_cells);
                stat_add("cells_accepted", n_acc);
                stat_add("cells_rejected", n_rej);
                stat_add("distinct_nontrivial", n_ref);
                stat_add("accepted_cells_compared_with_reference", n_ref);
                n_cells = n_acc = n_ref = n_rej = 0;
        }
}
static void
crashed(long item, int sig, void *arg)
{
        (void) arg;
        cell_t x;
        cell_of(item % NCELLS, &x);
        g_v = (int) (item / NCELLS);
        int R = row_for_cipher(x.cm, x.klen), H = row_for_hash(x.ha);
        rec_begin("viol");
        rec_s("site", sig == 14 ? "hang" : "crash");
        rec_i("signal", sig);
        rec_s("variant", VARIANTS[g_v].name);
        rec_s("api", "job-or-burst");
        rec_i("cipher_mode", x.cm);
        rec_i("key_len", x.klen);
        rec_i("dir", x.dir);
        rec_i("hash_alg", x.ha);
        rec_i("chain_order", x.order);
        rec_s("cipher_row", R >= 0 ? ALGS[R].name : "-");
        rec_s("hash_row", H >= 0 ? ALGS[H].name : "-");
        rec_i("accepted_by_rules", expect_valid(x.cm, x.klen, x.dir, x.ha, x.order));
        rec_s("detail", "library faulted while processing this suite cell");
        rec_end();
}

int
main(void)
{
        rec_init("C06", getenv("VERIF_TIER") ? getenv("VERIF_TIER") : "quick");
        region_t R = region_new(1);
        alg_set_poison(R.base - 2048);
        fill_rand(src0, sizeof src0, 901);
        fill_rand(ivb, sizeof ivb, 902);
        fill_rand(aadb, sizeof aadb, 903);
        for (int q = 17; q < 25; q++)
                ivb[q] &= 0x3f;
        par_run(NCELLS * NVARIANTS, n_workers(), run_item, crashed, NULL, 60);
        rec_begin("sample");
        rec_s("cell", "cipher_mode=IMB_CIPHER_CBC key_len=24 dir=ENCRYPT hash_alg=IMB_AUTH_HMAC_SHA_256 chain_order=CIPHER_HASH");
        rec_s("expected", "accepted; dst = AES-192-CBC(src); tag = HMAC-SHA-256 over the ciphertext (in place); same through the burst API");
        rec_i("cells_per_variant", NCELLS);
        rec_end();
        rec_begin("meta");
        rec_s("rule", "cell = (cipher_mode 0..NUM, key length 8/16/24/32, direction, hash_alg 0..NUM, chain order); every cell on every "
                      "variant through the job API and the burst API; distinct_nontrivial = accepted cells whose outputs were compared "
                      "with the reference of the NAMED algorithms");
        rec_end();
        stats_emit();
        return 0;
}
