/* C07 - no access outside caller buffers; source intact (M-shape with guard-page oracle, DESIGN.md 4/C07).
 * Every algorithm row x direction x every valid length of the sweep x placement {every object END-flush against an
 * unmapped page, every object START-flush after an unmapped page} x {alone, co-scheduled between longer and
 * shorter jobs} x variant. Every caller object (message, destination, IV, AAD, tag) lives in its own region
 * between two PROT_NONE pages, so any access outside [object, object+extent) faults; the fault address
 * identifies the object. Canaries cover the bytes sharing a page with an object (writes), out-of-place
 * sources must be unchanged.                                                                          */
#include "algs.h"
#include <signal.h>
#include <setjmp.h>
#include <sys/mman.h>

#define RPAGES 20
static region_t Rsrc, Rdst, Riv, Raad, Rtag, Rniv;
static uint8_t *fsrc[3], *fdst[3], *ftag[3], *fiv[3]; /* unguarded filler buffers */
static sigjmp_buf jb;
static volatile uintptr_t fault_addr;
static volatile int in_lib;
static void
on_segv(int s, siginfo_t *si, void *u)
{
        (void) s;
        (void) u;
        if (!in_lib) {
                signal(SIGSEGV, SIG_DFL);
                return;
        }
        fault_addr = (uintptr_t) si->si_addr;
        siglongjmp(jb, 1);
}
static const char *
which_region(uintptr_t a, long *delta, const item_t *it, uint32_t span, int tl, int ivl)
{
        struct {
                const char *n;
                region_t r;
                uintptr_t lo, hi;
        } T[] = { { "src", Rsrc, (uintptr_t) it->src, (uintptr_t) it->src + it->off + span },
                  { "dst", Rdst, (uintptr_t) it->dst, (uintptr_t) it->dst + span },
                  { "iv", Riv, (uintptr_t) it->iv, (uintptr_t) it->iv + (uintptr_t) ivl },
                  { "aad", Raad, (uintptr_t) it->aad, (uintptr_t) it->aad + it->aadlen },
                  { "tag", Rtag, (uintptr_t) it->tag, (uintptr_t) it->tag + (uintptr_t) tl },
                  { "next_iv", Rniv, (uintptr_t) it->next_iv, (uintptr_t) it->next_iv + 16 } };
        for (unsigned i = 0; i < sizeof T / sizeof T[0]; i++) {
                uintptr_t b = (uintptr_t) T[i].r.base;
                if (a >= b - 4096 && a < b + T[i].r.size + 4096) {
                        *delta = a >= T[i].hi ? (long) (a - T[i].hi) + 1 : a < T[i].lo ? -(long) (T[i].lo - a) : 0;
                        return T[i].n;
                }
        }
        *delta = 0;
        return "elsewhere";
}

static int g_a, g_v, thorough;
static IMB_MGR *m;
static keyset_t *KS;
static long long n_eval, n_crashes;

static void
viol(const char *site, const char *obj, const item_t *it, int place, int mode, long delta, const char *detail)
{
        const alg_t *A = &ALGS[g_a];
        char sig[200];
        snprintf(sig, sizeof sig, "C07|%s|%s|%s|%s|%d|%d", site, obj, A->name, VARIANTS[g_v].name, it->dir, place);
        if (!rec_sig_ok(sig, 8))
                return;
        rec_begin("viol");
        rec_s("site", site);
        rec_s("object", obj);
        rec_s("detail", detail);
        rec_s("alg", A->name);
        rec_s("variant", VARIANTS[g_v].name);
        rec_i("dir", it->dir);
        rec_i("len", it->len);
        rec_i("len_mod16", it->len % 16);
        rec_i("len_mod64", it->len % 64);
        rec_s("placement", place ? "start-flush" : "end-flush");
        rec_s("mode", mode == 0 ? "alone" : "co-scheduled");
        rec_i("delta", delta);
        rec_i("taglen", item_taglen(it));
        rec_i("aadlen", it->aadlen);
        rec_i("ivlen", item_ivlen(it));
        rec_end();
}

#define CAN 0x5A
/* place an object of n bytes flush against the end (place 0) or the start (place 1) of region r */
static uint8_t *
place_obj(region_t r, size_t n, int place)
{
        memset(r.base, CAN, r.size);
        return place ? r.base : r.base + r.size - n;
}
static int
canary_ok(region_t r, const uint8_t *obj, size_t n)
{
        for (uint8_t *p = r.base; p < obj; p++)
                if (*p != CAN)
                        return 0;
        for (uint8_t *p = (uint8_t *) obj + n; p < r.base + r.size; p++)
                if (*p != CAN)
                        return 0;
        return 1;
}

static void
filler(IMB_JOB *j, int k, uint32_t len)
{
        item_t it = { 0 };
        it.alg = g_a;
        it.dir = 1;
        it.len = len;
        it.ks = KS;
        it.src = fsrc[k];
        it.dst = ALGS[g_a].inplace_only ? fsrc[k] : fdst[k];
        it.iv = fiv[k];
        it.aad = fiv[k];
        it.aadlen = ALGS[g_a].kind == AK_AEAD ? 13 : 0;
        it.tag = ftag[k];
        it.next_iv = ftag[k] + 64;
        if (ALGS[g_a].family == F_DOCSISCRC) {
                it.hash_len = len + 8;
                it.cipher_off = 12;
        }
        if (ALGS[g_a].family == F_PON) {
                fsrc[k][0] = 0;
                fsrc[k][1] = 0;
        }
        alg_fill(m, j, &it);
        j->user_data = NULL;
}
static uint32_t
pick_len(int a, uint32_t want)
{
        const alg_t *A = &ALGS[a];
        uint32_t l = want * (A->bitlen ? 8u : 1u);
        if (l < A->minlen)
                l = A->minlen;
        while (!alg_len_ok(a, l) && l < A->maxlen)
                l++;
        return l;
}

static void
one(uint32_t len, int dir, int place, int mode, uint32_t aadlen, int ivlen, int taglen)
{
        const alg_t *A = &ALGS[g_a];
        item_t it = { 0 };
        it.alg = g_a;
        it.dir = dir;
        it.len = len;
        it.ivlen = ivlen;
        it.taglen = taglen;
        it.aadlen = aadlen;
        it.ks = KS;
        it.minimal = 1;
        uint32_t nb = item_nbytes(&it), span = nb;
        if (A->family == F_DOCSISCRC) {
                it.hash_off = 0;
                it.hash_len = len + 8;
                it.cipher_off = 12;
                span = it.hash_len + 4;
        }
        int tl = item_taglen(&it), ivl = item_ivlen(&it);
        uint8_t *src = place_obj(Rsrc, span, place);
        fill_rand(src, span, 31000 + len);
        if (A->family == F_PON) {
                uint32_t pli = len - 8;
                src[0] = (uint8_t) (pli >> 6);
                src[1] = (uint8_t) ((pli << 2) | (src[1] & 3));
        }
        static uint8_t *src_copy;
        if (!src_copy)
                src_copy = malloc(RPAGES * 4096);
        memcpy(src_copy, src, span);
        uint8_t *dst = place_obj(Rdst, span, place);
        uint8_t *iv = place_obj(Riv, (size_t) ivl, place);
        fill_rand(iv, (size_t) ivl, 32000 + len);
        if (ivl == 25)
                for (int q = 17; q < 25; q++)
                        iv[q] &= 0x3f;
        uint8_t *aad = place_obj(Raad, aadlen, place);
        fill_rand(aad, aadlen, 33000 + len);
        uint8_t *tag = place_obj(Rtag, (size_t) tl, place);
        uint8_t *niv = place_obj(Rniv, 16, place);
        it.src = src;
        it.dst = A->inplace_only ? src : dst;
        if (A->kind == AK_HASH)
                it.dst = NULL;
        it.iv = ivl ? iv : NULL;
        it.aad = aad;
        it.tag = tag;
        it.next_iv = niv;
        n_eval++;
        in_lib = 1;
        if (sigsetjmp(jb, 1)) {
                in_lib = 0;
                long delta;
                const char *obj = which_region(fault_addr, &delta, &it, span, tl, ivl);
                n_crashes++;
                viol(delta > 0 ? "over-access-past-end" : delta < 0 ? "over-access-before-start" : "fault", obj, &it, place, mode,
                     delta, "access outside the caller-supplied object (guard page hit)");
                /* manager state is unknown after the fault: start from a fresh one */
                free_mb_mgr(m);
                m = mgr_new(g_v);
                return;
        }
        IMB_JOB *r, *mine = NULL;
        uint32_t lshort = pick_len(g_a, 1), llong = pick_len(g_a, 200);
        if (mode == 1) {
                filler(IMB_GET_NEXT_JOB(m), 0, llong);
                r = IMB_SUBMIT_JOB(m);
        }
        IMB_JOB *j = IMB_GET_NEXT_JOB(m);
        alg_fill(m, j, &it);
        j->user_data = (void *) 1;
        r = IMB_SUBMIT_JOB(m);
        while (r) {
                if (r->user_data)
                        mine = r;
                r = IMB_GET_COMPLETED_JOB(m);
        }
        if (mode == 1) {
                filler(IMB_GET_NEXT_JOB(m), 1, lshort);
                r = IMB_SUBMIT_JOB(m);
                while (r) {
                        if (r->user_data)
                                mine = r;
                        r = IMB_GET_COMPLETED_JOB(m);
                }
                filler(IMB_GET_NEXT_JOB(m), 2, llong);
                r = IMB_SUBMIT_JOB(m);
                while (r) {
                        if (r->user_data)
                                mine = r;
                        r = IMB_GET_COMPLETED_JOB(m);
                }
        }
        while ((r = IMB_FLUSH_JOB(m)))
                if (r->user_data)
                        mine = r;
        in_lib = 0;
        if (!mine || mine->status != IMB_STATUS_COMPLETED) {
                viol("valid-job-not-completed", "job", &it, place, mode, mine ? (long) mine->status : -1,
                     "valid job with guard-page placement not completed");
                return;
        }
        /* writes outside the objects (same-page canaries), source intact */
        if (A->kind != AK_HASH && !A->inplace_only && !canary_ok(Rdst, dst, A->bitlen && (len % 8) ? nb : nb))
                viol("write-outside-dst", "dst", &it, place, mode, 0, "bytes outside dst[0..len) modified");
        if (A->kind != AK_CIPHER && !canary_ok(Rtag, tag, (size_t) tl)) {
                if (!(A->family == F_PON))
                        viol("write-outside-tag", "tag", &it, place, mode, 0, "bytes outside tag[0..tag_len) modified");
        }
        if (!canary_ok(Riv, iv, (size_t) ivl))
                viol("write-outside-iv", "iv", &it, place, mode, 0, "bytes around the IV modified");
        if (!canary_ok(Raad, aad, aadlen))
                viol("write-outside-aad", "aad", &it, place, mode, 0, "bytes around the AAD modified");
        if (!A->inplace_only) {
                if (memcmp(src, src_copy, span))
                        viol("src-modified", "src", &it, place, mode, 0, "out-of-place job modified its source");
                if (!canary_ok(Rsrc, src, span))
                        viol("write-outside-src", "src", &it, place, mode, 0, "bytes around the source modified");
        }
}

static void
run_alg_variant(long item, void *arg)
{
        (void) arg;
        g_a = (int) (item / NVARIANTS);
        g_v = (int) (item % NVARIANTS);
        const alg_t *A = &ALGS[g_a];
        if (!variant_usable(g_v) || A->family == F_NULLC)
                return;
        m = mgr_new(g_v);
        KS = keyset_new(m, 9);
        uint32_t dense = thorough ? 1100 : 300;
        if (A->bitlen)
                dense *= 8;
        uint32_t maxspan = (RPAGES - 1) * 4096;
        for (uint32_t len = A->minlen; len <= dense && len <= A->maxlen; len++) {
                if (!alg_len_ok(g_a, len))
                        continue;
                if (A->bitlen && len > 520 && (len % 8) && !thorough)
                        continue;
                for (int dir = (A->kind == AK_HASH ? 1 : 0); dir < 2; dir++)
                        for (int place = 0; place < 2; place++)
                                for (int mode = 0; mode < 2; mode++) {
                                        if (A->family == F_DOCSISCRC && len < 6)
                                                continue;
                                        one(len, dir, place, mode, A->kind == AK_AEAD ? (A->family == F_CCM ? 13 : 20) : 0, 0, 0);
                                }
                if (deadline_reached())
                        break;
        }
        /* stripes near the carry / limit lengths that still fit the guarded regions */
        static const uint32_t centres[] = { 4080, 4096, 8176, 16368, 32752, 65520 };
        for (unsigned c = 0; c < 6; c++)
                for (int d = -2; d <= 2; d++) {
                        int64_t l = (int64_t) centres[c] * (A->bitlen ? 8 : 1) + d;
                        if (l <= dense || l > A->maxlen || !alg_len_ok(g_a, (uint32_t) l))
                                continue;
                        if ((A->bitlen ? l / 8 : l) + 64 > maxspan)
                                continue;
                        for (int dir = (A->kind == AK_HASH ? 1 : 0); dir < 2; dir++)
                                for (int place = 0; place < 2; place++)
                                        one((uint32_t) l, dir, place, 0, A->kind == AK_AEAD ? 13 : 0, 0, 0);
                }
        /* other IV / tag / AAD extents at a few lengths */
        static const uint32_t fl[] = { 1, 16, 33, 64, 100, 257 };
        for (unsigned q = 0; q < 6; q++) {
                uint32_t len = pick_len(g_a, fl[q]);
                for (int dir = (A->kind == AK_HASH ? 1 : 0); dir < 2; dir++)
                        for (int place = 0; place < 2; place++) {
                                for (int iq = 1; iq < 3 && A->ivlens[iq]; iq++)
                                        one(len, dir, place, 0, A->kind == AK_AEAD ? 13 : 0, A->ivlens[iq], 0);
                                for (int tq = 1; tq < 4 && A->taglens[tq]; tq++)
                                        one(len, dir, place, 0, A->kind == AK_AEAD ? 13 : 0, 0, A->taglens[tq]);
                                if (A->tag_any_hi)
                                        for (int tl = A->tag_any_lo; tl <= A->tag_any_hi; tl += A->tag_step)
                                                one(len, dir, place, 0, A->kind == AK_AEAD ? 13 : 0, 0, tl);
                                if (A->kind == AK_AEAD && A->family != F_DOCSISCRC && A->family != F_PON)
                                        for (uint32_t aad = 0; aad <= (A->family == F_CCM ? 46u : 80u); aad++)
                                                one(len, dir, place, 0, aad, 0, 0);
                                if (A->family == F_GCM || A->family == F_GMAC)
                                        for (int ivl = 1; ivl <= 33; ivl++)
                                                one(len, dir, place, 0, A->family == F_GCM ? 7 : 0, ivl, 0);
                                if (A->family == F_CCM)
                                        for (int nl = 7; nl <= 13; nl++)
                                                one(len, dir, place, 0, 9, nl, 0);
                        }
        }
        stat_add("evaluations", n_eval);
        stat_add("distinct_nontrivial", n_eval);
        stat_add("guard_page_faults", n_crashes);
        stat_add("alg_variant_cells", 1);
        if (g_v == 6 && g_a % 9 == 1) {
                rec_begin("sample");
                rec_s("alg", A->name);
                rec_s("variant", VARIANTS[g_v].name);
                rec_s("case", "len=81 dir=enc placement=end-flush mode=co-scheduled: src, dst, iv, aad, tag each end exactly at an unmapped page");
                rec_i("cases_for_this_cell", n_eval);
                rec_end();
        }
        n_eval = n_crashes = 0;
        keyset_free(KS);
        free_mb_mgr(m);
}
static void
crashed(long item, int sig, void *arg)
{
        (void) arg;
        rec_begin("viol");
        rec_s("site", sig == 14 ? "hang" : "crash-outside-guards");
        rec_i("signal", sig);
        rec_s("alg", ALGS[item / NVARIANTS].name);
        rec_s("variant", VARIANTS[item % NVARIANTS].name);
        rec_end();
}

int
main(void)
{
        rec_init("C07", getenv("VERIF_TIER") ? getenv("VERIF_TIER") : "quick");
        thorough = tier_thorough();
        Rsrc = region_new(RPAGES);
        Rdst = region_new(RPAGES);
        Riv = region_new(1);
        Raad = region_new(1);
        Rtag = region_new(1);
        Rniv = region_new(1);
        region_t P = region_new(1);
        alg_set_poison(P.base - 2048);
        for (int k = 0; k < 3; k++) {
                fsrc[k] = malloc(4096);
                fdst[k] = malloc(4096);
                ftag[k] = malloc(256);
                fiv[k] = malloc(64);
                fill_rand(fsrc[k], 4096, 40 + (uint64_t) k);
                fill_rand(fiv[k], 64, 50 + (uint64_t) k);
                for (int q = 17; q < 25; q++)
                        fiv[k][q] &= 0x3f;
        }
        struct sigaction sa;
        memset(&sa, 0, sizeof sa);
        sa.sa_sigaction = on_segv;
        sa.sa_flags = SA_SIGINFO | SA_NODEFER;
        sigaction(SIGSEGV, &sa, NULL);
        sigaction(SIGBUS, &sa, NULL);
        par_run((long) NALGS * NVARIANTS, n_workers(), run_alg_variant, crashed, NULL, 900);
        rec_begin("meta");
        rec_s("rule", "case = (algorithm row, variant, direction, length, placement end/start-flush of EVERY caller object "
                      "against an unmapped page, alone / co-scheduled, IV/tag/AAD extent); oracle = no fault, canaries "
                      "around every object intact, out-of-place source unchanged, job completed");
        rec_end();
        stats_emit();
        return 0;
}
