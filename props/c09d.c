/* C09 (part 2) - the direct functions give the same result as the job API / the reference for the same work item
 * (M-shape). Every call goes through the trampoline (C18 invariant on every call), every input / output buffer is
 * placed END-flush against an unmapped page (C07 for direct calls), and NULL / zero arguments are injected one at
 * a time (C12 for direct calls: no fault, error code set).
 * Covered: GCM one-shot enc/dec x3 key sizes, GHASH, SHA-1/224/256/384/512 one-shot and one-block, MD5 one-block,
 * ZUC-EEA3 1/4/N-buffer and EIA3 1/N-buffer, SNOW3G F8 1/1-bit/2/4/8/N/8-multikey/N-multikey and F9, KASUMI F8
 * 1/1-bit/2/3/4/N and F9 (both forms), the 12 CRC functions, HEC-32/64, single-block CFB 128/256, QUIC AES-GCM /
 * HP-AES-ECB / ChaCha20-Poly1305 / HP-ChaCha20 batches. N-buffer calls: N below, at and above the lane counts
 * with all-equal, ascending, descending, one-short-rest-long and UNSORTED per-buffer lengths, distinct IVs/keys.
 * usage: c09d [C09|C18]   (C18: same run, only calling-convention records are of interest)          */
#include "algs.h"
#include "ref_modes.h"
#include "ref_aead.h"
#include "ref_3gpp.h"
#include <signal.h>
#include <setjmp.h>

#define A(x) ((uint64_t) (uintptr_t) (x))
#define CALLN(w, f, ...) tcalln(w, (void *) (f), (int) (sizeof((uint64_t[]){ __VA_ARGS__ }) / 8), (uint64_t[]){ __VA_ARGS__ })
#define NB 34
#define NPB 5 /* lane-pattern profiles: base lengths */
#define NPD 4 /* ... deltas of the odd buffer */
#define MAXL 9000
static uint32_t HI_N, HI_1; /* upper length bound of the N-buffer profiles / of the single-buffer sweeps (set from the tier) */
static region_t RIN[NB], ROUT[NB], RIV[NB], RTAG[NB], RAAD;
static IMB_MGR *m;
static int g_v;
static const char *g_prop;
static long long n_eval;
static sigjmp_buf jb;
static volatile int in_call;
static void
on_segv(int s, siginfo_t *si, void *u)
{
        (void) s;
        (void) si;
        (void) u;
        if (!in_call) {
                signal(SIGSEGV, SIG_DFL);
                return;
        }
        siglongjmp(jb, 1);
}
static void
viol(const char *fn, const char *site, const char *detail, long x, long y)
{
        char sig[200];
        if (!strcmp(g_prop, "C18") && strcmp(site, "fault"))
                return; /* C18 run: only calling-convention records (emitted by the trampoline) and faults */
        if (!strcmp(g_prop, "C12") && strcmp(site, "fault") && strncmp(site, "null-", 5))
                return; /* C12 run: NULL / invalid arguments of the direct API */
        if (!strcmp(g_prop, "C07") && strcmp(site, "fault") && strcmp(site, "write-outside-destination"))
                return; /* C07 run: faults on the guard pages and writes outside the destination */
        snprintf(sig, sizeof sig, "%s|%s|%s|%s", g_prop, fn, site, VARIANTS[g_v].name);
        if (!rec_sig_ok(sig, 3))
                return;
        rec_begin("viol");
        rec_s("site", site);
        rec_s("alg", fn);
        rec_s("api", "direct");
        rec_s("detail", detail);
        rec_s("variant", VARIANTS[g_v].name);
        rec_i("x", x);
        rec_i("y", y);
        rec_end();
}
/* run a block of direct calls with fault capture */
#define GUARDED(fnname, code)                                                                      \
        do {                                                                                       \
                cur_fn = fnname;                                                                   \
                in_call = 1;                                                                       \
                if (sigsetjmp(jb, 1)) {                                                            \
                        in_call = 0;                                                               \
                        viol(fnname, "fault", "direct call faulted (buffers end-flush against unmapped pages)", __LINE__, 0); \
                } else {                                                                           \
                        code;                                                                      \
                        in_call = 0;                                                               \
                }                                                                                  \
        } while (0)

static int g_place; /* 0: every buffer ends flush against an unmapped page; 1: every buffer starts right after one */
static inline uint8_t *
place(region_t r, size_t n)
{
        return g_place ? r.base : region_endflush(r, n);
}
static uint8_t *
inbuf(int i, size_t n, uint64_t seed)
{
        uint8_t *p = place(RIN[i], n);
        fill_rand(p, n, seed);
        return p;
}
static uint8_t *
outbuf(int i, size_t n)
{
        memset(ROUT[i].base, 0xA7, ROUT[i].size);
        return place(ROUT[i], n);
}
static int
canary_ok(int i, size_t n)
{
        uint8_t *lo = g_place ? ROUT[i].base + n : ROUT[i].base, *hi = g_place ? ROUT[i].base + ROUT[i].size : ROUT[i].base + ROUT[i].size - n;
        for (uint8_t *p = lo; p < hi; p++)
                if (*p != 0xA7)
                        return 0;
        return 1;
}
static const char *cur_fn;
static void viol(const char *fn, const char *site, const char *detail, long x, long y);
/* bytes of the destination region outside the n-byte destination must be untouched (C07) */
static int
out_canary_ok(int i, size_t n)
{
        if (!canary_ok(i, n))
                viol(cur_fn, "write-outside-destination", "bytes outside the destination range of exactly the message length were written (x = buffer)", i, (long) n);
        return 1;
}

/* length profiles for N-buffer calls */
static void
profile_u(int prof, int n, uint32_t *len, uint32_t lo, uint32_t hi, uint32_t unit)
{
        if (prof >= 5) { /* lane patterns: all buffers of one base length except position p (see NPROF) */
                static const uint32_t PB[NPB] = { 16, 32, 64, 128, 256 };
                static const int PD[NPD] = { 1, 16, -1, 67 };
                int k = prof - 5;
                const int p = k % n;
                k /= n;
                const int di = k % NPD, bi = k / NPD;
                for (int i = 0; i < n; i++)
                        len[i] = PB[bi] * unit;
                len[p] = (uint32_t) ((int) (PB[bi] * unit) + (PD[di] == 1 || PD[di] == -1 ? PD[di] : PD[di] * (int) unit));
                (void) lo;
                return;
        }
        for (int i = 0; i < n; i++) {
                uint32_t span = hi - lo;
                switch (prof) {
                case 0: len[i] = lo + span / 3; break;                                  /* all equal */
                case 1: len[i] = lo + (uint32_t) ((uint64_t) span * (uint32_t) i / (uint32_t) (n > 1 ? n - 1 : 1)); break; /* ascending */
                case 2: len[i] = hi - (uint32_t) ((uint64_t) span * (uint32_t) i / (uint32_t) (n > 1 ? n - 1 : 1)); break; /* descending */
                case 3: len[i] = i == n / 2 ? lo : hi; break;                           /* one short, rest long */
                default: len[i] = lo + (uint32_t) (((uint32_t) i * 7919u + 13u * (uint32_t) n) % (span + 1)); break; /* unsorted */
                }
        }
}
#define NPROF(n) (5 + NPB * NPD * (n))
static const int NS[] = { 1, 2, 3, 4, 5, 7, 8, 9, 15, 16, 17, 18, 33 };
#define NNS 13

static keyset_t *KS[NB];
static uint8_t KEY[NB][64];

static void
t_zuc(void)
{
        uint8_t exp[MAXL];
        for (int q = 0; q < NNS; q++)
                for (int prof = 0; prof < NPROF(NS[q]); prof++) {
                        int n = NS[q];
                        uint32_t len[NB];
                        const void *keys[NB], *ivs[NB], *ins[NB];
                        void *outs[NB];
                        profile_u(prof, n, len, 1, HI_N, 1);
                        for (int i = 0; i < n; i++) {
                                keys[i] = KEY[i];
                                uint8_t *iv = place(RIV[i], 16);
                                fill_rand(iv, 16, 900 + (uint64_t) i);
                                ivs[i] = iv;
                                ins[i] = inbuf(i, len[i], 1000 + (uint64_t) i);
                                outs[i] = outbuf(i, len[i]);
                        }
                        GUARDED("zuc-eea3-n-buffer", CALLN("zuc_eea3_n_buffer", m->eea3_n_buffer, A(keys), A(ivs), A(ins), A(outs), A(len), A(n)));
                        for (int i = 0; i < n; i++) {
                                ref_zuc_eea3(KEY[i], ivs[i], ins[i], exp, len[i]);
                                n_eval++;
                                if (memcmp(outs[i], exp, len[i]) || !out_canary_ok(i, len[i]))
                                        viol("zuc-eea3-n-buffer", "output-differs", "N-buffer result differs from the reference (x = n, y = buffer)", n * 1000 + prof, i);
                        }
                        if (n == 4) {
                                for (int i = 0; i < 4; i++)
                                        outs[i] = outbuf(i, len[i]);
                                GUARDED("zuc-eea3-4-buffer", CALLN("zuc_eea3_4_buffer", m->eea3_4_buffer, A(keys), A(ivs), A(ins), A(outs), A(len)));
                                for (int i = 0; i < 4; i++) {
                                        ref_zuc_eea3(KEY[i], ivs[i], ins[i], exp, len[i]);
                                        n_eval++;
                                        if (memcmp(outs[i], exp, len[i]) || !out_canary_ok(i, len[i]))
                                                viol("zuc-eea3-4-buffer", "output-differs", "4-buffer result differs from the reference", prof, i);
                                }
                        }
                        if (n == 1) {
                                outs[0] = outbuf(0, len[0]);
                                GUARDED("zuc-eea3-1-buffer", CALLN("zuc_eea3_1_buffer", m->eea3_1_buffer, A(keys[0]), A(ivs[0]), A(ins[0]), A(outs[0]), A(len[0])));
                                ref_zuc_eea3(KEY[0], ivs[0], ins[0], exp, len[0]);
                                n_eval++;
                                if (memcmp(outs[0], exp, len[0]))
                                        viol("zuc-eea3-1-buffer", "output-differs", "1-buffer result differs from the reference", prof, 0);
                        }
                        /* EIA3: bit lengths */
                        uint32_t bl[NB];
                        uint32_t *tags[NB];
                        profile_u(prof, n, bl, 1, 2100, 8);
                        for (int i = 0; i < n; i++) {
                                ins[i] = inbuf(i, (bl[i] + 7) / 8, 1100 + (uint64_t) i);
                                tags[i] = (uint32_t *) (void *) place(RTAG[i], 4);
                                memset(tags[i], 0, 4);
                        }
                        GUARDED("zuc-eia3-n-buffer", CALLN("zuc_eia3_n_buffer", m->eia3_n_buffer, A(keys), A(ivs), A(ins), A(bl), A(tags), A(n)));
                        for (int i = 0; i < n; i++) {
                                uint8_t et[4];
                                ref_zuc_eia3(KEY[i], ivs[i], ins[i], bl[i], et);
                                n_eval++;
                                if (memcmp(tags[i], et, 4))
                                        viol("zuc-eia3-n-buffer", "tag-differs", "N-buffer MAC differs from the reference (x = n*1000+profile, y = buffer)", n * 1000 + prof, i);
                        }
                        if (n == 1) {
                                memset(tags[0], 0, 4);
                                GUARDED("zuc-eia3-1-buffer", CALLN("zuc_eia3_1_buffer", m->eia3_1_buffer, A(keys[0]), A(ivs[0]), A(ins[0]), A(bl[0]), A(tags[0])));
                                uint8_t et[4];
                                ref_zuc_eia3(KEY[0], ivs[0], ins[0], bl[0], et);
                                n_eval++;
                                if (memcmp(tags[0], et, 4))
                                        viol("zuc-eia3-1-buffer", "tag-differs", "1-buffer MAC differs from the reference", prof, 0);
                        }
                }
}

static void
t_snow3g(void)
{
        uint8_t exp[MAXL];
        const snow3g_key_schedule_t *ks[NB];
        for (int i = 0; i < NB; i++)
                ks[i] = (const snow3g_key_schedule_t *) (const void *) ((const uint8_t *) KS[i] + 0); /* placeholder, replaced below */
        /* key schedules through the helper (C11 checks the helper itself) */
        static snow3g_key_schedule_t sched[NB];
        for (int i = 0; i < NB; i++) {
                IMB_SNOW3G_INIT_KEY_SCHED(m, KEY[i], &sched[i]);
                ks[i] = &sched[i];
        }
        for (int q = 0; q < NNS; q++)
                for (int prof = 0; prof < NPROF(NS[q]); prof++) {
                        int n = NS[q];
                        uint32_t len[NB];
                        const void *ivs[NB], *ins[NB];
                        void *outs[NB];
                        if (n > 16) { /* more than 16 packets is the documented failure: out[0] = NULL, nothing written */
                                if (prof)
                                        continue;
                                for (int i = 0; i < n; i++) {
                                        len[i] = 40;
                                        ivs[i] = place(RIV[i], 16);
                                        ins[i] = inbuf(i, 40, 1);
                                        outs[i] = outbuf(i, 40);
                                }
                                void *o0 = outs[0];
                                GUARDED("snow3g-f8-n-buffer", CALLN("snow3g_f8_n_buffer", m->snow3g_f8_n_buffer, A(ks[0]), A(ivs), A(ins), A(outs), A(len), A(n)));
                                n_eval++;
                                if (outs[0] != NULL)
                                        viol("snow3g-f8-n-buffer", "no-failure-indication", "more than 16 packets: out[0] not set to NULL", n, 0);
                                outs[0] = o0;
                                for (int i = 0; i < n; i++)
                                        if (!out_canary_ok(i, 0))
                                                viol("snow3g-f8-n-buffer", "write-on-failure", "failed call wrote to an output buffer", n, i);
                                continue;
                        }
                        profile_u(prof, n, len, 1, HI_N, 1);
                        for (int i = 0; i < n; i++) {
                                uint8_t *iv = place(RIV[i], 16);
                                fill_rand(iv, 16, 1900 + (uint64_t) i);
                                ivs[i] = iv;
                                ins[i] = inbuf(i, len[i], 2000 + (uint64_t) i);
                                outs[i] = outbuf(i, len[i]);
                        }
                        /* single key N-buffer */
                        GUARDED("snow3g-f8-n-buffer", CALLN("snow3g_f8_n_buffer", m->snow3g_f8_n_buffer, A(ks[0]), A(ivs), A(ins), A(outs), A(len), A(n)));
                        for (int i = 0; i < n; i++) {
                                ref_snow3g_uea2(KEY[0], ivs[i], ins[i], exp, (uint64_t) len[i] * 8);
                                n_eval++;
                                if (memcmp(outs[i], exp, len[i]) || !out_canary_ok(i, len[i]))
                                        viol("snow3g-f8-n-buffer", "output-differs", "N-buffer result differs from the reference (x = n*1000+profile, y = buffer)", n * 1000 + prof, i);
                        }
                        /* multi key N-buffer */
                        for (int i = 0; i < n; i++)
                                outs[i] = outbuf(i, len[i]);
                        GUARDED("snow3g-f8-n-buffer-multikey", CALLN("snow3g_f8_n_buffer_multikey", m->snow3g_f8_n_buffer_multikey, A(ks), A(ivs), A(ins), A(outs), A(len), A(n)));
                        for (int i = 0; i < n; i++) {
                                ref_snow3g_uea2(KEY[i], ivs[i], ins[i], exp, (uint64_t) len[i] * 8);
                                n_eval++;
                                if (memcmp(outs[i], exp, len[i]) || !out_canary_ok(i, len[i]))
                                        viol("snow3g-f8-n-buffer-multikey", "output-differs", "multi-key N-buffer result differs from the reference", n * 1000 + prof, i);
                        }
                        if (n == 8) {
                                for (int i = 0; i < 8; i++)
                                        outs[i] = outbuf(i, len[i]);
                                GUARDED("snow3g-f8-8-buffer-multikey", CALLN("snow3g_f8_8_buffer_multikey", m->snow3g_f8_8_buffer_multikey, A(ks), A(ivs), A(ins), A(outs), A(len)));
                                for (int i = 0; i < 8; i++) {
                                        ref_snow3g_uea2(KEY[i], ivs[i], ins[i], exp, (uint64_t) len[i] * 8);
                                        n_eval++;
                                        if (memcmp(outs[i], exp, len[i]))
                                                viol("snow3g-f8-8-buffer-multikey", "output-differs", "8-buffer multi-key result differs", prof, i);
                                }
                                for (int i = 0; i < 8; i++)
                                        outs[i] = outbuf(i, len[i]);
                                GUARDED("snow3g-f8-8-buffer",
                                        CALLN("snow3g_f8_8_buffer", m->snow3g_f8_8_buffer, A(ks[0]), A(ivs[0]), A(ivs[1]), A(ivs[2]), A(ivs[3]), A(ivs[4]), A(ivs[5]),
                                              A(ivs[6]), A(ivs[7]), A(ins[0]), A(outs[0]), A(len[0]), A(ins[1]), A(outs[1]), A(len[1]), A(ins[2]), A(outs[2]),
                                              A(len[2]), A(ins[3]), A(outs[3]), A(len[3]), A(ins[4]), A(outs[4]), A(len[4]), A(ins[5]), A(outs[5]), A(len[5]),
                                              A(ins[6]), A(outs[6]), A(len[6]), A(ins[7]), A(outs[7]), A(len[7])));
                                for (int i = 0; i < 8; i++) {
                                        ref_snow3g_uea2(KEY[0], ivs[i], ins[i], exp, (uint64_t) len[i] * 8);
                                        n_eval++;
                                        if (memcmp(outs[i], exp, len[i]))
                                                viol("snow3g-f8-8-buffer", "output-differs", "8-buffer result differs", prof, i);
                                }
                        }
                        if (n == 4) {
                                for (int i = 0; i < 4; i++)
                                        outs[i] = outbuf(i, len[i]);
                                GUARDED("snow3g-f8-4-buffer",
                                        CALLN("snow3g_f8_4_buffer", m->snow3g_f8_4_buffer, A(ks[0]), A(ivs[0]), A(ivs[1]), A(ivs[2]), A(ivs[3]), A(ins[0]), A(outs[0]),
                                              A(len[0]), A(ins[1]), A(outs[1]), A(len[1]), A(ins[2]), A(outs[2]), A(len[2]), A(ins[3]), A(outs[3]), A(len[3])));
                                for (int i = 0; i < 4; i++) {
                                        ref_snow3g_uea2(KEY[0], ivs[i], ins[i], exp, (uint64_t) len[i] * 8);
                                        n_eval++;
                                        if (memcmp(outs[i], exp, len[i]))
                                                viol("snow3g-f8-4-buffer", "output-differs", "4-buffer result differs", prof, i);
                                }
                        }
                        if (n == 2) {
                                for (int i = 0; i < 2; i++)
                                        outs[i] = outbuf(i, len[i]);
                                GUARDED("snow3g-f8-2-buffer", CALLN("snow3g_f8_2_buffer", m->snow3g_f8_2_buffer, A(ks[0]), A(ivs[0]), A(ivs[1]), A(ins[0]), A(outs[0]),
                                                                    A(len[0]), A(ins[1]), A(outs[1]), A(len[1])));
                                for (int i = 0; i < 2; i++) {
                                        ref_snow3g_uea2(KEY[0], ivs[i], ins[i], exp, (uint64_t) len[i] * 8);
                                        n_eval++;
                                        if (memcmp(outs[i], exp, len[i]))
                                                viol("snow3g-f8-2-buffer", "output-differs", "2-buffer result differs", prof, i);
                                }
                        }
                        if (n == 1) {
                                outs[0] = outbuf(0, len[0]);
                                GUARDED("snow3g-f8-1-buffer", CALLN("snow3g_f8_1_buffer", m->snow3g_f8_1_buffer, A(ks[0]), A(ivs[0]), A(ins[0]), A(outs[0]), A(len[0])));
                                ref_snow3g_uea2(KEY[0], ivs[0], ins[0], exp, (uint64_t) len[0] * 8);
                                n_eval++;
                                if (memcmp(outs[0], exp, len[0]))
                                        viol("snow3g-f8-1-buffer", "output-differs", "1-buffer result differs", prof, 0);
                                /* F9 over bit lengths */
                                for (uint32_t bits = 1; bits <= 2 * HI_1; bits += (prof + 1)) {
                                        const uint8_t *msg = inbuf(1, (bits + 7) / 8, 2100 + bits);
                                        uint8_t *tag = place(RTAG[0], 4);
                                        uint8_t et[4];
                                        GUARDED("snow3g-f9-1-buffer", CALLN("snow3g_f9_1_buffer", m->snow3g_f9_1_buffer, A(ks[0]), A(ivs[0]), A(msg), A(bits), A(tag)));
                                        ref_snow3g_uia2(KEY[0], ivs[0], msg, bits, et);
                                        n_eval++;
                                        if (memcmp(tag, et, 4))
                                                viol("snow3g-f9-1-buffer", "tag-differs", "F9 result differs from the reference (x = bits)", bits, 0);
                                }
                        }
                }
}

static void
t_kasumi(void)
{
        uint8_t exp[MAXL];
        static kasumi_key_sched_t k8, k9;
        IMB_KASUMI_INIT_F8_KEY_SCHED(m, KEY[0], &k8);
        IMB_KASUMI_INIT_F9_KEY_SCHED(m, KEY[0], &k9);
        for (int q = 0; q < NNS; q++)
                for (int prof = 0; prof < NPROF(NS[q]); prof++) {
                        int n = NS[q];
                        if (n > 16)
                                continue; /* KASUMI N-buffer is documented for up to 16 buffers */
                        uint32_t len[NB];
                        uint64_t ivs[NB];
                        const void *ins[NB];
                        void *outs[NB];
                        uint8_t ivb[NB][8];
                        profile_u(prof, n, len, 1, HI_N, 1);
                        for (int i = 0; i < n; i++) {
                                fill_rand(ivb[i], 8, 2900 + (uint64_t) i);
                                memcpy(&ivs[i], ivb[i], 8);
                                ins[i] = inbuf(i, len[i], 3000 + (uint64_t) i);
                                outs[i] = outbuf(i, len[i]);
                        }
                        GUARDED("kasumi-f8-n-buffer", CALLN("kasumi_f8_n_buffer", m->f8_n_buffer, A(&k8), A(ivs), A(ins), A(outs), A(len), A(n)));
                        for (int i = 0; i < n; i++) {
                                ref_kasumi_f8(KEY[0], ivb[i], ins[i], exp, (uint64_t) len[i] * 8);
                                n_eval++;
                                if (memcmp(outs[i], exp, len[i]) || !out_canary_ok(i, len[i]))
                                        viol("kasumi-f8-n-buffer", "output-differs", "N-buffer result differs from the reference (x = n*1000+profile, y = buffer)", n * 1000 + prof, i);
                        }
                        if (n == 1) {
                                outs[0] = outbuf(0, len[0]);
                                GUARDED("kasumi-f8-1-buffer", CALLN("kasumi_f8_1_buffer", m->f8_1_buffer, A(&k8), ivs[0], A(ins[0]), A(outs[0]), A(len[0])));
                                ref_kasumi_f8(KEY[0], ivb[0], ins[0], exp, (uint64_t) len[0] * 8);
                                n_eval++;
                                if (memcmp(outs[0], exp, len[0]))
                                        viol("kasumi-f8-1-buffer", "output-differs", "1-buffer result differs", prof, 0);
                        }
                        if (n == 2) {
                                for (int i = 0; i < 2; i++)
                                        outs[i] = outbuf(i, len[i]);
                                GUARDED("kasumi-f8-2-buffer", CALLN("kasumi_f8_2_buffer", m->f8_2_buffer, A(&k8), ivs[0], ivs[1], A(ins[0]), A(outs[0]), A(len[0]),
                                                                    A(ins[1]), A(outs[1]), A(len[1])));
                                for (int i = 0; i < 2; i++) {
                                        ref_kasumi_f8(KEY[0], ivb[i], ins[i], exp, (uint64_t) len[i] * 8);
                                        n_eval++;
                                        if (memcmp(outs[i], exp, len[i]))
                                                viol("kasumi-f8-2-buffer", "output-differs", "2-buffer result differs", prof, i);
                                }
                        }
                        if (n == 3 || n == 4) { /* common length */
                                uint32_t l = len[0];
                                for (int i = 0; i < n; i++) {
                                        ins[i] = inbuf(i, l, 3100 + (uint64_t) i);
                                        outs[i] = outbuf(i, l);
                                }
                                if (n == 3)
                                        GUARDED("kasumi-f8-3-buffer", CALLN("kasumi_f8_3_buffer", m->f8_3_buffer, A(&k8), ivs[0], ivs[1], ivs[2], A(ins[0]), A(outs[0]),
                                                                            A(ins[1]), A(outs[1]), A(ins[2]), A(outs[2]), A(l)));
                                else
                                        GUARDED("kasumi-f8-4-buffer", CALLN("kasumi_f8_4_buffer", m->f8_4_buffer, A(&k8), ivs[0], ivs[1], ivs[2], ivs[3], A(ins[0]),
                                                                            A(outs[0]), A(ins[1]), A(outs[1]), A(ins[2]), A(outs[2]), A(ins[3]), A(outs[3]), A(l)));
                                for (int i = 0; i < n; i++) {
                                        ref_kasumi_f8(KEY[0], ivb[i], ins[i], exp, (uint64_t) l * 8);
                                        n_eval++;
                                        if (memcmp(outs[i], exp, l))
                                                viol(n == 3 ? "kasumi-f8-3-buffer" : "kasumi-f8-4-buffer", "output-differs", "3/4-buffer result differs", prof, i);
                                }
                        }
                }
        /* F9 (already formatted message) */
        for (uint32_t l = 9; l <= HI_1; l++) {
                const uint8_t *msg = inbuf(0, l, 3300 + l);
                uint8_t *tag = place(RTAG[0], 4);
                uint8_t et[4];
                GUARDED("kasumi-f9-1-buffer", CALLN("kasumi_f9_1_buffer", m->f9_1_buffer, A(&k9), A(msg), A(l), A(tag)));
                ref_kasumi_f9(KEY[0], msg, l, et);
                n_eval++;
                if (memcmp(tag, et, 4))
                        viol("kasumi-f9-1-buffer", "tag-differs", "F9 result differs from the reference (x = bytes)", l, 0);
        }
}

static void
t_hash_crc(void)
{
        static const struct {
                const char *n;
                int ref, dsz, bsz;
        } H[5] = { { "sha1", REF_SHA1, 20, 64 }, { "sha224", REF_SHA224, 28, 64 }, { "sha256", REF_SHA256, 32, 64 }, { "sha384", REF_SHA384, 48, 128 },
                   { "sha512", REF_SHA512, 64, 128 } };
        void *fn[5] = { (void *) m->sha1, (void *) m->sha224, (void *) m->sha256, (void *) m->sha384, (void *) m->sha512 };
        void *ob[6] = { (void *) m->sha1_one_block, (void *) m->sha224_one_block, (void *) m->sha256_one_block, (void *) m->sha384_one_block,
                        (void *) m->sha512_one_block, (void *) m->md5_one_block };
        for (int h = 0; h < 5; h++)
                for (uint32_t l = 0; l <= HI_1; l++) {
                        const uint8_t *msg = inbuf(0, l ? l : 1, 4000 + l);
                        uint8_t *dg = outbuf(0, (size_t) H[h].dsz);
                        uint8_t ed[64];
                        GUARDED(H[h].n, CALLN("sha-one-shot", fn[h], A(msg), A(l), A(dg)));
                        ref_hash(H[h].ref, msg, l, ed);
                        n_eval++;
                        if (memcmp(dg, ed, (size_t) H[h].dsz) || !out_canary_ok(0, (size_t) H[h].dsz))
                                viol(H[h].n, "digest-differs", "one-shot digest differs from the reference (x = length)", l, 0);
                }
        /* one-block functions: state after compressing one block = HMAC ipad state for key = block ^ 0x36 */
        static const int ORef[6] = { REF_SHA1, REF_SHA224, REF_SHA256, REF_SHA384, REF_SHA512, REF_MD5 };
        static const int OState[6] = { 20, 32, 32, 64, 64, 16 };
        static const int OBlk[6] = { 64, 64, 64, 128, 128, 64 };
        static const char *ON[6] = { "sha1-one-block", "sha224-one-block", "sha256-one-block", "sha384-one-block", "sha512-one-block", "md5-one-block" };
        for (int h = 0; h < 6; h++)
                for (int t = 0; t < 20; t++) {
                        uint8_t *blk = inbuf(0, (size_t) OBlk[h], 4500 + (uint64_t) t);
                        uint8_t key[128], ip[128], op[128];
                        for (int i = 0; i < OBlk[h]; i++)
                                key[i] = blk[i] ^ 0x36;
                        uint8_t *st = outbuf(0, (size_t) OState[h]);
                        GUARDED(ON[h], CALLN("hash-one-block", ob[h], A(blk), A(st)));
                        ref_hmac_ipad_opad(ORef[h], key, (size_t) OBlk[h], ip, op);
                        n_eval++;
                        if (memcmp(st, ip, (size_t) OState[h]) || !out_canary_ok(0, (size_t) OState[h]))
                                viol(ON[h], "state-differs", "one-block chaining value differs from the reference", t, 0);
                }
        /* CRCs */
        void *cf[REF_CRC_NUM] = { 0 };
        cf[REF_CRC32_ETHERNET_FCS] = (void *) m->crc32_ethernet_fcs;
        cf[REF_CRC32_SCTP] = (void *) m->crc32_sctp;
        cf[REF_CRC32_WIMAX_OFDMA_DATA] = (void *) m->crc32_wimax_ofdma_data;
        cf[REF_CRC24_LTE_A] = (void *) m->crc24_lte_a;
        cf[REF_CRC24_LTE_B] = (void *) m->crc24_lte_b;
        cf[REF_CRC16_X25] = (void *) m->crc16_x25;
        cf[REF_CRC16_FP_DATA] = (void *) m->crc16_fp_data;
        cf[REF_CRC11_FP_HEADER] = (void *) m->crc11_fp_header;
        cf[REF_CRC10_IUUP_DATA] = (void *) m->crc10_iuup_data;
        cf[REF_CRC8_WIMAX_OFDMA_HCS] = (void *) m->crc8_wimax_ofdma_hcs;
        cf[REF_CRC7_FP_HEADER] = (void *) m->crc7_fp_header;
        cf[REF_CRC6_IUUP_HEADER] = (void *) m->crc6_iuup_header;
        for (int c = 0; c < REF_CRC_NUM; c++)
                for (uint32_t l = 1; l <= HI_1; l++) {
                        const uint8_t *msg = inbuf(0, l, 4800 + l);
                        uint32_t got = 0;
                        GUARDED("crc", got = (uint32_t) CALLN("crc", cf[c], A(msg), A(l)));
                        n_eval++;
                        if (got != ref_crc(c, msg, l))
                                viol("crc-direct", "crc-differs", "CRC differs from the reference (x = crc id, y = length)", c, l);
                }
        /* HEC */
        for (int t = 0; t < 2000; t++) {
                uint8_t *h4 = inbuf(0, 4, 5200 + (uint64_t) t), *h8 = inbuf(1, 8, 5300 + (uint64_t) t);
                uint32_t g32 = 0;
                uint64_t g64 = 0;
                GUARDED("hec-32", g32 = (uint32_t) CALLN("hec_32", m->hec_32, A(h4)));
                GUARDED("hec-64", g64 = CALLN("hec_64", m->hec_64, A(h8)));
                n_eval += 2;
                if (g32 != ref_hec32(h4))
                        viol("hec-32", "hec-differs", "HEC-32 differs from the reference", t, 0);
                if (g64 != ref_hec64(h8))
                        viol("hec-64", "hec-differs", "HEC-64 differs from the reference", t, 0);
        }
}

static void
t_gcm_cfb_quic(void)
{
        static struct gcm_key_data gk[3] __attribute__((aligned(64)));
        static struct gcm_context_data ctx;
        static const int KL[3] = { 16, 24, 32 };
        IMB_AES128_GCM_PRE(m, KEY[0], &gk[0]);
        IMB_AES192_GCM_PRE(m, KEY[0], &gk[1]);
        IMB_AES256_GCM_PRE(m, KEY[0], &gk[2]);
        void *enc[3] = { (void *) m->gcm128_enc, (void *) m->gcm192_enc, (void *) m->gcm256_enc };
        void *dec[3] = { (void *) m->gcm128_dec, (void *) m->gcm192_dec, (void *) m->gcm256_dec };
        uint8_t exp[MAXL], et[16];
        for (int k = 0; k < 3; k++)
                for (uint32_t l = 1; l <= 8193; l += (l < 300 ? 1 : l < 600 ? 13 : 1)) {
                        if (l > 600 && !((l >= 1023 && l <= 1025) || (l >= 2047 && l <= 2049) || (l >= 4064 && l <= 4081) || l >= 8191))
                                continue; /* dense, then the block-count boundaries of the 8/16/32/48-block loops */
                        for (int d = 0; d < 2; d++) {
                                uint32_t aadl = l % 27, tl = 1 + (l * 7 + (uint32_t) d) % 16; /* every tag length 1..16 */
                                const uint8_t *in = inbuf(0, l, 6000 + l);
                                uint8_t *out = outbuf(0, l);
                                uint8_t *iv = place(RIV[0], 12);
                                fill_rand(iv, 12, 6100 + l);
                                uint8_t *aad = place(RAAD, aadl);
                                fill_rand(aad, aadl, 6200 + l);
                                uint8_t *tag = place(RTAG[0], tl);
                                GUARDED("gcm-one-shot", CALLN("gcm_enc_dec", d ? enc[k] : dec[k], A(&gk[k]), A(&ctx), A(out), A(in), A(l), A(iv), A(aad), A(aadl), A(tag), A(tl)));
                                ref_gcm(d, KEY[0], KL[k], iv, 12, aad, aadl, in, exp, l, et);
                                n_eval++;
                                if (memcmp(out, exp, l) || memcmp(tag, et, tl) || !out_canary_ok(0, l))
                                        viol("gcm-one-shot", "output-differs", "direct GCM result differs from the reference (x = length, y = key index)", l, k);
                        }
                }
        /* GHASH */
        static struct gcm_key_data ghk __attribute__((aligned(64)));
        IMB_GHASH_PRE(m, KEY[1], &ghk);
        for (uint32_t l = 1; l <= 400; l++) {
                const uint8_t *in = inbuf(0, l, 6500 + l);
                uint8_t *tag = place(RTAG[0], 16);
                memset(tag, 0, 16);
                GUARDED("ghash", CALLN("ghash", m->ghash, A(&ghk), A(in), A(l), A(tag), A(16)));
                ref_ghash(KEY[1], in, l, et);
                n_eval++;
                if (memcmp(tag, et, 16))
                        viol("ghash-direct", "tag-differs", "direct GHASH differs from the reference (x = length)", l, 0);
        }
        /* single-block CFB */
        DECLARE_ALIGNED(uint32_t ek[60], 16);
        DECLARE_ALIGNED(uint32_t dk[60], 16);
        for (int k = 0; k < 2; k++) {
                if (k == 0)
                        IMB_AES_KEYEXP_128(m, KEY[2], ek, dk);
                else
                        IMB_AES_KEYEXP_256(m, KEY[2], ek, dk);
                for (uint32_t l = 1; l <= 16; l++)
                        for (int t = 0; t < 4; t++) {
                                const uint8_t *in = inbuf(0, l, 6700 + l * 7 + (uint64_t) t);
                                uint8_t *out = outbuf(0, l);
                                uint8_t *iv = place(RIV[0], 16);
                                fill_rand(iv, 16, 6800 + l);
                                GUARDED("cfb-one", CALLN("aes_cfb_one", k ? m->aes256_cfb_one : m->aes128_cfb_one, A(out), A(in), A(iv), A(ek), A(l)));
                                ref_aes_cfb128(1, KEY[2], k ? 32 : 16, iv, in, exp, l);
                                n_eval++;
                                if (memcmp(out, exp, l) || !out_canary_ok(0, l))
                                        viol(k ? "aes256-cfb-one" : "aes128-cfb-one", "output-differs", "single-block CFB differs from the reference (x = length)", l, 0);
                        }
        }
        /* QUIC batches */
        for (int q = 0; q < NNS; q++) {
                int n = NS[q];
                void *dsts[NB], *tags[NB];
                const void *srcs[NB], *ivs[NB], *aads[NB];
                uint64_t lens[NB];
                uint32_t l32[NB];
                profile_u(4, n, l32, 1, 600, 1);
                for (int k = 0; k < 3; k += 2)
                        for (int d = 0; d < 2; d++) {
                                static uint8_t aadbuf[NB][16];
                                for (int i = 0; i < n; i++) {
                                        lens[i] = l32[i];
                                        srcs[i] = inbuf(i, l32[i], 7000 + (uint64_t) i);
                                        dsts[i] = outbuf(i, l32[i]);
                                        uint8_t *iv = place(RIV[i], 12);
                                        fill_rand(iv, 12, 7100 + (uint64_t) i);
                                        ivs[i] = iv;
                                        fill_rand(aadbuf[i], 16, 7200 + (uint64_t) i);
                                        aads[i] = aadbuf[i];
                                        tags[i] = place(RTAG[i], 16);
                                }
                                GUARDED("quic-aes-gcm", CALLN("imb_quic_aes_gcm", imb_quic_aes_gcm, A(m), A(&gk[k]), A(KL[k]), A(d ? IMB_DIR_ENCRYPT : IMB_DIR_DECRYPT),
                                                              A(dsts), A(srcs), A(lens), A(ivs), A(aads), A(11), A(tags), A(16), A(n)));
                                for (int i = 0; i < n; i++) {
                                        ref_gcm(d, KEY[0], KL[k], ivs[i], 12, aads[i], 11, srcs[i], exp, l32[i], et);
                                        n_eval++;
                                        if (memcmp(dsts[i], exp, l32[i]) || memcmp(tags[i], et, 16))
                                                viol("quic-aes-gcm", "output-differs", "QUIC AES-GCM batch result differs from the reference (x = n, y = packet)", n, i);
                                }
                        }
                /* ChaCha20-Poly1305 batch */
                for (int d = 0; d < 2; d++) {
                        static uint8_t aadbuf[NB][16];
                        for (int i = 0; i < n; i++) {
                                lens[i] = l32[i];
                                srcs[i] = inbuf(i, l32[i], 7300 + (uint64_t) i);
                                dsts[i] = outbuf(i, l32[i]);
                                uint8_t *iv = place(RIV[i], 12);
                                fill_rand(iv, 12, 7400 + (uint64_t) i);
                                ivs[i] = iv;
                                fill_rand(aadbuf[i], 16, 7500 + (uint64_t) i);
                                aads[i] = aadbuf[i];
                                tags[i] = place(RTAG[i], 16);
                        }
                        GUARDED("quic-chacha20-poly1305", CALLN("imb_quic_chacha20_poly1305", imb_quic_chacha20_poly1305, A(m), A(KEY[3]), A(d ? IMB_DIR_ENCRYPT : IMB_DIR_DECRYPT),
                                                                A(dsts), A(srcs), A(lens), A(ivs), A(aads), A(9), A(tags), A(n)));
                        for (int i = 0; i < n; i++) {
                                ref_chacha20_poly1305(d, KEY[3], ivs[i], aads[i], 9, srcs[i], exp, l32[i], et);
                                n_eval++;
                                if (memcmp(dsts[i], exp, l32[i]) || memcmp(tags[i], et, 16))
                                        viol("quic-chacha20-poly1305", "output-differs", "QUIC ChaCha20-Poly1305 batch differs from the reference (x = n, y = packet)", n, i);
                        }
                }
                /* header protection masks */
                for (int i = 0; i < n; i++) {
                        srcs[i] = inbuf(i, 16, 7600 + (uint64_t) i);
                        dsts[i] = outbuf(i, 5);
                }
                IMB_AES_KEYEXP_128(m, KEY[4], ek, dk);
                GUARDED("quic-hp-aes-ecb", CALLN("imb_quic_hp_aes_ecb", imb_quic_hp_aes_ecb, A(m), A(ek), A(dsts), A(srcs), A(n), A(16)));
                for (int i = 0; i < n; i++) {
                        uint8_t blk[16];
                        ref_aes_block(1, KEY[4], 16, srcs[i], blk);
                        n_eval++;
                        if (memcmp(dsts[i], blk, 5) || !out_canary_ok(i, 5))
                                viol("quic-hp-aes-ecb", "mask-differs", "header-protection mask differs from AES-ECB of the sample (x = n, y = packet)", n, i);
                }
                for (int i = 0; i < n; i++)
                        dsts[i] = outbuf(i, 5);
                GUARDED("quic-hp-chacha20", CALLN("imb_quic_hp_chacha20", imb_quic_hp_chacha20, A(m), A(KEY[5]), A(dsts), A(srcs), A(n)));
                for (int i = 0; i < n; i++) {
                        const uint8_t *s = srcs[i];
                        uint32_t ctr = (uint32_t) s[0] | (uint32_t) s[1] << 8 | (uint32_t) s[2] << 16 | (uint32_t) s[3] << 24;
                        uint8_t z[5] = { 0 }, mask[5];
                        ref_chacha20(KEY[5], s + 4, ctr, z, mask, 5);
                        n_eval++;
                        if (memcmp(dsts[i], mask, 5) || !out_canary_ok(i, 5))
                                viol("quic-hp-chacha20", "mask-differs", "header-protection mask differs from ChaCha20(counter, nonce from sample) (x = n, y = packet)", n, i);
                }
        }
}

/* ---- bit-level helpers: bit i of a buffer = MSB-first within bytes ---- */
static inline int
getbit(const uint8_t *p, size_t i)
{
        return (p[i >> 3] >> (7 - (i & 7))) & 1;
}
/* expectation for a bit-offset stream cipher call: out bits [off, off+n) = in bits [off, off+n) ^ ks bits [0, n); every
 * other bit of out keeps its previous value. ks = keystream obtained by encrypting zeros with the reference. */
static int
bit_expect_ok(const uint8_t *in, const uint8_t *out, const uint8_t *out_before, const uint8_t *ks, size_t off, size_t n, size_t total_bytes, int tail_free)
{
        for (size_t i = 0; i < total_bytes * 8; i++) {
                if (tail_free && off == 0 && i >= n)
                        break; /* SNOW3G, byte-aligned start: the whole last byte is rewritten; its trailing bits are not part of the result */
                int e = (i >= off && i < off + n) ? (getbit(in, i) ^ getbit(ks, i - off)) : getbit(out_before, i);
                if (getbit(out, i) != e)
                        return 0;
        }
        return 1;
}
static void
t_bit_level(void)
{
        static snow3g_key_schedule_t sk;
        static kasumi_key_sched_t k8, k9;
        IMB_SNOW3G_INIT_KEY_SCHED(m, KEY[0], &sk);
        IMB_KASUMI_INIT_F8_KEY_SCHED(m, KEY[0], &k8);
        IMB_KASUMI_INIT_F9_KEY_SCHED(m, KEY[0], &k9);
        static uint8_t zeros[400], ks[400], before[400];
        for (uint32_t bits = 1; bits <= 700; bits += (bits < 140 ? 1 : 7))
                for (uint32_t off = 0; off < 8; off++) {
                        size_t tb = (off + bits + 7) / 8;
                        uint8_t *iv = place(RIV[0], 16);
                        fill_rand(iv, 16, 9100 + bits);
                        /* SNOW3G */
                        const uint8_t *in = inbuf(0, tb, 9000 + bits * 8 + off);
                        uint8_t *out = outbuf(0, tb);
                        fill_rand(out, tb, 9200 + bits);
                        memcpy(before, out, tb);
                        ref_snow3g_uea2(KEY[0], iv, zeros, ks, bits);
                        GUARDED("snow3g-f8-1-buffer-bit", CALLN("snow3g_f8_1_buffer_bit", m->snow3g_f8_1_buffer_bit, A(&sk), A(iv), A(in), A(out), A(bits), A(off)));
                        n_eval++;
                        if (!bit_expect_ok(in, out, before, ks, off, bits, tb, 1))
                                viol("snow3g-f8-1-buffer-bit", "output-differs", "bits [off, off+len) must be in ^ keystream and every other bit of dst unchanged (x = bits, y = offset)", bits, off);
                        /* KASUMI: same convention, trailing bits of the last byte preserved at every offset */
                        {
                                uint64_t kiv;
                                memcpy(&kiv, iv, 8);
                                in = inbuf(1, tb, 9300 + bits * 8 + off);
                                out = outbuf(1, tb);
                                fill_rand(out, tb, 9400 + bits);
                                memcpy(before, out, tb);
                                ref_kasumi_f8(KEY[0], iv, zeros, ks, bits);
                                GUARDED("kasumi-f8-1-buffer-bit", CALLN("kasumi_f8_1_buffer_bit", m->f8_1_buffer_bit, A(&k8), kiv, A(in), A(out), A(bits), A(off)));
                                n_eval++;
                                if (!bit_expect_ok(in, out, before, ks, off, bits, tb, 0))
                                        viol("kasumi-f8-1-buffer-bit", "output-differs", "bits [off, off+len) must be in ^ keystream and every other bit of dst unchanged (x = bits, y = offset)", bits, off);
                                /* in place */
                                uint8_t *io = outbuf(2, tb);
                                fill_rand(io, tb, 9450 + bits * 8 + off);
                                memcpy(before, io, tb);
                                GUARDED("kasumi-f8-1-buffer-bit", CALLN("kasumi_f8_1_buffer_bit", m->f8_1_buffer_bit, A(&k8), kiv, A(io), A(io), A(bits), A(off)));
                                n_eval++;
                                if (!bit_expect_ok(before, io, before, ks, off, bits, tb, 0))
                                        viol("kasumi-f8-1-buffer-bit", "output-differs", "in place: bits [off, off+len) must be in ^ keystream and every other bit unchanged (x = bits, y = offset)", bits, off);
                                io = outbuf(2, tb);
                                fill_rand(io, tb, 9460 + bits * 8 + off);
                                memcpy(before, io, tb);
                                ref_snow3g_uea2(KEY[0], iv, zeros, ks, bits);
                                GUARDED("snow3g-f8-1-buffer-bit", CALLN("snow3g_f8_1_buffer_bit", m->snow3g_f8_1_buffer_bit, A(&sk), A(iv), A(io), A(io), A(bits), A(off)));
                                n_eval++;
                                if (!bit_expect_ok(before, io, before, ks, off, bits, tb, 1))
                                        viol("snow3g-f8-1-buffer-bit", "output-differs", "in place: bits [off, off+len) must be in ^ keystream and every other bit unchanged (x = bits, y = offset)", bits, off);
                        }
                }
        /* KASUMI F9 with unformatted message: COUNT||FRESH (iv), message bits, direction */
        for (uint32_t bits = 1; bits <= 700; bits++)
                for (uint32_t dir = 0; dir < 2; dir++) {
                        uint8_t ivb[8], fmt[128], et[4];
                        uint64_t kiv;
                        fill_rand(ivb, 8, 9500 + bits);
                        memcpy(&kiv, ivb, 8);
                        size_t mb = (bits + 7) / 8;
                        const uint8_t *msg = inbuf(0, mb, 9600 + bits);
                        uint8_t *tag = place(RTAG[0], 4);
                        memset(fmt, 0, sizeof fmt);
                        memcpy(fmt, ivb, 8);
                        for (uint32_t i = 0; i < bits; i++)
                                if (getbit(msg, i))
                                        fmt[8 + (i >> 3)] |= (uint8_t) (0x80 >> (i & 7));
                        uint32_t p = 64 + bits;
                        if (dir)
                                fmt[p >> 3] |= (uint8_t) (0x80 >> (p & 7));
                        p++;
                        fmt[p >> 3] |= (uint8_t) (0x80 >> (p & 7));
                        p++;
                        GUARDED("kasumi-f9-1-buffer-user", CALLN("kasumi_f9_1_buffer_user", m->f9_1_buffer_user, A(&k9), kiv, A(msg), A(bits), A(tag), A(dir)));
                        ref_kasumi_f9(KEY[0], fmt, (p + 7) / 8, et);
                        n_eval++;
                        if (memcmp(tag, et, 4))
                                viol("kasumi-f9-1-buffer-user", "tag-differs", "F9 over COUNT||FRESH||message||direction||1||0.. differs from the reference (x = bits, y = direction)", bits, dir);
                }
}

/* two-buffer functions: every pair of lengths 1..48 x 1..48 with distinct IVs (tail branches depend on how the two lengths
 * relate: same block, next block, partial / full last block) */
static void
t_pairs(void)
{
        static snow3g_key_schedule_t sk;
        static kasumi_key_sched_t k8;
        IMB_SNOW3G_INIT_KEY_SCHED(m, KEY[0], &sk);
        IMB_KASUMI_INIT_F8_KEY_SCHED(m, KEY[0], &k8);
        uint8_t exp[64];
        uint8_t *iv0 = place(RIV[0], 16), *iv1 = place(RIV[1], 16), *iv2 = place(RIV[2], 16), *iv3 = place(RIV[3], 16);
        fill_rand(iv0, 16, 11000);
        fill_rand(iv1, 16, 11001);
        fill_rand(iv2, 16, 11002);
        fill_rand(iv3, 16, 11003);
        uint64_t k0, k1;
        memcpy(&k0, iv0, 8);
        memcpy(&k1, iv1, 8);
        for (uint32_t l1 = 1; l1 <= 48; l1++)
                for (uint32_t l2 = 1; l2 <= 48; l2++) {
                        const uint8_t *in0 = inbuf(0, l1, 11100 + l1), *in1 = inbuf(1, l2, 11200 + l2);
                        uint8_t *o0 = outbuf(0, l1), *o1 = outbuf(1, l2);
                        GUARDED("kasumi-f8-2-buffer", CALLN("kasumi_f8_2_buffer", m->f8_2_buffer, A(&k8), k0, k1, A(in0), A(o0), A(l1), A(in1), A(o1), A(l2)));
                        n_eval++;
                        ref_kasumi_f8(KEY[0], iv0, in0, exp, (uint64_t) l1 * 8);
                        int bad = memcmp(o0, exp, l1) != 0;
                        ref_kasumi_f8(KEY[0], iv1, in1, exp, (uint64_t) l2 * 8);
                        bad |= (memcmp(o1, exp, l2) != 0) << 1;
                        if (bad || !out_canary_ok(0, l1) || !out_canary_ok(1, l2))
                                viol("kasumi-f8-2-buffer", "output-differs", "2-buffer result differs from the reference (x = len1*100 + len2, y = which buffers)", l1 * 100 + l2, bad);
                        o0 = outbuf(0, l1);
                        o1 = outbuf(1, l2);
                        GUARDED("snow3g-f8-2-buffer", CALLN("snow3g_f8_2_buffer", m->snow3g_f8_2_buffer, A(&sk), A(iv0), A(iv1), A(in0), A(o0), A(l1), A(in1), A(o1), A(l2)));
                        n_eval++;
                        ref_snow3g_uea2(KEY[0], iv0, in0, exp, (uint64_t) l1 * 8);
                        bad = memcmp(o0, exp, l1) != 0;
                        ref_snow3g_uea2(KEY[0], iv1, in1, exp, (uint64_t) l2 * 8);
                        bad |= (memcmp(o1, exp, l2) != 0) << 1;
                        if (bad)
                                viol("snow3g-f8-2-buffer", "output-differs", "2-buffer result differs from the reference (x = len1*100 + len2, y = which buffers)", l1 * 100 + l2, bad);
                        if ((l1 + l2) % 3)
                                continue;
                        /* 4-buffer SNOW3G with the pair in positions 1 and 3 */
                        const uint8_t *in2 = inbuf(2, 23, 11300), *in3 = inbuf(3, l2, 11400 + l2);
                        uint8_t *o2 = outbuf(2, 23), *o3 = outbuf(3, l2);
                        o0 = outbuf(0, 9);
                        o1 = outbuf(1, l1);
                        const uint8_t *in1b = inbuf(1, l1, 11500 + l1);
                        const uint8_t *in0b = inbuf(0, 9, 11600);
                        GUARDED("snow3g-f8-4-buffer", CALLN("snow3g_f8_4_buffer", m->snow3g_f8_4_buffer, A(&sk), A(iv0), A(iv1), A(iv2), A(iv3), A(in0b), A(o0), 9, A(in1b), A(o1), A(l1),
                                                            A(in2), A(o2), 23, A(in3), A(o3), A(l2)));
                        n_eval++;
                        ref_snow3g_uea2(KEY[0], iv1, in1b, exp, (uint64_t) l1 * 8);
                        bad = memcmp(o1, exp, l1) != 0;
                        ref_snow3g_uea2(KEY[0], iv3, in3, exp, (uint64_t) l2 * 8);
                        bad |= (memcmp(o3, exp, l2) != 0) << 1;
                        ref_snow3g_uea2(KEY[0], iv0, in0b, exp, 72);
                        bad |= (memcmp(o0, exp, 9) != 0) << 2;
                        ref_snow3g_uea2(KEY[0], iv2, in2, exp, 184);
                        bad |= (memcmp(o2, exp, 23) != 0) << 3;
                        if (bad)
                                viol("snow3g-f8-4-buffer", "output-differs", "4-buffer result differs from the reference (x = len[1]*100 + len[3], y = which buffers)", l1 * 100 + l2, bad);
                }
}

/* exported helpers that are not reached through the manager's table */
static void
t_misc(void)
{
        uint64_t ks[16];
        uint8_t exp[16], zero8[8] = { 0 };
        IMB_DES_KEYSCHED(m, ks, KEY[6]);
        for (int len = 1; len <= 8; len++)
                for (int t = 0; t < 8; t++) {
                        const uint8_t *in = inbuf(0, (size_t) len, 9700 + (uint64_t) (len * 8 + t));
                        uint8_t *out = outbuf(0, (size_t) len);
                        uint8_t *iv = place(RIV[0], 8);
                        fill_rand(iv, 8, 9800 + (uint64_t) t);
                        GUARDED("des-cfb-one", CALLN("des_cfb_one", des_cfb_one, A(out), A(in), A(iv), A(ks), A(len)));
                        uint8_t eiv[8];
                        ref_des_cbc(1, KEY[6], zero8, iv, eiv, 8); /* E_k(iv) */
                        for (int i = 0; i < len; i++)
                                exp[i] = in[i] ^ eiv[i];
                        n_eval++;
                        if (memcmp(out, exp, (size_t) len) || !out_canary_ok(0, (size_t) len))
                                viol("des-cfb-one", "output-differs", "single-block DES-CFB differs from in ^ E_k(iv) (x = length)", len, t);
                }
        for (size_t n = 0; n <= 300; n++) {
                uint8_t *b = outbuf(0, n);
                memset(b, 0x5C, n);
                GUARDED("imb-clear-mem", CALLN("imb_clear_mem", imb_clear_mem, A(b), A(n)));
                n_eval++;
                int bad = 0;
                for (size_t i = 0; i < n; i++)
                        bad |= b[i];
                if (bad || !out_canary_ok(0, n))
                        viol("imb-clear-mem", "output-differs", "imb_clear_mem did not zero exactly the given range (x = size)", (long) n, 0);
        }
        /* pure queries: only the calling-convention invariant and "no fault" apply */
        GUARDED("imb-get-feature-flags", CALLN("imb_get_feature_flags", imb_get_feature_flags, 0));
        GUARDED("imb-get-arch-type-string", CALLN("imb_get_arch_type_string", imb_get_arch_type_string, A(m), A(NULL), A(NULL)));
        GUARDED("imb-hash-burst-get-size", CALLN("imb_hash_burst_get_size", imb_hash_burst_get_size, A(m), IMB_AUTH_HMAC_SHA_1, A(exp)));
        GUARDED("imb-cipher-burst-get-size", CALLN("imb_cipher_burst_get_size", imb_cipher_burst_get_size, A(m), IMB_CIPHER_CBC, A(exp)));
        GUARDED("imb-aead-burst-get-size", CALLN("imb_aead_burst_get_size", imb_aead_burst_get_size, A(m), IMB_CIPHER_CCM, A(exp)));
        n_eval += 5;
}

/* NULL / zero arguments: no fault and an error code */
/* NULL is a valid pointer wherever the length that goes with it is 0 (the SAFE_PARAM checks reject NULL only together with a
 * non-zero length): multi-call AEAD sequences with a NULL AAD / NULL zero-length segments must work and give the reference result */
static void
t_null_zero(void)
{
        static struct gcm_key_data gk[3] __attribute__((aligned(64)));
        static struct gcm_context_data gctx;
        static struct chacha20_poly1305_context_data cctx;
        static const int KL[3] = { 16, 24, 32 };
        IMB_AES128_GCM_PRE(m, KEY[0], &gk[0]);
        IMB_AES192_GCM_PRE(m, KEY[0], &gk[1]);
        IMB_AES256_GCM_PRE(m, KEY[0], &gk[2]);
        void *ginit[3] = { (void *) m->gcm128_init, (void *) m->gcm192_init, (void *) m->gcm256_init };
        void *gupd[2][3] = { { (void *) m->gcm128_dec_update, (void *) m->gcm192_dec_update, (void *) m->gcm256_dec_update },
                             { (void *) m->gcm128_enc_update, (void *) m->gcm192_enc_update, (void *) m->gcm256_enc_update } };
        void *gfin[2][3] = { { (void *) m->gcm128_dec_finalize, (void *) m->gcm192_dec_finalize, (void *) m->gcm256_dec_finalize },
                             { (void *) m->gcm128_enc_finalize, (void *) m->gcm192_enc_finalize, (void *) m->gcm256_enc_finalize } };
        void *gone[2][3] = { { (void *) m->gcm128_dec, (void *) m->gcm192_dec, (void *) m->gcm256_dec },
                             { (void *) m->gcm128_enc, (void *) m->gcm192_enc, (void *) m->gcm256_enc } };
        void *minit[3] = { (void *) m->gmac128_init, (void *) m->gmac192_init, (void *) m->gmac256_init };
        void *mupd[3] = { (void *) m->gmac128_update, (void *) m->gmac192_update, (void *) m->gmac256_update };
        void *mfin[3] = { (void *) m->gmac128_finalize, (void *) m->gmac192_finalize, (void *) m->gmac256_finalize };
        uint8_t exp[128], et[16];
        static const uint32_t LS[4] = { 0, 1, 37, 64 };
        for (int li = 0; li < 4; li++)
                for (int d = 0; d < 2; d++) {
                        const uint32_t l = LS[li];
                        const uint8_t *in = inbuf(0, l ? l : 1, 9100 + l);
                        uint8_t *out = outbuf(0, l ? l : 1);
                        uint8_t *iv = place(RIV[0], 12);
                        fill_rand(iv, 12, 9200 + l);
                        uint8_t *tag = place(RTAG[0], 16);
                        /* CHACHA20-POLY1305: init with aad = NULL / 0, NULL zero-length updates around the data */
                        memset(tag, 0, 16);
                        GUARDED("chacha20-poly1305-null-zero", {
                                CALLN("chacha20_poly1305_init", m->chacha20_poly1305_init, A(KEY[0]), A(&cctx), A(iv), 0, 0);
                                CALLN("chacha20_poly1305_update", d ? m->chacha20_poly1305_enc_update : m->chacha20_poly1305_dec_update, A(KEY[0]), A(&cctx), 0, 0, 0);
                                if (l)
                                        CALLN("chacha20_poly1305_update", d ? m->chacha20_poly1305_enc_update : m->chacha20_poly1305_dec_update, A(KEY[0]), A(&cctx), A(out), A(in), A(l));
                                CALLN("chacha20_poly1305_update", d ? m->chacha20_poly1305_enc_update : m->chacha20_poly1305_dec_update, A(KEY[0]), A(&cctx), 0, 0, 0);
                                CALLN("chacha20_poly1305_finalize", m->chacha20_poly1305_finalize, A(&cctx), A(tag), 16);
                        });
                        ref_chacha20_poly1305(d, KEY[0], iv, NULL, 0, in, exp, l, et);
                        n_eval++;
                        if ((l && memcmp(out, exp, l)) || memcmp(tag, et, 16))
                                viol("chacha20-poly1305-null-zero", "output-differs", "sequence with NULL AAD / NULL zero-length segments differs from the reference (x = length, y = direction)", l, d);
                        for (int k = 0; k < 3; k++) {
                                /* GCM streaming */
                                out = outbuf(0, l ? l : 1);
                                memset(tag, 0, 16);
                                GUARDED("gcm-null-zero", {
                                        CALLN("gcm_init", ginit[k], A(&gk[k]), A(&gctx), A(iv), 0, 0);
                                        CALLN("gcm_update", gupd[d][k], A(&gk[k]), A(&gctx), 0, 0, 0);
                                        if (l)
                                                CALLN("gcm_update", gupd[d][k], A(&gk[k]), A(&gctx), A(out), A(in), A(l));
                                        CALLN("gcm_update", gupd[d][k], A(&gk[k]), A(&gctx), 0, 0, 0);
                                        CALLN("gcm_finalize", gfin[d][k], A(&gk[k]), A(&gctx), A(tag), 16);
                                });
                                ref_gcm(d, KEY[0], KL[k], iv, 12, NULL, 0, in, exp, l, et);
                                n_eval++;
                                if ((l && memcmp(out, exp, l)) || memcmp(tag, et, 16))
                                        viol("gcm-null-zero", "output-differs", "GCM init/update/finalize with NULL AAD / NULL zero-length segments differs from the reference (x = length, y = key index)", l, k);
                                /* GCM one shot, NULL AAD (and NULL in/out for the empty message) */
                                out = outbuf(0, l ? l : 1);
                                memset(tag, 0, 16);
                                GUARDED("gcm-one-shot-null-zero", CALLN("gcm_enc_dec", gone[d][k], A(&gk[k]), A(&gctx), l ? A(out) : 0, l ? A(in) : 0, A(l), A(iv), 0, 0, A(tag), 16));
                                n_eval++;
                                if ((l && memcmp(out, exp, l)) || memcmp(tag, et, 16))
                                        viol("gcm-one-shot-null-zero", "output-differs", "one-shot GCM with NULL AAD (NULL buffers when empty) differs from the reference (x = length, y = key index)", l, k);
                                if (d)
                                        continue;
                                /* GMAC: NULL zero-length updates around the data */
                                memset(tag, 0, 16);
                                GUARDED("gmac-null-zero", {
                                        CALLN("gmac_init", minit[k], A(&gk[k]), A(&gctx), A(iv), 12);
                                        CALLN("gmac_update", mupd[k], A(&gk[k]), A(&gctx), 0, 0);
                                        if (l)
                                                CALLN("gmac_update", mupd[k], A(&gk[k]), A(&gctx), A(in), A(l));
                                        CALLN("gmac_update", mupd[k], A(&gk[k]), A(&gctx), 0, 0);
                                        CALLN("gmac_finalize", mfin[k], A(&gk[k]), A(&gctx), A(tag), 16);
                                });
                                ref_gmac(KEY[0], KL[k], iv, 12, in, l, et);
                                n_eval++;
                                if (memcmp(tag, et, 16))
                                        viol("gmac-null-zero", "tag-differs", "GMAC with NULL zero-length updates differs from the reference (x = length, y = key index)", l, k);
                        }
                }
}
static void
t_null_args(void)
{
        static struct gcm_key_data gk __attribute__((aligned(64)));
        static struct gcm_context_data ctx;
        static snow3g_key_schedule_t sk;
        static kasumi_key_sched_t kk;
        uint8_t buf[64], out[64], iv[16], tag[16];
        IMB_AES128_GCM_PRE(m, KEY[0], &gk);
        IMB_SNOW3G_INIT_KEY_SCHED(m, KEY[0], &sk);
        IMB_KASUMI_INIT_F8_KEY_SCHED(m, KEY[0], &kk);
        uint64_t ivv = 5;
        static uint8_t kbuf[512] __attribute__((aligned(64))), b4[8][64], o4[8][64], t4[8][16], i4[8][16];
        static const void *P4K[8], *P4I[8], *P4S[8], *P4SK[8], *P8SK[8], *P8I[8], *P8S[8];
        static void *P4D[8], *P4T[8], *P8D[8];
        static uint32_t L4[8], L8[8];
        static uint64_t L4Q[8], IV4[8];
        for (int i = 0; i < 8; i++) {
                P4K[i] = KEY[i];
                P4I[i] = P8I[i] = i4[i];
                P4S[i] = P8S[i] = b4[i];
                P4D[i] = P8D[i] = o4[i];
                P4T[i] = t4[i];
                P4SK[i] = P8SK[i] = &sk;
                L4[i] = L8[i] = 32;
                L4Q[i] = 32;
                IV4[i] = 7;
        }
        struct {
                const char *n;
                void *fn;
                int na;
                uint64_t a[14];
                uint16_t ptrmask; /* which arguments are pointers that may be NULLed */
                uint16_t arrmask; /* which of them are arrays of 4 pointers: one element is NULLed as well */
        } T[] = {
                { "gcm128-enc", (void *) m->gcm128_enc, 10, { A(&gk), A(&ctx), A(out), A(buf), 32, A(iv), A(buf), 8, A(tag), 16 }, 0x16F },
                { "gcm128-dec", (void *) m->gcm128_dec, 10, { A(&gk), A(&ctx), A(out), A(buf), 32, A(iv), A(buf), 8, A(tag), 16 }, 0x16F },
                { "gcm128-init", (void *) m->gcm128_init, 5, { A(&gk), A(&ctx), A(iv), A(buf), 8 }, 0x0F },
                { "gcm128-enc-update", (void *) m->gcm128_enc_update, 5, { A(&gk), A(&ctx), A(out), A(buf), 32 }, 0x0F },
                { "gcm128-enc-finalize", (void *) m->gcm128_enc_finalize, 4, { A(&gk), A(&ctx), A(tag), 16 }, 0x07 },
                { "gcm128-pre", (void *) m->gcm128_pre, 2, { A(KEY[0]), A(&gk) }, 0x03 },
                { "ghash", (void *) m->ghash, 5, { A(&gk), A(buf), 32, A(tag), 16 }, 0x0B },
                { "aes-keyexp-128", (void *) m->keyexp_128, 3, { A(KEY[0]), A(out), A(buf) }, 0x07 },
                { "aes-keyexp-256", (void *) m->keyexp_256, 3, { A(KEY[0]), A(out), A(buf) }, 0x07 },
                { "cmac-subkey-gen-128", (void *) m->cmac_subkey_gen_128, 3, { A(buf), A(out), A(tag) }, 0x07 },
                { "xcbc-keyexp", (void *) m->xcbc_keyexp, 4, { A(KEY[0]), A(out), A(tag), A(iv) }, 0x0F },
                { "des-keysched", (void *) m->des_key_sched, 2, { A(out), A(KEY[0]) }, 0x03 },
                { "sha1", (void *) m->sha1, 3, { A(buf), 32, A(out) }, 0x05 },
                { "sha256", (void *) m->sha256, 3, { A(buf), 32, A(out) }, 0x05 },
                { "sha512", (void *) m->sha512, 3, { A(buf), 32, A(out) }, 0x05 },
                { "sha1-one-block", (void *) m->sha1_one_block, 2, { A(buf), A(out) }, 0x03 },
                { "md5-one-block", (void *) m->md5_one_block, 2, { A(buf), A(out) }, 0x03 },
                { "zuc-eea3-1-buffer", (void *) m->eea3_1_buffer, 5, { A(KEY[0]), A(iv), A(buf), A(out), 32 }, 0x0F },
                { "zuc-eia3-1-buffer", (void *) m->eia3_1_buffer, 5, { A(KEY[0]), A(iv), A(buf), 100, A(tag) }, 0x17 },
                { "snow3g-f8-1-buffer", (void *) m->snow3g_f8_1_buffer, 5, { A(&sk), A(iv), A(buf), A(out), 32 }, 0x0F },
                { "snow3g-f9-1-buffer", (void *) m->snow3g_f9_1_buffer, 5, { A(&sk), A(iv), A(buf), 100, A(tag) }, 0x17 },
                { "snow3g-init-key-sched", (void *) m->snow3g_init_key_sched, 2, { A(KEY[0]), A(&sk) }, 0x03 },
                { "kasumi-f8-1-buffer", (void *) m->f8_1_buffer, 5, { A(&kk), ivv, A(buf), A(out), 32 }, 0x0D },
                { "kasumi-f9-1-buffer", (void *) m->f9_1_buffer, 4, { A(&kk), A(buf), 32, A(tag) }, 0x0B },
                { "kasumi-init-f8-key-sched", (void *) m->kasumi_init_f8_key_sched, 2, { A(KEY[0]), A(&kk) }, 0x03 },
                { "aes128-cfb-one", (void *) m->aes128_cfb_one, 5, { A(out), A(buf), A(iv), A(buf), 16 }, 0x0F },
                { "crc32-ethernet-fcs", (void *) m->crc32_ethernet_fcs, 2, { A(buf), 32 }, 0x01 },
                { "crc16-x25", (void *) m->crc16_x25, 2, { A(buf), 32 }, 0x01 },
                { "hec-32", (void *) m->hec_32, 1, { A(buf) }, 0x01 },
                { "hec-64", (void *) m->hec_64, 1, { A(buf) }, 0x01 },
                { "chacha20-poly1305-init", (void *) m->chacha20_poly1305_init, 5, { A(KEY[0]), A(out), A(iv), A(buf), 8 }, 0x0F },
                { "hmac-ipad-opad", (void *) imb_hmac_ipad_opad, 6, { A(m), IMB_AUTH_HMAC_SHA_1, A(KEY[0]), 20, A(out), A(buf) }, 0x04 },
                { "imb-set-session", (void *) imb_set_session, 2, { A(m), 0 }, 0x00 },
                { "gcm192-enc", (void *) m->gcm192_enc, 10, { A(&gk), A(&ctx), A(out), A(buf), 32, A(iv), A(buf), 8, A(tag), 16 }, 0x16F },
                { "gcm256-dec", (void *) m->gcm256_dec, 10, { A(&gk), A(&ctx), A(out), A(buf), 32, A(iv), A(buf), 8, A(tag), 16 }, 0x16F },
                { "gcm128-init-var-iv", (void *) m->gcm128_init_var_iv, 6, { A(&gk), A(&ctx), A(iv), 16, A(buf), 8 }, 0x17 },
                { "gcm128-dec-update", (void *) m->gcm128_dec_update, 5, { A(&gk), A(&ctx), A(out), A(buf), 32 }, 0x0F },
                { "gcm128-dec-finalize", (void *) m->gcm128_dec_finalize, 4, { A(&gk), A(&ctx), A(tag), 16 }, 0x07 },
                { "gmac128-init", (void *) m->gmac128_init, 4, { A(&gk), A(&ctx), A(iv), 12 }, 0x07 },
                { "gmac128-update", (void *) m->gmac128_update, 4, { A(&gk), A(&ctx), A(buf), 32 }, 0x07 },
                { "gmac128-finalize", (void *) m->gmac128_finalize, 4, { A(&gk), A(&ctx), A(tag), 16 }, 0x07 },
                { "gcm192-pre", (void *) m->gcm192_pre, 2, { A(KEY[0]), A(&gk) }, 0x03 },
                { "gcm128-precomp", (void *) m->gcm128_precomp, 1, { A(&gk) }, 0x01 },
                { "ghash-pre", (void *) m->ghash_pre, 2, { A(KEY[0]), A(&gk) }, 0x03 },
                { "aes-keyexp-192", (void *) m->keyexp_192, 3, { A(KEY[0]), A(out), A(buf) }, 0x07 },
                { "cmac-subkey-gen-256", (void *) m->cmac_subkey_gen_256, 3, { A(buf), A(out), A(tag) }, 0x07 },
                { "sm4-keyexp", (void *) m->sm4_keyexp, 3, { A(KEY[0]), A(kbuf), A(kbuf + 128) }, 0x07 },
                { "sha224", (void *) m->sha224, 3, { A(buf), 32, A(out) }, 0x05 },
                { "sha384", (void *) m->sha384, 3, { A(buf), 32, A(out) }, 0x05 },
                { "sha256-one-block", (void *) m->sha256_one_block, 2, { A(buf), A(out) }, 0x03 },
                { "sha512-one-block", (void *) m->sha512_one_block, 2, { A(kbuf), A(out) }, 0x03 },
                { "zuc-eea3-4-buffer", (void *) m->eea3_4_buffer, 5, { A(P4K), A(P4I), A(P4S), A(P4D), A(L4) }, 0x1F, 0x0F },
                { "zuc-eea3-n-buffer", (void *) m->eea3_n_buffer, 6, { A(P4K), A(P4I), A(P4S), A(P4D), A(L4), 4 }, 0x1F, 0x0F },
                { "zuc-eia3-n-buffer", (void *) m->eia3_n_buffer, 6, { A(P4K), A(P4I), A(P4S), A(L4), A(P4T), 4 }, 0x1F, 0x17 },
                { "snow3g-f8-1-buffer-bit", (void *) m->snow3g_f8_1_buffer_bit, 6, { A(&sk), A(iv), A(buf), A(out), 100, 3 }, 0x0F },
                { "snow3g-f8-2-buffer", (void *) m->snow3g_f8_2_buffer, 9, { A(&sk), A(iv), A(iv), A(buf), A(out), 32, A(buf), A(kbuf), 32 }, 0xDF },
                { "snow3g-f8-n-buffer", (void *) m->snow3g_f8_n_buffer, 6, { A(&sk), A(P4I), A(P4S), A(P4D), A(L4), 4 }, 0x1F, 0x0E },
                { "snow3g-f8-n-buffer-multikey", (void *) m->snow3g_f8_n_buffer_multikey, 6, { A(P4SK), A(P4I), A(P4S), A(P4D), A(L4), 4 }, 0x1F, 0x0F },
                { "snow3g-f8-8-buffer-multikey", (void *) m->snow3g_f8_8_buffer_multikey, 5, { A(P8SK), A(P8I), A(P8S), A(P8D), A(L8) }, 0x1F, 0x00 },
                { "kasumi-f8-1-buffer-bit", (void *) m->f8_1_buffer_bit, 6, { A(&kk), ivv, A(buf), A(out), 100, 3 }, 0x0D },
                { "kasumi-f8-2-buffer", (void *) m->f8_2_buffer, 9, { A(&kk), ivv, ivv, A(buf), A(out), 32, A(buf), A(kbuf), 32 }, 0xD9 },
                { "kasumi-f8-n-buffer", (void *) m->f8_n_buffer, 6, { A(&kk), A(IV4), A(P4S), A(P4D), A(L4), 4 }, 0x1F, 0x0C },
                { "kasumi-f9-1-buffer-user", (void *) m->f9_1_buffer_user, 6, { A(&kk), ivv, A(buf), 100, A(tag), 1 }, 0x15 },
                { "kasumi-init-f9-key-sched", (void *) m->kasumi_init_f9_key_sched, 2, { A(KEY[0]), A(&kk) }, 0x03 },
                { "aes256-cfb-one", (void *) m->aes256_cfb_one, 5, { A(out), A(buf), A(iv), A(kbuf), 16 }, 0x0F },
                { "crc32-sctp", (void *) m->crc32_sctp, 2, { A(buf), 32 }, 0x01 },
                { "crc24-lte-a", (void *) m->crc24_lte_a, 2, { A(buf), 32 }, 0x01 },
                { "crc7-fp-header", (void *) m->crc7_fp_header, 2, { A(buf), 32 }, 0x01 },
                { "chacha20-poly1305-enc-update", (void *) m->chacha20_poly1305_enc_update, 5, { A(KEY[0]), A(kbuf), A(out), A(buf), 32 }, 0x0F },
                { "chacha20-poly1305-finalize", (void *) m->chacha20_poly1305_finalize, 3, { A(kbuf), A(tag), 16 }, 0x03 },
                { "quic-aes-gcm", (void *) imb_quic_aes_gcm, 13, { A(m), A(&gk), 16, IMB_DIR_ENCRYPT, A(P4D), A(P4S), A(L4Q), A(P4I), A(P4S), 8, A(P4T), 16, 4 }, 0x5F2, 0x5B0 },
                { "quic-hp-aes-ecb", (void *) imb_quic_hp_aes_ecb, 6, { A(m), A(kbuf), A(P4D), A(P4S), 4, 16 }, 0x0E, 0x0C },
                { "quic-chacha20-poly1305", (void *) imb_quic_chacha20_poly1305, 11, { A(m), A(KEY[0]), IMB_DIR_ENCRYPT, A(P4D), A(P4S), A(L4Q), A(P4I), A(P4S), 8, A(P4T), 4 }, 0x2FA, 0x2D8 },
                { "quic-hp-chacha20", (void *) imb_quic_hp_chacha20, 5, { A(m), A(KEY[0]), A(P4D), A(P4S), 4 }, 0x0E, 0x0C },
        };
        for (unsigned t = 0; t < sizeof T / sizeof T[0]; t++)
                for (int a = 0; a < T[t].na; a++) {
                        if (!(T[t].ptrmask >> a & 1))
                                continue;
                        uint64_t args[14];
                        memcpy(args, T[t].a, sizeof args);
                        args[a] = 0;
                        /* a valid call first so that the global error code is known to be 0 */
                        imb_set_session(m, NULL); /* sets an error ... */
                        IMB_JOB *j = IMB_GET_NEXT_JOB(m);
                        (void) j; /* ... and get_next_job resets the manager's code */
                        n_eval++;
                        GUARDED(T[t].n, tcalln(T[t].n, T[t].fn, T[t].na, args));
                        if (imb_get_errno(m) == 0)
                                viol(T[t].n, "null-arg-no-error", "direct call with a NULL pointer argument returned without setting an error code (x = argument index)", a, 0);
                        if (!(T[t].arrmask >> a & 1))
                                continue;
                        /* the array itself is fine but one of its elements is NULL */
                        void *copy[8];
                        memcpy(copy, (void *) (uintptr_t) T[t].a[a], sizeof copy);
                        copy[2] = NULL;
                        memcpy(args, T[t].a, sizeof args);
                        args[a] = A(copy);
                        imb_set_session(m, NULL);
                        j = IMB_GET_NEXT_JOB(m);
                        n_eval++;
                        GUARDED(T[t].n, tcalln(T[t].n, T[t].fn, T[t].na, args));
                        if (imb_get_errno(m) == 0)
                                viol(T[t].n, "null-element-no-error", "direct call with a NULL element in a pointer array returned without setting an error code (x = argument index)", a, 0);
                }
        /* zero and over-limit lengths of the functions that document a limit (ZUC 65504 bits, KASUMI 20000 bits, SNOW3G non-zero):
         * error code, no fault, destination untouched. Buffers are large enough for the over-limit length so that a missing
         * check shows as "no error" / "destination written" rather than as a stray fault. */
        static uint8_t big_in[16384], big_out[16384];
        static const void *PB[8];
        static void *PO[8];
        for (int i = 0; i < 8; i++) {
                PB[i] = big_in;
                PO[i] = big_out;
        }
        struct {
                const char *n;
                void *fn;
                int na;
                uint64_t a[10];
                int lenarg, is_array;
                uint64_t over; /* 0: only the zero length is invalid */
        } LT[] = {
                { "zuc-eea3-1-buffer", (void *) m->eea3_1_buffer, 5, { A(KEY[0]), A(iv), A(big_in), A(big_out), 32 }, 4, 0, 8189 },
                { "zuc-eia3-1-buffer", (void *) m->eia3_1_buffer, 5, { A(KEY[0]), A(iv), A(big_in), 100, A(big_out) }, 3, 0, 65505 },
                { "zuc-eea3-4-buffer", (void *) m->eea3_4_buffer, 5, { A(P4K), A(P4I), A(PB), A(PO), A(L4) }, 4, 1, 8189 },
                { "zuc-eea3-n-buffer", (void *) m->eea3_n_buffer, 6, { A(P4K), A(P4I), A(PB), A(PO), A(L4), 4 }, 4, 1, 8189 },
                { "zuc-eia3-n-buffer", (void *) m->eia3_n_buffer, 6, { A(P4K), A(P4I), A(PB), A(L4), A(PO), 4 }, 3, 1, 65505 },
                { "snow3g-f8-1-buffer", (void *) m->snow3g_f8_1_buffer, 5, { A(&sk), A(iv), A(big_in), A(big_out), 32 }, 4, 0, 0 },
                { "snow3g-f8-1-buffer-bit", (void *) m->snow3g_f8_1_buffer_bit, 6, { A(&sk), A(iv), A(big_in), A(big_out), 100, 3 }, 4, 0, 0 },
                { "snow3g-f8-n-buffer", (void *) m->snow3g_f8_n_buffer, 6, { A(&sk), A(P4I), A(PB), A(PO), A(L4), 4 }, 4, 1, 0 },
                { "snow3g-f9-1-buffer", (void *) m->snow3g_f9_1_buffer, 5, { A(&sk), A(iv), A(big_in), 100, A(big_out) }, 3, 0, 0 },
                { "kasumi-f8-1-buffer", (void *) m->f8_1_buffer, 5, { A(&kk), ivv, A(big_in), A(big_out), 32 }, 4, 0, 2501 },
                { "kasumi-f8-1-buffer-bit", (void *) m->f8_1_buffer_bit, 6, { A(&kk), ivv, A(big_in), A(big_out), 100, 0 }, 4, 0, 20001 },
                { "kasumi-f8-2-buffer", (void *) m->f8_2_buffer, 9, { A(&kk), ivv, ivv, A(big_in), A(big_out), 32, A(big_in), A(big_out + 8192), 32 }, 5, 0, 2501 },
                { "kasumi-f8-n-buffer", (void *) m->f8_n_buffer, 6, { A(&kk), A(IV4), A(PB), A(PO), A(L4), 4 }, 4, 1, 2501 },
                { "kasumi-f9-1-buffer", (void *) m->f9_1_buffer, 4, { A(&kk), A(big_in), 32, A(big_out) }, 2, 0, 2501 },
                { "kasumi-f9-1-buffer-user", (void *) m->f9_1_buffer_user, 6, { A(&kk), ivv, A(big_in), 100, A(big_out), 1 }, 3, 0, 20001 },
        };
        for (unsigned t = 0; t < sizeof LT / sizeof LT[0]; t++)
                for (int w = 0; w < 2; w++) {
                        uint64_t bad = w ? LT[t].over : 0;
                        if (w && !LT[t].over)
                                continue;
                        uint64_t args[10];
                        uint32_t lcopy[8];
                        memcpy(args, LT[t].a, sizeof args);
                        if (LT[t].is_array) {
                                for (int i = 0; i < 8; i++)
                                        lcopy[i] = 32;
                                lcopy[1] = (uint32_t) bad;
                                args[LT[t].lenarg] = A(lcopy);
                        } else
                                args[LT[t].lenarg] = bad;
                        memset(big_out, 0x6B, sizeof big_out);
                        imb_set_session(m, NULL);
                        IMB_JOB *j = IMB_GET_NEXT_JOB(m);
                        (void) j;
                        n_eval++;
                        GUARDED(LT[t].n, tcalln(LT[t].n, LT[t].fn, LT[t].na, args));
                        if (imb_get_errno(m) == 0)
                                viol(LT[t].n, "null-len-no-error", "direct call with a zero / over-limit length returned without setting an error code (x = 0 zero, 1 over the limit)", w, 0);
                        for (size_t i = 0; i < sizeof big_out; i++)
                                if (big_out[i] != 0x6B) {
                                        viol(LT[t].n, "null-len-output-written", "direct call with a zero / over-limit length wrote to its output (x = 0 zero, 1 over the limit)", w, (long) i);
                                        break;
                                }
                }
}

static void
run_variant(long v, void *arg)
{
        (void) arg;
        g_v = (int) v;
        if (!variant_usable(g_v))
                return;
        m = mgr_new(g_v);
        g_tcall_ctx = VARIANTS[g_v].name;
        for (int i = 0; i < NB; i++)
                fill_rand(KEY[i], 64, 880 + (uint64_t) i);
        int part = (int) (long) arg;
        (void) part;
        for (g_place = 0; g_place < 2; g_place++) {
                t_zuc();
                t_snow3g();
                t_kasumi();
                t_hash_crc();
                t_gcm_cfb_quic();
                t_bit_level();
                t_pairs();
                t_misc();
                t_null_zero();
        }
        g_place = 0;
        t_null_args();
        stat_add("evaluations", n_eval);
        stat_add("distinct_nontrivial", n_eval);
        stat_add("variants_run", 1);
        n_eval = 0;
        free_mb_mgr(m);
}
static void
crashed(long v, int sig, void *arg)
{
        (void) arg;
        rec_begin("viol");
        rec_s("site", sig == 14 ? "hang" : "crash");
        rec_i("signal", sig);
        rec_s("alg", "direct-api");
        rec_s("api", "direct");
        rec_s("variant", VARIANTS[v].name);
        rec_end();
}

int
main(int argc, char **argv)
{
        g_prop = argc > 1 ? argv[1] : "C09";
        rec_init(g_prop, getenv("VERIF_TIER") ? getenv("VERIF_TIER") : "quick");
        for (int i = 0; i < NB; i++) {
                RIN[i] = region_new(3);
                ROUT[i] = region_new(3);
                RIV[i] = region_new(1);
                RTAG[i] = region_new(1);
        }
        RAAD = region_new(1);
        HI_N = tier_thorough() ? 2100 : 300;
        HI_1 = tier_thorough() ? 1100 : 300;
        struct sigaction sa;
        memset(&sa, 0, sizeof sa);
        sa.sa_sigaction = on_segv;
        sa.sa_flags = SA_SIGINFO | SA_NODEFER;
        sigaction(SIGSEGV, &sa, NULL);
        sigaction(SIGBUS, &sa, NULL);
        par_run(NVARIANTS, n_workers(), run_variant, crashed, NULL, 1800);
        rec_begin("sample");
        rec_s("function", "IMB_SNOW3G_F8_N_BUFFER");
        rec_s("case", "n=9 buffers, unsorted lengths, distinct IVs, every buffer end-flush against an unmapped page, vs the UEA2 reference per buffer");
        rec_end();
        rec_begin("meta");
        rec_s("rule", "case = (direct function, variant, n, length profile / length); result compared with the reference; all calls "
                      "through the register-checking trampoline with guard-page placed buffers; NULL-argument injection per pointer argument");
        rec_end();
        stats_emit();
        return 0;
}
