/* C12 - invalid jobs are rejected untouched with the right error; valid ones accepted (M-fault, DESIGN.md 4/C12).
 * For every algorithm row (both directions) a valid baseline job is mutated by every single-field violation of
 * the constraint catalogue (and every pair of violations from different fields); the mutated job is submitted
 * through the job API and, embedded at the first / middle / last position of a 3-job burst, through the
 * asynchronous burst API, on every variant. Oracle: INVALID_ARGS status, manager error code in the set naming the
 * violated constraint, every caller buffer and the descriptor byte-identical, the rejected job handed back in
 * order, and the valid baseline job submitted afterwards gives its known result. Boundary values that ARE valid
 * (min, max, every permitted IV / tag length) must be accepted and processed correctly.              */
#include "algs.h"
#include "ref_modes.h"

#define MAXB 70000
typedef struct {
        uint8_t *src, *dst, *tag, *iv, *aad, *niv;
        uint8_t *s_src, *s_dst; /* snapshots */
        uint8_t s_tag[96], s_iv[64], s_aad[64], s_niv[32];
} bufs_t;
static bufs_t B[3];
static IMB_MGR *m;
static keyset_t *KS;
static int g_v, g_a, g_dir;
static uint32_t base_len;

enum { E_NONE = 0 };
typedef struct {
        const char *name;
        int (*apply)(IMB_JOB *j, item_t *it, int variant); /* returns 0 if not applicable, 1 applied; `variant` selects a value */
        int nvariants;
        int errs[4]; /* acceptable error codes */
        int field;   /* mutations on the same field are never paired */
} mut_t;

static const alg_t *A;
static int is_cipher(void) { return A->kind != AK_HASH; }
static int is_hash(void) { return A->kind != AK_CIPHER; }

static int
m_src_null(IMB_JOB *j, item_t *it, int v)
{
        (void) it;
        (void) v;
        if (A->family == F_NULLC)
                return 0;
        j->src = NULL;
        return 1;
}
static int
m_dst_null(IMB_JOB *j, item_t *it, int v)
{
        (void) it;
        (void) v;
        if (!is_cipher() || A->family == F_NULLC)
                return 0;
        j->dst = NULL;
        return 1;
}
static int
m_iv_null(IMB_JOB *j, item_t *it, int v)
{
        (void) v;
        if (!item_ivlen(it))
                return 0;
        if (A->family == F_ZUCEIA) {
                j->u.ZUC_EIA3._iv = NULL;
                j->u.ZUC_EIA3._iv23 = NULL;
        } else if (A->family == F_S3UIA)
                j->u.SNOW3G_UIA2._iv = NULL;
        else if (A->family == F_GMAC)
                j->u.GMAC._iv = NULL;
        else if (A->family == F_PON)
                return 0; /* IV may be NULL for the no-CTR form */
        else
                j->iv = NULL;
        return 1;
}
static int
m_key_null(IMB_JOB *j, item_t *it, int v)
{
        (void) it;
        (void) v;
        if (!is_cipher() || A->family == F_NULLC || A->family == F_PON)
                return 0;
        j->enc_keys = NULL;
        j->dec_keys = NULL;
        return 1;
}
static int
m_tag_null(IMB_JOB *j, item_t *it, int v)
{
        (void) it;
        (void) v;
        if (!is_hash())
                return 0;
        j->auth_tag_output = NULL;
        return 1;
}
static int
m_len_zero(IMB_JOB *j, item_t *it, int v)
{
        (void) it;
        (void) v;
        if (A->minlen == 0 || A->family == F_DOCSISCRC || A->family == F_PON)
                return 0;
        if (is_cipher())
                j->msg_len_to_cipher_in_bytes = 0;
        else
                j->msg_len_to_hash_in_bytes = 0;
        return 1;
}
static int
m_len_over(IMB_JOB *j, item_t *it, int v)
{
        (void) it;
        /* only limits the documentation names: the 16-bit multi-buffer limit, ZUC, KASUMI, PON */
        uint64_t over;
        if (A->maxlen == 65534u || A->maxlen == 65534u * 8 || A->maxlen == 65520 || A->maxlen == 65528)
                over = (A->bitlen ? 65534u * 8 : 65534u) + (v ? A->gran * 4 : A->gran);
        else if (A->family == F_ZUC || A->family == F_ZUCEIA || A->family == F_KASUMI || A->family == F_KF9)
                over = A->maxlen + (v ? 100 : 1);
        else
                return 0;
        if (A->maxlen == 65520 || A->maxlen == 65528)
                over = A->maxlen + A->gran * (v ? 3u : 1u) + (A->gran == 16 ? 0 : 0);
        if (A->family == F_CBCS)
                return 0; /* CBCS is documented without the 16-bit limit */
        if (A->family == F_AES && (A->cm == IMB_CIPHER_CBC || A->cm == IMB_CIPHER_CFB) && g_dir == 0)
                return 0; /* limit applies to the multi-buffer encrypt direction only */
        if (is_cipher())
                j->msg_len_to_cipher_in_bytes = over;
        else
                j->msg_len_to_hash_in_bytes = over;
        return 1;
}
static int
m_len_misaligned(IMB_JOB *j, item_t *it, int v)
{
        (void) it;
        if (A->gran <= 1 || A->family == F_PON)
                return 0;
        j->msg_len_to_cipher_in_bytes += (v ? A->gran - 1 : 1);
        return 1;
}
static int
m_ivlen_bad(IMB_JOB *j, item_t *it, int v)
{
        int ivl = item_ivlen(it);
        if (!ivl || A->family == F_GCM || A->family == F_GMAC || A->family == F_PON || A->family == F_ZUCEIA || A->family == F_S3UIA)
                return v == 0 && (A->family == F_GCM) ? (j->iv_len_in_bytes = 0, 1) : 0;
        static const int delta[4] = { 1, -1, 0, 100 };
        int n = delta[v] == 0 ? 0 : ivl + delta[v];
        for (int q = 0; q < 3 && A->ivlens[q]; q++)
                if (A->ivlens[q] == n)
                        return 0;
        if (A->family == F_CCM && n >= 7 && n <= 13)
                return 0;
        j->iv_len_in_bytes = (uint64_t) n;
        return 1;
}
static int
m_taglen_bad(IMB_JOB *j, item_t *it, int v)
{
        if (!is_hash())
                return 0;
        int tl = item_taglen(it);
        static const int cand[4] = { 0, 1, 17, 65 };
        int n = v < 3 ? cand[v] : tl + 1;
        if (v == 1)
                n = tl - 1;
        if (v == 2)
                n = tl + 1;
        if (v == 3)
                n = 200;
        if (n < 0)
                return 0;
        for (int q = 0; q < 4 && A->taglens[q]; q++)
                if (A->taglens[q] == n)
                        return 0;
        if (A->tag_any_hi && n >= A->tag_any_lo && n <= A->tag_any_hi && (n - A->tag_any_lo) % A->tag_step == 0)
                return 0;
        j->auth_tag_output_len_in_bytes = (uint64_t) n;
        return 1;
}
static int
m_keylen_bad(IMB_JOB *j, item_t *it, int v)
{
        (void) it;
        if (!is_cipher() || A->family == F_NULLC || A->family == F_PON)
                return 0;
        static const int cand[4] = { 0, 7, 20, 33 };
        j->key_len_in_bytes = (uint64_t) cand[v];
        return 1;
}
static int
m_dir_bad(IMB_JOB *j, item_t *it, int v)
{
        (void) it;
        if (!is_cipher() || A->family == F_NULLC)
                return 0;
        j->cipher_direction = (IMB_CIPHER_DIRECTION) (v ? 3 : 0);
        return 1;
}
static int
m_order_bad(IMB_JOB *j, item_t *it, int v)
{
        (void) it;
        (void) v;
        /* the only documented chain-order constraint: DOCSIS BPI + CRC32 (hash first on encrypt, cipher first on decrypt) */
        if (A->family != F_DOCSISCRC)
                return 0;
        j->chain_order = j->chain_order == IMB_ORDER_CIPHER_HASH ? IMB_ORDER_HASH_CIPHER : IMB_ORDER_CIPHER_HASH;
        return 1;
}
static int
m_cipher_bad(IMB_JOB *j, item_t *it, int v)
{
        (void) it;
        static const int cand[3] = { 0, IMB_CIPHER_NUM, IMB_CIPHER_NUM + 7 };
        j->cipher_mode = (IMB_CIPHER_MODE) cand[v];
        return 1;
}
static int
m_hash_bad(IMB_JOB *j, item_t *it, int v)
{
        (void) it;
        static const int cand[3] = { 0, IMB_AUTH_NUM, IMB_AUTH_NUM + 9 };
        j->hash_alg = (IMB_HASH_ALG) cand[v];
        return 1;
}
static int
m_hashkey_null(IMB_JOB *j, item_t *it, int v)
{
        (void) it;
        switch (A->family) {
        case F_HMAC:
                if (v > 1)
                        return 0;
                if (v == 0)
                        j->u.HMAC._hashed_auth_key_xor_ipad = NULL;
                else
                        j->u.HMAC._hashed_auth_key_xor_opad = NULL;
                return 1;
        case F_XCBC:
                if (v > 2)
                        return 0;
                if (v == 0)
                        j->u.XCBC._k1_expanded = NULL;
                else if (v == 1)
                        j->u.XCBC._k2 = NULL;
                else
                        j->u.XCBC._k3 = NULL;
                return 1;
        case F_CMAC:
                if (v > 2)
                        return 0;
                if (v == 0)
                        j->u.CMAC._key_expanded = NULL;
                else if (v == 1)
                        j->u.CMAC._skey1 = NULL;
                else
                        j->u.CMAC._skey2 = NULL;
                return 1;
        case F_GMAC:
                if (v)
                        return 0;
                j->u.GMAC._key = NULL;
                return 1;
        case F_GHASH:
                if (v > 1)
                        return 0;
                if (v == 0)
                        j->u.GHASH._key = NULL;
                else
                        j->u.GHASH._init_tag = NULL;
                return 1;
        case F_POLY:
                if (v)
                        return 0;
                j->u.POLY1305._key = NULL;
                return 1;
        case F_ZUCEIA:
                if (v)
                        return 0;
                j->u.ZUC_EIA3._key = NULL;
                return 1;
        case F_S3UIA:
                if (v)
                        return 0;
                j->u.SNOW3G_UIA2._key = NULL;
                return 1;
        case F_KF9:
                if (v)
                        return 0;
                j->u.KASUMI_UIA1._key = NULL;
                return 1;
        default:
                return 0;
        }
}
static int
m_aad_null(IMB_JOB *j, item_t *it, int v)
{
        (void) v;
        if (A->kind != AK_AEAD || A->family == F_DOCSISCRC || A->family == F_PON || !it->aadlen)
                return 0;
        j->u.GCM.aad = NULL; /* aad pointer is the first member of every AEAD member of the union */
        return 1;
}
static int
m_aadlen_over(IMB_JOB *j, item_t *it, int v)
{
        (void) it;
        if (A->family != F_CCM)
                return 0;
        j->u.CCM.aad_len_in_bytes = v ? 1000 : 47;
        return 1;
}
static int
m_nextiv_null(IMB_JOB *j, item_t *it, int v)
{
        (void) it;
        (void) v;
        if (A->family != F_CBCS)
                return 0;
        j->cipher_fields.CBCS.next_iv = NULL;
        return 1;
}

/* PON: payload length indicator of the XGEM header larger than the payload the job describes (CTR and no-CTR form) */
static int
m_pon_pli(IMB_JOB *j, item_t *it, int v)
{
        if (A->family != F_PON)
                return 0;
        uint8_t *s = (uint8_t *) (uintptr_t) it->src;
        uint32_t payload = it->len - 8, pli = (v & 1) ? payload + 1 : payload + 600;
        if (pli <= 4)
                pli = 5;
        if (v >= 2) { /* no-CTR form: only CRC and BIP */
                j->enc_keys = NULL;
                j->dec_keys = NULL;
                j->key_len_in_bytes = 0;
                j->iv = NULL;
                j->iv_len_in_bytes = 0;
                j->msg_len_to_cipher_in_bytes = 0;
        }
        s[0] = (uint8_t) (pli >> 6);
        s[1] = (uint8_t) ((pli << 2) | (s[1] & 3));
        return 1;
}

static const mut_t MUTS[] = {
        { "src-null", m_src_null, 1, { IMB_ERR_JOB_NULL_SRC }, 1 },
        { "dst-null", m_dst_null, 1, { IMB_ERR_JOB_NULL_DST }, 2 },
        { "iv-null", m_iv_null, 1, { IMB_ERR_JOB_NULL_IV }, 3 },
        { "key-null", m_key_null, 1, { IMB_ERR_JOB_NULL_KEY }, 4 },
        { "tag-null", m_tag_null, 1, { IMB_ERR_JOB_NULL_AUTH }, 5 },
        { "len-zero", m_len_zero, 1, { IMB_ERR_JOB_CIPH_LEN, IMB_ERR_JOB_AUTH_LEN }, 6 },
        { "len-over-limit", m_len_over, 2, { IMB_ERR_JOB_CIPH_LEN, IMB_ERR_JOB_AUTH_LEN }, 6 },
        { "len-misaligned", m_len_misaligned, 2, { IMB_ERR_JOB_CIPH_LEN }, 6 },
        { "iv-len-bad", m_ivlen_bad, 4, { IMB_ERR_JOB_IV_LEN }, 7 },
        { "tag-len-bad", m_taglen_bad, 4, { IMB_ERR_JOB_AUTH_TAG_LEN }, 8 },
        { "key-len-bad", m_keylen_bad, 4, { IMB_ERR_JOB_KEY_LEN }, 9 },
        { "direction-bad", m_dir_bad, 2, { IMB_ERR_JOB_CIPH_DIR }, 10 },
        { "chain-order-bad", m_order_bad, 1, { IMB_ERR_JOB_CHAIN_ORDER }, 11 },
        { "cipher-mode-bad", m_cipher_bad, 3, { IMB_ERR_CIPH_MODE }, 12 },
        { "hash-alg-bad", m_hash_bad, 3, { IMB_ERR_HASH_ALGO }, 13 },
        { "hash-key-null", m_hashkey_null, 3,
          { IMB_ERR_JOB_NULL_AUTH_KEY, IMB_ERR_JOB_NULL_KEY, 0, 0 }, 14 },
        { "aad-null", m_aad_null, 1, { IMB_ERR_JOB_NULL_AAD }, 15 },
        { "aad-len-over", m_aadlen_over, 2, { IMB_ERR_JOB_AAD_LEN }, 16 },
        { "next-iv-null", m_nextiv_null, 1, { IMB_ERR_JOB_NULL_NEXT_IV }, 17 },
        { "pon-pli-over-payload", m_pon_pli, 4, { IMB_ERR_JOB_PON_PLI }, 18 },
};
#define NMUT ((int) (sizeof MUTS / sizeof MUTS[0]))
/* codes with dedicated names for the hash-key pointers */
static int
hashkey_err_ok(int e)
{
        return e == IMB_ERR_JOB_NULL_AUTH_KEY || e == IMB_ERR_JOB_NULL_KEY || e == IMB_ERR_JOB_NULL_HMAC_IPAD ||
               e == IMB_ERR_JOB_NULL_HMAC_OPAD || e == IMB_ERR_JOB_NULL_XCBC_K1_EXP || e == IMB_ERR_JOB_NULL_XCBC_K2 ||
               e == IMB_ERR_JOB_NULL_XCBC_K3 || e == IMB_ERR_JOB_NULL_GHASH_INIT_TAG;
}

static void
mkitem(item_t *it, int k, uint32_t len)
{
        memset(it, 0, sizeof *it);
        it->alg = g_a;
        it->dir = g_dir;
        it->len = len;
        it->ks = KS;
        it->src = B[k].src;
        it->dst = A->inplace_only ? B[k].src : B[k].dst;
        if (A->kind == AK_HASH)
                it->dst = NULL;
        it->iv = B[k].iv;
        it->aad = B[k].aad;
        it->aadlen = A->kind == AK_AEAD ? 13 : 0;
        it->tag = B[k].tag + 16;
        it->next_iv = B[k].niv;
        if (A->family == F_DOCSISCRC) {
                it->hash_len = len + 8;
                it->cipher_off = 12;
        }
}
static void
fill_bufs(int k, uint32_t nbytes)
{
        fill_rand(B[k].src, nbytes + 64, 5000 + (uint64_t) k);
        if (A->family == F_PON) {
                uint32_t pli = nbytes > 8 ? nbytes - 8 : 0;
                B[k].src[0] = (uint8_t) (pli >> 6);
                B[k].src[1] = (uint8_t) (pli << 2);
        }
        memset(B[k].dst, 0x3C, nbytes + 64);
        memset(B[k].tag, 0x3C, 96);
        fill_rand(B[k].iv, 64, 5100 + (uint64_t) k);
        for (int q = 17; q < 25; q++)
                B[k].iv[q] &= 0x3f;
        fill_rand(B[k].aad, 64, 5200 + (uint64_t) k);
        memset(B[k].niv, 0x3C, 32);
}
static void
snap(int k, uint32_t nbytes)
{
        memcpy(B[k].s_src, B[k].src, nbytes + 64);
        memcpy(B[k].s_dst, B[k].dst, nbytes + 64);
        memcpy(B[k].s_tag, B[k].tag, 96);
        memcpy(B[k].s_iv, B[k].iv, 64);
        memcpy(B[k].s_aad, B[k].aad, 64);
        memcpy(B[k].s_niv, B[k].niv, 32);
}
static int
unchanged(int k, uint32_t nbytes)
{
        return !memcmp(B[k].s_src, B[k].src, nbytes + 64) && !memcmp(B[k].s_dst, B[k].dst, nbytes + 64) &&
               !memcmp(B[k].s_tag, B[k].tag, 96) && !memcmp(B[k].s_iv, B[k].iv, 64) && !memcmp(B[k].s_aad, B[k].aad, 64) &&
               !memcmp(B[k].s_niv, B[k].niv, 32);
}

static void
viol(const char *site, const char *mut, const char *api, const char *detail, long x)
{
        char sig[220];
        snprintf(sig, sizeof sig, "C12|%s|%s|%s|%s|%s|%d", site, mut, A->name, VARIANTS[g_v].name, api, g_dir);
        if (!rec_sig_ok(sig, 2))
                return;
        rec_begin("viol");
        rec_s("site", site);
        rec_s("mutation", mut);
        rec_s("detail", detail);
        rec_s("alg", A->name);
        rec_s("variant", VARIANTS[g_v].name);
        rec_s("api", api);
        rec_i("dir", g_dir);
        rec_i("len", base_len);
        rec_i("x", x);
        rec_end();
}

static uint8_t *exp_src, *exp_dst;
static uint8_t exp_tag[96];
static long long n_inj, n_valid_ok;
/* run the valid baseline (buffers set 0) and compare with the recorded expectation */
static void
baseline_after(const char *mutname, const char *api)
{
        uint32_t nb = A->bitlen ? (base_len + 7) / 8 : base_len;
        if (A->family == F_DOCSISCRC)
                nb = base_len + 12;
        fill_bufs(0, nb);
        item_t it;
        mkitem(&it, 0, base_len);
        IMB_JOB *j = X_GET_NEXT(m);
        alg_fill(m, j, &it);
        IMB_JOB *r = X_SUBMIT(m);
        if (!r)
                r = X_FLUSH(m);
        if (!r || r->status != IMB_STATUS_COMPLETED || memcmp(B[0].src, exp_src, nb + 64) || memcmp(B[0].dst, exp_dst, nb + 64) ||
            memcmp(B[0].tag, exp_tag, 96))
                viol("later-valid-job-affected", mutname, api, "valid job submitted after the rejected one failed or gave another result",
                     r ? r->status : -1);
        else
                n_valid_ok++;
}

static int
err_ok(const mut_t *mu, int e)
{
        if (mu->apply == m_hashkey_null)
                return hashkey_err_ok(e);
        for (int q = 0; q < 4; q++)
                if (mu->errs[q] && mu->errs[q] == e)
                        return 1;
        return 0;
}

static void
inject(const mut_t *m1, int v1, const mut_t *m2, int v2)
{
        uint32_t nb = A->bitlen ? (base_len + 7) / 8 : base_len;
        if (A->family == F_DOCSISCRC)
                nb = base_len + 12;
        char mname[96];
        snprintf(mname, sizeof mname, "%s#%d%s%s", m1->name, v1, m2 ? "+" : "", m2 ? m2->name : "");
        /* ---- job API ---- */
        fill_bufs(1, nb);
        item_t it;
        mkitem(&it, 1, base_len);
        IMB_JOB *j = X_GET_NEXT(m);
        alg_fill(m, j, &it);
        if (!m1->apply(j, &it, v1))
                return;
        if (m2 && !m2->apply(j, &it, v2))
                return;
        n_inj++;
        j->user_data = (void *) 0x1234;
        IMB_JOB desc = *j;
        snap(1, nb);
        IMB_JOB *r = X_SUBMIT(m);
        int e = imb_get_errno(m);
        if (!r)
                r = X_FLUSH(m);
        if (!r || r->user_data != (void *) 0x1234)
                viol("rejected-job-not-returned", mname, "job", "invalid job was not handed back", 0);
        else if (r->status != IMB_STATUS_INVALID_ARGS)
                viol("invalid-job-accepted", mname, "job", "job violating a documented constraint was not rejected (x = status)", r->status);
        else {
                if (!(err_ok(m1, e) || (m2 && err_ok(m2, e))))
                        viol("wrong-error-code", mname, "job", "manager error code does not name the violated constraint (x = code)", e);
                desc.status = r->status;
                if (memcmp(&desc, r, sizeof desc))
                        viol("rejected-descriptor-modified", mname, "job", "descriptor of the rejected job was modified", 0);
        }
        if (!unchanged(1, nb))
                viol("rejected-job-touched-buffer", mname, "job", "a caller buffer of the rejected job was modified", 0);
        while (X_FLUSH(m))
                ;
        baseline_after(mname, "job");
        if (m2)
                return;
        /* ---- burst API: invalid job at position p of a 3-job burst ---- */
        for (int p = 0; p < 3; p++) {
                IMB_JOB *jobs[4];
                if (X_GET_NEXT_BURST(m, 3, jobs) != 3) {
                        viol("burst-no-slots", mname, "burst", "get_next_burst(3) on an empty manager", 0);
                        return;
                }
                for (int k = 0; k < 3; k++) {
                        fill_bufs(k, nb);
                        item_t bi;
                        mkitem(&bi, k, base_len);
                        alg_fill(m, jobs[k], &bi);
                        imb_set_session(m, jobs[k]);
                        if (k == p) {
                                item_t tmp = bi;
                                m1->apply(jobs[k], &tmp, v1);
                        }
                        snap(k, nb);
                }
                IMB_JOB *bad = jobs[p];
                uint32_t n = X_SUBMIT_BURST(m, 3, jobs);
                e = imb_get_errno(m);
                if (n != 0 || e == 0)
                        viol("burst-with-invalid-job-accepted", mname, "burst", "burst containing an invalid job was not refused (x = position)", p);
                else {
                        if (jobs[0] != bad || bad->status != IMB_STATUS_INVALID_ARGS)
                                viol("burst-invalid-job-not-reported", mname, "burst", "invalid job not reported in jobs[0] with INVALID_ARGS", p);
                        /* suite-id mismatch is a legitimate first complaint for session-field mutations */
                        if (!err_ok(m1, e) && e != IMB_ERR_BURST_SUITE_ID)
                                viol("wrong-error-code", mname, "burst", "manager error code does not name the violated constraint (x = code)", e);
                }
                for (int k = 0; k < 3; k++)
                        if (!unchanged(k, nb))
                                viol("burst-touched-buffer", mname, "burst", "a buffer of a refused burst was modified (x = job index)", k);
                if (X_QUEUE_SIZE(m) != 0)
                        viol("burst-partially-submitted", mname, "burst", "jobs of a refused burst were queued", X_QUEUE_SIZE(m));
                while (X_FLUSH(m))
                        ;
        }
        baseline_after(mname, "burst");
        /* ---- synchronous bursts: invalid job at position p of a 3-job burst (algorithm, direction and key size are call arguments
         * there, so mutations of those descriptor fields do not make the job invalid for this entry point) ---- */
        int sk = 0;
        if (A->kind == AK_CIPHER && A->family == F_AES && (A->cm == IMB_CIPHER_CBC || A->cm == IMB_CIPHER_CNTR || A->cm == IMB_CIPHER_ECB || A->cm == IMB_CIPHER_CFB))
                sk = 1;
        if (A->kind == AK_HASH && ((A->family == F_HMAC && A->sub <= REF_SHA512) || A->family == F_SHA || A->family == F_CMAC))
                sk = 2;
        if (A->family == F_CCM)
                sk = 3;
        if (!sk || (m1->field >= 9 && m1->field <= 13))
                return;
        const char *an = sk == 1 ? "cipher-burst" : sk == 2 ? "hash-burst" : "aead-burst";
        for (int p = 0; p < 3; p++) {
                static IMB_JOB SJ[3];
                int applied = 1;
                for (int k = 0; k < 3; k++) {
                        fill_bufs(k, nb);
                        item_t bi;
                        mkitem(&bi, k, base_len);
                        alg_fill(m, &SJ[k], &bi);
                        if (k == p) {
                                item_t tmp = bi;
                                applied = m1->apply(&SJ[k], &tmp, v1);
                        }
                        snap(k, nb);
                }
                if (!applied)
                        return;
                n_inj++;
                IMB_CIPHER_DIRECTION d = g_dir ? IMB_DIR_ENCRYPT : IMB_DIR_DECRYPT;
                uint32_t n = sk == 1   ? IMB_SUBMIT_CIPHER_BURST(m, SJ, 3, (IMB_CIPHER_MODE) A->cm, d, (IMB_KEY_SIZE_BYTES) A->klen)
                             : sk == 2 ? IMB_SUBMIT_HASH_BURST(m, SJ, 3, (IMB_HASH_ALG) A->ha)
                                       : IMB_SUBMIT_AEAD_BURST(m, SJ, 3, (IMB_CIPHER_MODE) A->cm, d, (IMB_KEY_SIZE_BYTES) A->klen);
                e = imb_get_errno(m);
                if (n == 3 || e == 0)
                        viol("burst-with-invalid-job-accepted", mname, an, "synchronous burst containing an invalid job was not refused (x = position)", p);
                else {
                        if (SJ[p].status != IMB_STATUS_INVALID_ARGS)
                                viol("burst-invalid-job-not-reported", mname, an, "invalid job of a synchronous burst not marked INVALID_ARGS (x = position)", p);
                        if (!err_ok(m1, e))
                                viol("wrong-error-code", mname, an, "manager error code does not name the violated constraint (x = code)", e);
                }
                for (int k = 0; k < 3; k++)
                        if (!unchanged(k, nb))
                                viol("burst-touched-buffer", mname, an, "a buffer of a refused synchronous burst was modified (x = job index)", k);
                while (X_FLUSH(m))
                        ;
        }
        baseline_after(mname, an);
}

/* values that are valid must be accepted and processed correctly */
static void
valid_boundaries(void)
{
        uint32_t lens[6], nl = 0;
        lens[nl++] = A->minlen ? A->minlen : (alg_len_ok(g_a, 0) ? 0 : A->gran);
        lens[nl++] = lens[0] + A->gran;
        if (A->maxlen <= 65534u * 8 && (A->bitlen ? A->maxlen / 8 : A->maxlen) + 64 < MAXB) {
                lens[nl++] = A->maxlen;
                lens[nl++] = A->maxlen - A->gran;
        }
        for (uint32_t q = 0; q < nl; q++) {
                if (!alg_len_ok(g_a, lens[q]))
                        continue;
                if (A->family == F_DOCSISCRC)
                        continue; /* geometry-constrained: covered by the C03 sweep */
                uint32_t len = lens[q];
                uint32_t nb = A->bitlen ? (len + 7) / 8 : len;
                if (A->family == F_DOCSISCRC)
                        nb = len + 12;
                for (int ivq = 0; ivq < 3 && (ivq == 0 || A->ivlens[ivq]); ivq++) {
                        fill_bufs(1, nb);
                        item_t it;
                        mkitem(&it, 1, len);
                        it.ivlen = ivq ? A->ivlens[ivq] : 0;
                        static uint8_t *ed, et[96], en[16];
                        if (!ed)
                                ed = malloc(MAXB + 128);
                        uint8_t *src_before = malloc(nb + 64);
                        memcpy(src_before, B[1].src, nb + 64);
                        IMB_JOB *j = X_GET_NEXT(m);
                        alg_fill(m, j, &it);
                        IMB_JOB *r = X_SUBMIT(m);
                        int e = imb_get_errno(m);
                        if (!r)
                                r = X_FLUSH(m);
                        if (!r || r->status != IMB_STATUS_COMPLETED) {
                                base_len = len;
                                viol("valid-job-rejected", "boundary-value", "job", "job satisfying every documented constraint was not accepted (x = error code)", e);
                        } else {
                                item_t ref = it;
                                ref.src = src_before;
                                ref.dst = src_before;
                                if (!A->inplace_only && A->kind != AK_HASH)
                                        ref.dst = NULL;
                                uint8_t *tmp = malloc(nb + 128);
                                memset(tmp, 0x3C, nb + 128);
                                int mask = alg_ref(&ref, tmp, ed, et, en);
                                const uint8_t *got = (A->inplace_only) ? B[1].src : B[1].dst;
                                if ((mask & 1) && A->family != F_DOCSISCRC && A->family != F_PON && alg_cmp_dst(&it, got, ed)) {
                                        base_len = len;
                                        viol("valid-job-wrong-output", "boundary-value", "job", "valid boundary job gave wrong output", 0);
                                }
                                if ((mask & 2) && !(A->family == F_PON) && memcmp(B[1].tag + 16, et, (size_t) item_taglen(&it))) {
                                        base_len = len;
                                        viol("valid-job-wrong-tag", "boundary-value", "job", "valid boundary job gave wrong tag", 0);
                                }
                                free(tmp);
                                n_valid_ok++;
                                /* the same valid boundary job through the other checked entry points: it must be accepted there too and
                                 * give the same bytes (asynchronous burst; synchronous cipher / hash / AEAD burst where documented) */
                                size_t gl = A->kind == AK_HASH ? 0 : nb;
                                uint8_t *job_dst = malloc(gl + 1), job_tag[96];
                                memcpy(job_dst, got, gl);
                                memcpy(job_tag, B[1].tag, 96);
                                int sk = 0;
                                if (A->kind == AK_CIPHER && A->family == F_AES &&
                                    (A->cm == IMB_CIPHER_CBC || A->cm == IMB_CIPHER_CNTR || A->cm == IMB_CIPHER_ECB || A->cm == IMB_CIPHER_CFB))
                                        sk = 1;
                                if (A->kind == AK_HASH && ((A->family == F_HMAC && A->sub <= REF_SHA512) || A->family == F_SHA || A->family == F_CMAC))
                                        sk = 2;
                                if (A->family == F_CCM)
                                        sk = 3;
                                for (int api = 0; api < 2; api++) {
                                        if (api == 1 && !sk)
                                                continue;
                                        memcpy(B[1].src, src_before, nb + 64);
                                        memset(B[1].dst, 0x3C, nb + 64);
                                        memset(B[1].tag, 0x3C, 96);
                                        memset(B[1].niv, 0x3C, 32);
                                        static IMB_JOB SJ;
                                        IMB_JOB *bj[2] = { &SJ, NULL };
                                        uint32_t done = 0;
                                        int e2 = 0;
                                        const char *an = api == 0 ? "burst" : sk == 1 ? "cipher-burst" : sk == 2 ? "hash-burst" : "aead-burst";
                                        if (api == 0) {
                                                if (X_GET_NEXT_BURST(m, 1, bj) != 1)
                                                        continue;
                                                alg_fill(m, bj[0], &it);
                                                imb_set_session(m, bj[0]);
                                                done = X_SUBMIT_BURST(m, 1, bj);
                                                e2 = imb_get_errno(m);
                                                if (!done && !e2)
                                                        done = X_FLUSH_BURST(m, 1, bj);
                                        } else {
                                                alg_fill(m, &SJ, &it);
                                                IMB_CIPHER_DIRECTION d = g_dir ? IMB_DIR_ENCRYPT : IMB_DIR_DECRYPT;
                                                done = sk == 1   ? IMB_SUBMIT_CIPHER_BURST(m, &SJ, 1, (IMB_CIPHER_MODE) A->cm, d, (IMB_KEY_SIZE_BYTES) A->klen)
                                                       : sk == 2 ? IMB_SUBMIT_HASH_BURST(m, &SJ, 1, (IMB_HASH_ALG) A->ha)
                                                                 : IMB_SUBMIT_AEAD_BURST(m, &SJ, 1, (IMB_CIPHER_MODE) A->cm, d, (IMB_KEY_SIZE_BYTES) A->klen);
                                                e2 = imb_get_errno(m);
                                        }
                                        base_len = len;
                                        if (done != 1 || bj[0]->status != IMB_STATUS_COMPLETED)
                                                viol("valid-job-rejected", "boundary-value", an,
                                                     "job satisfying every documented constraint (accepted by the job API) was not accepted by this entry point (x = error code)", e2);
                                        else if (memcmp(got, job_dst, gl) || memcmp(B[1].tag, job_tag, A->family == F_PON ? 16 + 4 : 96)) /* PON: CRC half of the tag is undefined for PLI <= 4 */
                                                viol("valid-job-wrong-output", "boundary-value", an, "entry point gave other bytes than the job API for the same valid boundary job", 0);
                                        else
                                                n_valid_ok++;
                                        while (X_FLUSH(m))
                                                ;
                                }
                                free(job_dst);
                        }
                        free(src_before);
                }
        }
}

/* misuse of the burst calls themselves (once per algorithm x variant: the following valid baseline job proves the manager was left intact) */
static void
burst_misuse(void)
{
        struct {
                const char *name;
                int expect; /* expected error code, -1 = any non-zero */
        } cur;
#define MIS(nm, exp_code, call, retval_ok)                                                         \
        do {                                                                                       \
                cur.name = nm;                                                                     \
                cur.expect = exp_code;                                                             \
                n_inj++;                                                                           \
                uint32_t rv = (uint32_t) (call);                                                   \
                int e = imb_get_errno(m);                                                          \
                if (!(retval_ok) || e == 0 || (cur.expect >= 0 && e != cur.expect))                \
                        viol("burst-misuse-not-refused", cur.name, "burst", "misused burst call not refused with the matching error code (x = retval*10000 + errno)", (long) rv * 10000 + e); \
                if (X_QUEUE_SIZE(m) != 0)                                                          \
                        viol("burst-partially-submitted", cur.name, "burst", "jobs were queued by a refused burst call", X_QUEUE_SIZE(m)); \
                while (X_FLUSH(m))                                                                 \
                        ;                                                                          \
        } while (0)
        IMB_JOB *jobs[IMB_MAX_BURST_SIZE + 2];
        static IMB_JOB sj[4];
        uint32_t nb = A->bitlen ? (base_len + 7) / 8 : base_len;
        if (A->family == F_DOCSISCRC)
                nb = base_len + 12;
        MIS("get-next-burst-null-array", IMB_ERR_NULL_BURST, X_GET_NEXT_BURST(m, 2, NULL), rv == 0);
        MIS("get-next-burst-too-many", IMB_ERR_BURST_SIZE, X_GET_NEXT_BURST(m, IMB_MAX_BURST_SIZE + 1, jobs), rv == 0);
        MIS("submit-burst-null-array", IMB_ERR_NULL_BURST, X_SUBMIT_BURST(m, 2, NULL), rv == 0);
        MIS("flush-burst-null-array", IMB_ERR_NULL_BURST, X_FLUSH_BURST(m, 2, NULL), rv == 0);
        if (X_GET_NEXT_BURST(m, 3, jobs) == 3) {
                for (int k = 0; k < 3; k++) {
                        fill_bufs(k, nb);
                        item_t bi;
                        mkitem(&bi, k, base_len);
                        alg_fill(m, jobs[k], &bi);
                        imb_set_session(m, jobs[k]);
                        snap(k, nb);
                }
                IMB_JOB *keep[3] = { jobs[0], jobs[1], jobs[2] };
                MIS("submit-burst-too-many", IMB_ERR_BURST_SIZE, X_SUBMIT_BURST(m, IMB_MAX_BURST_SIZE + 1, jobs), rv == 0);
                jobs[1] = NULL;
                MIS("submit-burst-null-element", IMB_ERR_NULL_JOB, X_SUBMIT_BURST(m, 3, jobs), rv == 0);
                jobs[1] = keep[2];
                jobs[2] = keep[1];
                MIS("submit-burst-out-of-order", IMB_ERR_BURST_OOO, X_SUBMIT_BURST(m, 3, jobs), rv == 0);
                for (int k = 0; k < 3; k++)
                        if (!unchanged(k, nb))
                                viol("burst-touched-buffer", "submit-burst-misuse", "burst", "a buffer of a refused burst was modified (x = job index)", k);
        }
        /* synchronous bursts: NULL array; algorithm the call does not offer */
        memset(sj, 0, sizeof sj);
        MIS("cipher-burst-null-array", -1, IMB_SUBMIT_CIPHER_BURST(m, NULL, 2, IMB_CIPHER_CBC, IMB_DIR_ENCRYPT, IMB_KEY_128_BYTES), rv == 0);
        MIS("hash-burst-null-array", -1, IMB_SUBMIT_HASH_BURST(m, NULL, 2, IMB_AUTH_HMAC_SHA_1), rv == 0);
        MIS("aead-burst-null-array", -1, IMB_SUBMIT_AEAD_BURST(m, NULL, 2, IMB_CIPHER_CCM, IMB_DIR_ENCRYPT, IMB_KEY_128_BYTES), rv == 0);
        MIS("cipher-burst-unsupported-mode", IMB_ERR_CIPH_MODE, IMB_SUBMIT_CIPHER_BURST(m, sj, 2, IMB_CIPHER_GCM, IMB_DIR_ENCRYPT, IMB_KEY_128_BYTES), rv == 0);
        MIS("hash-burst-unsupported-alg", IMB_ERR_HASH_ALGO, IMB_SUBMIT_HASH_BURST(m, sj, 2, IMB_AUTH_AES_XCBC), rv == 0);
        MIS("aead-burst-unsupported-mode", IMB_ERR_CIPH_MODE, IMB_SUBMIT_AEAD_BURST(m, sj, 2, IMB_CIPHER_CHACHA20_POLY1305, IMB_DIR_ENCRYPT, IMB_KEY_256_BYTES), rv == 0);
        baseline_after("burst-misuse", "burst");
}

static int thorough;
static void
run_alg_variant(long item, void *arg)
{
        (void) arg;
        g_a = (int) (item / NVARIANTS);
        g_v = (int) (item % NVARIANTS);
        A = &ALGS[g_a];
        if (!variant_usable(g_v))
                return;
        m = mgr_new(g_v);
        KS = keyset_new(m, 50);
        static char ctx[96];
        snprintf(ctx, sizeof ctx, "%s/%s", VARIANTS[g_v].name, A->name);
        g_tcall_ctx = ctx;
        for (g_dir = (A->kind == AK_HASH ? 1 : 0); g_dir < 2; g_dir++) {
                base_len = A->minlen > 64 * (A->bitlen ? 8u : 1u) ? A->minlen : 64 * (A->bitlen ? 8u : 1u);
                while (!alg_len_ok(g_a, base_len))
                        base_len++;
                uint32_t nb = A->bitlen ? (base_len + 7) / 8 : base_len;
                if (A->family == F_DOCSISCRC)
                        nb = base_len + 12;
                /* expectation of the valid baseline */
                fill_bufs(0, nb);
                item_t it;
                mkitem(&it, 0, base_len);
                IMB_JOB *j = X_GET_NEXT(m);
                alg_fill(m, j, &it);
                IMB_JOB *r = X_SUBMIT(m);
                if (!r)
                        r = X_FLUSH(m);
                if (!r || r->status != IMB_STATUS_COMPLETED) {
                        viol("valid-job-rejected", "baseline", "job", "baseline job rejected (x = error code)", imb_get_errno(m));
                        continue;
                }
                memcpy(exp_src, B[0].src, nb + 64);
                memcpy(exp_dst, B[0].dst, nb + 64);
                memcpy(exp_tag, B[0].tag, 96);
                for (int a = 0; a < NMUT; a++)
                        for (int v = 0; v < MUTS[a].nvariants; v++)
                                inject(&MUTS[a], v, NULL, 0);
                /* pairs of violations on different fields (first variant of each) */
                for (int a = 0; a < NMUT; a++)
                        for (int b2 = a + 1; b2 < NMUT; b2++)
                                if (MUTS[a].field != MUTS[b2].field)
                                        inject(&MUTS[a], 0, &MUTS[b2], 0);
                burst_misuse();
                valid_boundaries();
        }
        stat_add("evaluations", n_inj);
        stat_add("distinct_nontrivial", n_inj);
        stat_add("valid_jobs_checked", n_valid_ok);
        stat_add("alg_variant_cells", 1);
        if (g_v == 6 && g_a % 11 == 1) {
                rec_begin("sample");
                rec_s("alg", A->name);
                rec_s("variant", VARIANTS[g_v].name);
                rec_s("injection", "iv-len-bad#1 (iv_len = permitted - 1) on the baseline job; job API + burst positions 0,1,2");
                rec_s("expected", "INVALID_ARGS, IMB_ERR_JOB_IV_LEN, all buffers and the descriptor unchanged, baseline job correct afterwards");
                rec_i("injections_for_this_cell", n_inj);
                rec_end();
        }
        n_inj = n_valid_ok = 0;
        keyset_free(KS);
        free_mb_mgr(m);
}
static void
crashed(long item, int sig, void *arg)
{
        (void) arg;
        rec_begin("viol");
        rec_s("site", sig == 14 ? "hang" : "crash");
        rec_i("signal", sig);
        rec_s("alg", ALGS[item / NVARIANTS].name);
        rec_s("variant", VARIANTS[item % NVARIANTS].name);
        rec_s("mutation", "?");
        rec_s("detail", "library faulted while handling an invalid (or boundary-valid) job");
        rec_end();
}

int
main(void)
{
        rec_init("C12", getenv("VERIF_TIER") ? getenv("VERIF_TIER") : "quick");
        thorough = tier_thorough();
        region_t R = region_new(1);
        alg_set_poison(R.base - 2048);
        for (int k = 0; k < 3; k++) {
                B[k].src = malloc(MAXB + 256);
                B[k].dst = malloc(MAXB + 256);
                B[k].s_src = malloc(MAXB + 256);
                B[k].s_dst = malloc(MAXB + 256);
                B[k].tag = malloc(128);
                B[k].iv = aligned_alloc(64, 64);
                B[k].aad = malloc(64);
                B[k].niv = malloc(64);
        }
        exp_src = malloc(MAXB + 256);
        exp_dst = malloc(MAXB + 256);
        par_run((long) NALGS * NVARIANTS, n_workers(), run_alg_variant, crashed, NULL, 900);
        rec_begin("meta");
        rec_s("rule", "fault = single-field violation (20 mutation kinds x value variants) of a valid baseline job, and every pair of "
                      "violations on different fields; per algorithm row, direction, variant; job API and positions 0/1/2 of a "
                      "3-job asynchronous burst; plus boundary values that must be accepted");
        rec_i("mutation_kinds", NMUT);
        rec_end();
        stats_emit();
        return 0;
}
