/* C17: managers, work buffers and the six-call histories shared by the interleaving driver (c17.c) and the
 * free-running thread-sanitizer driver (c17t.c). The includer defines MON(label, stmt) and C17_SET_V(v). */
#ifndef C17_PROG_H
#define C17_PROG_H
#include "algs.h"
/* ------------------------------------------------------------------ managers and histories ------------------------------------------------------------------ */
typedef struct {
        uint8_t src[512], dst[512], iv[32], aad[32], tag[64], niv[16];
} wb_t;
#define NWB 4
typedef struct {
        IMB_MGR *m;
        uint8_t *pristine;
        keyset_t *ks;
        wb_t wb[NWB];
        struct gcm_key_data gk __attribute__((aligned(64)));
        struct gcm_context_data gctx;
        snow3g_key_schedule_t sk;
        int v, nsub;
        IMB_JOB *cur;
} mctx_t;
static size_t mgr_sz;
#ifdef C17_NO_TRAMP /* real threads: the trampoline keeps its context in a global */
#define P_GET_NEXT(m) IMB_GET_NEXT_JOB(m)
#define P_SUBMIT(m) IMB_SUBMIT_JOB(m)
#define P_FLUSH(m) IMB_FLUSH_JOB(m)
#define P_GET_COMPLETED(m) IMB_GET_COMPLETED_JOB(m)
#define P_QUEUE_SIZE(m) IMB_QUEUE_SIZE(m)
#else
#define P_GET_NEXT(m) X_GET_NEXT(m)
#define P_SUBMIT(m) X_SUBMIT(m)
#define P_FLUSH(m) X_FLUSH(m)
#define P_GET_COMPLETED(m) X_GET_COMPLETED(m)
#define P_QUEUE_SIZE(m) X_QUEUE_SIZE(m)
#endif

enum { K_NEXT, K_SUBMIT, K_FLUSH, K_GETC, K_QSIZE, K_D_GCM, K_D_SHA256, K_D_ZUC, K_D_CRC, K_D_SNOW3G, K_D_QUIC };
typedef struct {
        int kind;
        const char *alg;
        int dir;
        uint32_t len;
        int bad; /* 1: NULL source pointer -> rejected */
} op_t;
#define NPROG 10
#define PLEN 6
static const op_t PROG[NPROG][PLEN] = {
        /* completes at submit */
        { { K_NEXT, "chacha20-poly1305", 1, 100, 0 }, { K_SUBMIT }, { K_NEXT, "chacha20-poly1305", 0, 64, 0 }, { K_SUBMIT }, { K_FLUSH }, { K_GETC } },
        /* parks in lanes, flushed */
        { { K_NEXT, "aes-cbc-128", 1, 64, 0 }, { K_SUBMIT }, { K_NEXT, "hmac-sha1", 1, 50, 0 }, { K_SUBMIT }, { K_FLUSH }, { K_FLUSH } },
        /* rejected job between valid ones */
        { { K_NEXT, "hmac-sha256", 1, 70, 0 }, { K_SUBMIT }, { K_NEXT, "aes-ctr-128", 1, 33, 1 }, { K_SUBMIT }, { K_QSIZE }, { K_FLUSH } },
        /* wireless + AEAD */
        { { K_NEXT, "snow3g-uea2", 1, 296, 0 }, { K_SUBMIT }, { K_NEXT, "zuc-eea3-128", 1, 57, 0 }, { K_SUBMIT }, { K_FLUSH }, { K_FLUSH } },
        /* direct API */
        { { K_D_GCM, NULL, 1, 77, 0 }, { K_D_SHA256, NULL, 1, 90, 0 }, { K_D_ZUC, NULL, 1, 61, 0 }, { K_D_CRC, NULL, 1, 99, 0 }, { K_D_SNOW3G, NULL, 1, 45, 0 }, { K_D_QUIC, NULL, 1, 70, 0 } },
        /* DES lanes + CCM + get_completed */
        { { K_NEXT, "des-cbc", 1, 40, 0 }, { K_SUBMIT }, { K_NEXT, "aes-ccm-128", 1, 48, 0 }, { K_SUBMIT }, { K_GETC }, { K_FLUSH } },
        /* AEAD: GCM encrypt + CCM-256 decrypt */
        { { K_NEXT, "aes-gcm-128", 1, 77, 0 }, { K_SUBMIT }, { K_NEXT, "aes-ccm-256", 0, 33, 0 }, { K_SUBMIT }, { K_FLUSH }, { K_GETC } },
        /* wireless integrity (bit length) + KASUMI F9 */
        { { K_NEXT, "zuc-eia3-128", 1, 200, 0 }, { K_SUBMIT }, { K_NEXT, "kasumi-f9", 1, 40, 0 }, { K_SUBMIT }, { K_FLUSH }, { K_FLUSH } },
        /* DOCSIS with CRC32 (in place) + CBCS */
        { { K_NEXT, "docsis-aes-128-crc32", 1, 70, 0 }, { K_SUBMIT }, { K_NEXT, "aes-cbcs-1-9", 1, 160, 0 }, { K_SUBMIT }, { K_FLUSH }, { K_FLUSH } },
        /* SM4 + Poly1305 + SHA-512, no flush (jobs may stay parked when the history ends) */
        { { K_NEXT, "sm4-cbc", 1, 48, 0 }, { K_SUBMIT }, { K_NEXT, "poly1305", 1, 50, 0 }, { K_SUBMIT }, { K_NEXT, "sha512", 1, 100, 0 }, { K_SUBMIT } },
};

static void
mk_item(item_t *it, mctx_t *c, int alg, int dir, uint32_t len, int bi)
{
        wb_t *b = &c->wb[bi];
        memset(it, 0, sizeof *it);
        it->alg = alg;
        it->dir = dir;
        it->len = len;
        it->ks = c->ks;
        it->src = b->src;
        it->dst = ALGS[alg].inplace_only ? b->src : b->dst;
        it->iv = b->iv;
        it->aad = b->aad;
        it->aadlen = ALGS[alg].kind == AK_AEAD ? 13 : 0;
        it->tag = b->tag;
        it->next_iv = b->niv;
        if (ALGS[alg].family == F_PON)
                b->src[0] = b->src[1] = 0; /* XGEM header with PLI 0 */
        if (ALGS[alg].family == F_DOCSISCRC) {
                it->hash_off = 0;
                it->hash_len = it->len + 8;
                it->cipher_off = 12;
        }
}
static void
ctx_reset(mctx_t *c)
{
        memcpy(c->m, c->pristine, mgr_sz);
        for (int i = 0; i < NWB; i++) {
                wb_t *b = &c->wb[i];
                fill_rand(b->src, sizeof b->src, 9000 + (uint64_t) i);
                fill_rand(b->iv, 32, 9100 + (uint64_t) i);
                fill_rand(b->aad, 32, 9200 + (uint64_t) i);
                for (int q = 17; q < 25; q++)
                        b->iv[q] &= 0x3f;
                memset(b->dst, 0, sizeof b->dst);
                memset(b->tag, 0, sizeof b->tag);
                memset(b->niv, 0, sizeof b->niv);
        }
        c->nsub = 0;
        c->cur = NULL;
}
static uint64_t
wb_hash(const mctx_t *c)
{
        return hash_bytes(c->wb, sizeof c->wb, 7);
}
static uint64_t
job_obs(mctx_t *c, IMB_JOB *r)
{
        uint64_t h = 0x1234;
        if (r) {
                uint64_t x[3] = { (uint64_t) (uintptr_t) r->user_data, (uint64_t) r->status, 0 };
                h = hash_bytes(x, sizeof x, h);
        }
        uint32_t e = (uint32_t) c->m->imb_errno; /* the per-manager code (not the process-wide mirror) */
        h = hash_bytes(&e, 4, h);
        return hash_bytes(&h, 8, wb_hash(c));
}
/* one step of a history on its manager; returns the observation */
static uint64_t
step(mctx_t *c, const op_t *o)
{
        IMB_MGR *m = c->m;
        IMB_JOB *r = NULL;
        C17_SET_V(c->v);
        switch (o->kind) {
        case K_NEXT: {
                MON("get_next_job", c->cur = P_GET_NEXT(m));
                item_t it;
                int bi = c->nsub % NWB;
                mk_item(&it, c, alg_id(o->alg), o->dir, o->len, bi);
                alg_fill(m, c->cur, &it);
                if (o->bad)
                        c->cur->src = NULL;
                c->cur->user_data = (void *) (uintptr_t) (c->nsub + 1);
                c->nsub++;
                return job_obs(c, NULL);
        }
        case K_SUBMIT: MON("submit_job", r = P_SUBMIT(m)); return job_obs(c, r);
        case K_FLUSH: MON("flush_job", r = P_FLUSH(m)); return job_obs(c, r);
        case K_GETC: MON("get_completed_job", r = P_GET_COMPLETED(m)); return job_obs(c, r);
        case K_QSIZE: {
                uint32_t q = 0;
                MON("queue_size", q = P_QUEUE_SIZE(m));
                return hash_bytes(&q, 4, job_obs(c, NULL));
        }
        case K_D_GCM:
                MON("gcm128_enc", IMB_AES128_GCM_ENC(m, &c->gk, &c->gctx, c->wb[0].dst, c->wb[0].src, o->len, c->wb[0].iv, c->wb[0].aad, 13, c->wb[0].tag, 16));
                return job_obs(c, NULL);
        case K_D_SHA256: MON("sha256", IMB_SHA256(m, c->wb[1].src, o->len, c->wb[1].tag)); return job_obs(c, NULL);
        case K_D_ZUC: MON("zuc_eea3_1_buffer", IMB_ZUC_EEA3_1_BUFFER(m, keyset_raw(c->ks), c->wb[2].iv, c->wb[2].src, c->wb[2].dst, o->len)); return job_obs(c, NULL);
        case K_D_CRC: {
                uint32_t q = 0;
                MON("crc32_ethernet_fcs", q = IMB_CRC32_ETHERNET_FCS(m, c->wb[3].src, o->len));
                return hash_bytes(&q, 4, job_obs(c, NULL));
        }
        case K_D_SNOW3G: {
                MON("snow3g_init_key_sched", IMB_SNOW3G_INIT_KEY_SCHED(m, keyset_raw(c->ks), &c->sk));
                MON("snow3g_f8_1_buffer", IMB_SNOW3G_F8_1_BUFFER(m, &c->sk, c->wb[3].iv, c->wb[3].src, c->wb[3].dst, o->len));
                return job_obs(c, NULL);
        }
        case K_D_QUIC: { /* QUIC batch helpers (AES-GCM packets + header-protection masks) */
                void *dst[2] = { c->wb[0].dst, c->wb[1].dst }, *tg[2] = { c->wb[0].tag, c->wb[1].tag };
                const void *src[2] = { c->wb[0].src, c->wb[1].src }, *ivs[2] = { c->wb[0].iv, c->wb[1].iv }, *aads[2] = { c->wb[0].aad, c->wb[1].aad };
                uint64_t lens[2] = { o->len, o->len / 2 + 1 };
                MON("quic_aes_gcm", imb_quic_aes_gcm(m, &c->gk, IMB_KEY_128_BYTES, IMB_DIR_ENCRYPT, dst, src, lens, ivs, aads, 8, tg, 16, 2));
                void *hp[2] = { c->wb[2].dst, c->wb[3].dst };
                const void *smp[2] = { c->wb[2].src, c->wb[3].src };
                MON("quic_hp_chacha20", imb_quic_hp_chacha20(m, keyset_raw(c->ks), hp, smp, 2));
                return job_obs(c, NULL);
        }
        }
        return 0;
}

#endif
