/* C04 - a job's result depends only on itself (M-dev: deviation-bounded schedule enumeration, DESIGN.md 4/C04).
 * For every suite that parks jobs in an out-of-order lane manager (plus chained cipher+hash suites that use two
 * managers) and every variant: all schedules "submit n jobs, flush all" for every n = 1..NMAX with at most k
 * deviations from the default (all jobs same length, no intermediate flush): another length for job i (3
 * alternatives: minimum, one block more, long), a flush before job i, a get_completed before job i.
 * Every execution starts from the pristine manager image and runs to completion. Oracle: every job comes back
 * once, in order, COMPLETED, with exactly the outputs the SAME job produced when processed ALONE; the handed
 * back descriptor is unchanged (reported under C14).
 * usage: c04 [suite-filter]                                                                              */
#include "algs.h"

#define NMAX 34
#define MAXL 1100
typedef struct {
        const char *cipher, *hash;
        int dir;
} suite_t;
/* chained suites (cipher row + hash row): two OOO managers active for one job */
static const suite_t CHAINED[] = {
        { "aes-cbc-128", "hmac-sha1", 1 },     { "aes-cbc-128", "hmac-sha1", 0 },   { "aes-cbc-256", "hmac-sha512", 1 },
        { "aes-cbc-192", "hmac-sha256", 1 },   { "aes-ctr-128", "hmac-sha1", 1 },   { "aes-cbc-128", "aes-xcbc", 1 },
        { "aes-cbc-128", "aes-cmac-128", 1 },  { "des-cbc", "hmac-md5", 1 },        { "3des-cbc", "hmac-sha1", 0 },
        { "zuc-eea3-128", "zuc-eia3-128", 1 }, { "snow3g-uea2", "snow3g-uia2", 1 }, { "aes-cbc-128", "sha256", 1 },
        { "aes-cfb-128", "hmac-sha384", 1 },   { "docsis-aes-128", "hmac-sha224", 1 }, { "aes-cbcs-1-9", "sha1", 1 },
        { "zuc-eea3-256", "zuc-eia3-256", 1 }, { "aes-ecb-128", "aes-cmac-256", 1 }, { "docsis-des", "sha512", 1 },
};
#define NCHAINED ((int) (sizeof CHAINED / sizeof CHAINED[0]))
typedef struct {
        int a, h, dir;
        int a2, h2, dir2, mixed; /* mixed: jobs of two different suites that share an OOO manager in one schedule */
        int longlen;             /* twin unit with the long length alphabet (several hash blocks per job) */
        int gen;                 /* generated product unit: always explored with the quick bounds (there are thousands of them) */
        char name[96];
} unit_t;
/* pairs of suites sharing an out-of-order manager (second stage of one is dispatched while the other is parked) */
static const struct {
        suite_t s1, s2;
} MIXED[] = {
        { { "aes-ctr-128", "hmac-sha1", 1 }, { "aes-cbc-128", "hmac-sha1", 0 } },
        { { "aes-cbc-128", "hmac-sha256", 1 }, { "aes-cbc-128", "hmac-sha256", 0 } },
        { { "aes-cbc-128", "sha1", 1 }, { "aes-cbc-128", "hmac-md5", 1 } },
        { { "des-cbc", "hmac-sha512", 1 }, { "3des-cbc", "hmac-sha512", 0 } },
        { { "docsis-aes-128", "hmac-sha384", 1 }, { "aes-cfb-128", "hmac-sha384", 0 } },
        { { "zuc-eea3-128", "zuc-eia3-128", 1 }, { "aes-ctr-128", "zuc-eia3-128", 0 } },
        { { "aes-cbc-256", "aes-cmac-128", 1 }, { "aes-ecb-128", "aes-cmac-128", 0 } },
        { { "aes-cbc-192", "aes-xcbc", 1 }, { "aes-ctr-192", "aes-xcbc", 0 } },
};
#define NMIXED ((int) (sizeof MIXED / sizeof MIXED[0]))
static uint8_t SUITE_OF[64]; /* per job of the current schedule: 0 = first suite, 1 = second suite */
static int use_burst;
static unit_t UNITS[8000];
static const char *g_label = "C04"; /* records of the C04 oracle are reported under this property (C06 run: "C06") */
static int NUNITS;

static IMB_MGR *m;
static uint8_t *pristine;
static size_t mgr_sz;
static keyset_t *KS[2];
static int g_v, thorough;
#define DEEP (thorough && !U->gen)
static unit_t *U;
static uint32_t LENS2[2][4], HLENS2[2][4];
#define LENS (LENS2[cur_suite])
#define HLENS (HLENS2[cur_suite])
static int cur_suite;

typedef struct {
        uint8_t src[MAXL + 64], dst[MAXL + 64], tag[80], iv[32], hiv[32], niv[32];
        uint8_t exp_dst[2][4][MAXL + 16], exp_tag[2][4][64];
        IMB_JOB snap;
        int li, returned;
} jslot_t;
static jslot_t *J;

static uint32_t
pick_len(int a, uint32_t want)
{
        const alg_t *A = &ALGS[a];
        uint32_t unit = A->bitlen ? 8 : 1;
        uint32_t l = want * unit;
        if (l < A->minlen)
                l = A->minlen;
        while (!alg_len_ok(a, l) && l < A->maxlen)
                l++;
        return l;
}
static void
make_item(item_t *it, int i, int li)
{
        jslot_t *s = &J[i];
        memset(it, 0, sizeof *it);
        const int sx = U->mixed ? SUITE_OF[i] : 0;
        const int ua = sx ? U->a2 : U->a, uh = sx ? U->h2 : U->h, ud = sx ? U->dir2 : U->dir;
        cur_suite = sx;
        it->alg = ua ? ua : uh;
        it->dir = ud;
        it->len = ua ? LENS[li] : HLENS[li];
        it->ks = KS[i & 1];
        it->src = s->src;
        it->dst = s->dst;
        it->iv = s->iv;
        it->aad = s->hiv;
        it->aadlen = ALGS[it->alg].kind == AK_AEAD ? 13 : 0;
        it->tag = s->tag;
        it->next_iv = s->niv;
        if (ALGS[it->alg].inplace_only)
                it->dst = s->src;
        if (ALGS[it->alg].family == F_DOCSISCRC) {
                it->hash_off = 0;
                it->hash_len = LENS[li] + 8;
                it->cipher_off = 12;
        }
        if (ua && uh) {
                it->alg2 = uh;
                it->hlen = HLENS[li];
                it->hoff = 0;
                it->hiv = s->hiv;
                /* in place so that the hash stage sees the cipher output in cipher->hash order */
                it->dst = s->src;
        }
}
static void
fill_inputs(int i)
{
        jslot_t *s = &J[i];
        fill_rand(s->src, MAXL + 64, 4000 + (uint64_t) i);
        fill_rand(s->iv, 32, 5000 + (uint64_t) i);
        fill_rand(s->hiv, 32, 6000 + (uint64_t) i);
        for (int q = 17; q < 25; q++) {
                s->iv[q] &= 0x3f;
                s->hiv[q] &= 0x3f;
        }
        if (!U->mixed && ALGS[U->a ? U->a : U->h].family == F_PON) {
                s->src[0] = 0;
                s->src[1] = 0; /* PLI 0 */
        }
        memset(s->dst, 0, sizeof s->dst);
        memset(s->tag, 0, sizeof s->tag);
        memset(s->niv, 0, sizeof s->niv);
}
static void
snap_outputs(int i, int li, uint8_t *d, uint8_t *t)
{
        jslot_t *s = &J[i];
        item_t it;
        make_item(&it, i, li);
        if (it.dst)
                memcpy(d, it.dst, MAXL + 16);
        else
                memset(d, 0, MAXL + 16);
        memcpy(t, s->tag, 64);
}

typedef struct {
        int n;
        int ndev;
        int dev[3]; /* encoded: i*5 + type (0..2 = length alternative 1..3, 3 = flush before, 4 = get_completed before) */
} sched_t;
static void
sched_str(const sched_t *sc, char *buf, size_t n)
{
        size_t o = (size_t) snprintf(buf, n, "%sn=%d", use_burst ? "burst-api " : "", sc->n);
        if (U->mixed) {
                int h = 0;
                while (h < sc->n && SUITE_OF[h] == SUITE_OF[0])
                        h++;
                o += (size_t) snprintf(buf + o, n - o, " suites=%d x suite%d then suite%d", h, SUITE_OF[0] + 1, !SUITE_OF[0] + 1);
        }
        for (int d = 0; d < sc->ndev; d++) {
                int i = sc->dev[d] / 5, t = sc->dev[d] % 5;
                if (t < 3)
                        o += (size_t) snprintf(buf + o, n - o, " len[%d]=%u", i, U->a ? LENS[t + 1] : HLENS[t + 1]);
                else
                        o += (size_t) snprintf(buf + o, n - o, " %s-before[%d]", t == 3 ? "flush" : "getc", i);
        }
}
static void
viol(const char *prop, const sched_t *sc, const char *site, const char *detail, int job, long x)
{
        char sig[220], sb[160];
        if (!strcmp(prop, "C04"))
                prop = g_label;
        snprintf(sig, sizeof sig, "%s|%s|%s|%s", prop, site, U->name, VARIANTS[g_v].name);
        if (!rec_sig_ok(sig, 4))
                return;
        sched_str(sc, sb, sizeof sb);
        const char *save = g_property;
        g_property = prop;
        rec_begin("viol");
        rec_s("site", site);
        rec_s("detail", detail);
        rec_s("alg", U->name);
        rec_s("variant", VARIANTS[g_v].name);
        rec_s("schedule", sb);
        rec_i("job", job);
        rec_i("x", x);
        rec_i("len", job >= 0 ? (U->a ? LENS[J[job].li] : HLENS[J[job].li]) : 0);
        rec_s("found_by", save);
        rec_end();
        g_property = save;
}

static long long n_sched, n_jobs, n_partial_flush, n_multi;
static int next_expected;
static void
handback(const sched_t *sc, IMB_JOB *r)
{
        long i = (long) r->user_data - 1;
        if (i < 0 || i >= sc->n) {
                viol("C04", sc, "bogus-job", "returned job has unknown user_data", -1, i);
                return;
        }
        jslot_t *s = &J[i];
        if (i != next_expected)
                viol("C04", sc, "order", "job returned out of submission order", (int) i, next_expected);
        next_expected = (int) i + 1;
        s->returned++;
        if (r->status != IMB_STATUS_COMPLETED) {
                viol("C04", sc, "status", "co-scheduled job not COMPLETED", (int) i, r->status);
                return;
        }
        uint8_t d[MAXL + 16], t[64];
        snap_outputs((int) i, s->li, d, t);
        if (memcmp(d, s->exp_dst[U->mixed ? SUITE_OF[i] : 0][s->li], MAXL + 16)) {
                int k = 0;
                while (d[k] == s->exp_dst[U->mixed ? SUITE_OF[i] : 0][s->li][k])
                        k++;
                viol("C04", sc, "dst-differs-from-alone", "output differs from the same job processed alone", (int) i, k);
        }
        if (memcmp(t, s->exp_tag[U->mixed ? SUITE_OF[i] : 0][s->li], 64))
                viol("C04", sc, "tag-differs-from-alone", "tag differs from the same job processed alone", (int) i, 0);
        /* C14: caller-owned descriptor fields unchanged */
        IMB_JOB a = *r, b = s->snap;
        a.status = b.status = 0;
        int ha = a.hash_alg;
        if (ha == IMB_AUTH_AES_CMAC || ha == IMB_AUTH_AES_CMAC_256 || ha == IMB_AUTH_AES_CMAC_BITLEN)
                a.msg_len_to_hash_in_bytes = b.msg_len_to_hash_in_bytes = 0; /* documented bytes->bits rewrite */
        if (a.cipher_mode == IMB_CIPHER_SNOW_V_AEAD)
                a.u.SNOW_V_AEAD.reserved = b.u.SNOW_V_AEAD.reserved = NULL;
        if (memcmp(&a, &b, sizeof a)) {
                size_t k = 0;
                while (((uint8_t *) &a)[k] == ((uint8_t *) &b)[k])
                        k++;
                viol("C14", sc, "descriptor-modified", "job descriptor changed between submit and hand-back (byte offset in x)",
                     (int) i, (long) k);
        }
}

static void
run_schedule(const sched_t *sc)
{
        int li[NMAX], pre[NMAX];
        memset(li, 0, sizeof li);
        memset(pre, 0, sizeof pre);
        for (int d = 0; d < sc->ndev; d++) {
                int i = sc->dev[d] / 5, t = sc->dev[d] % 5;
                if (t < 3)
                        li[i] = t + 1;
                else
                        pre[i] |= t == 3 ? 1 : 2;
        }
        memcpy(m, pristine, mgr_sz);
        next_expected = 0;
        for (int i = 0; i < sc->n; i++) {
                fill_inputs(i);
                J[i].returned = 0;
                J[i].li = li[i];
        }
        IMB_JOB *r;
        for (int i = 0; i < sc->n; i++) {
                if (pre[i] & 1) {
                        uint32_t q = X_QUEUE_SIZE(m);
                        if (q)
                                n_partial_flush++;
                        while ((r = X_FLUSH(m)))
                                handback(sc, r);
                }
                if (pre[i] & 2)
                        while ((r = X_GET_COMPLETED(m)))
                                handback(sc, r);
                IMB_JOB *j = X_GET_NEXT(m);
                item_t it;
                make_item(&it, i, li[i]);
                alg_fill(m, j, &it);
                j->user_data = (void *) (long) (i + 1);
                J[i].snap = *j;
                r = X_SUBMIT(m);
                n_jobs++;
                if (!r && imb_get_errno(m))
                        viol("C04", sc, "rejected", "valid job rejected", i, imb_get_errno(m));
                while (r) {
                        handback(sc, r);
                        r = X_GET_COMPLETED(m);
                }
        }
        if (X_QUEUE_SIZE(m) > 1)
                n_multi++;
        while ((r = X_FLUSH(m)))
                handback(sc, r);
        for (int i = 0; i < sc->n; i++)
                if (J[i].returned != 1)
                        viol("C04", sc, "not-exactly-once", "job not handed back exactly once", i, J[i].returned);
        n_sched++;
}

/* the same schedule through the asynchronous burst API: bursts are cut where the schedule has a flush /
 * get_completed deviation (flush deviation: everything is flushed between the bursts) */
static void
run_schedule_burst(const sched_t *sc)
{
        int li[NMAX], pre[NMAX];
        memset(li, 0, sizeof li);
        memset(pre, 0, sizeof pre);
        for (int d = 0; d < sc->ndev; d++) {
                int i = sc->dev[d] / 5, t = sc->dev[d] % 5;
                if (t < 3)
                        li[i] = t + 1;
                else
                        pre[i] |= t == 3 ? 1 : 2;
        }
        memcpy(m, pristine, mgr_sz);
        next_expected = 0;
        for (int i = 0; i < sc->n; i++) {
                fill_inputs(i);
                J[i].returned = 0;
                J[i].li = li[i];
        }
        IMB_JOB *jobs[NMAX + 4];
        int start = 0;
        while (start < sc->n) {
                int end = start + 1;
                while (end < sc->n && !pre[end])
                        end++;
                int nb = end - start;
                uint32_t k = X_GET_NEXT_BURST(m, (uint32_t) nb, jobs);
                if (k != (uint32_t) nb) {
                        viol("C04", sc, "burst-slots", "get_next_burst returned fewer slots than requested on a non-full queue", start, k);
                        return;
                }
                for (int q = 0; q < nb; q++) {
                        item_t it;
                        make_item(&it, start + q, li[start + q]);
                        alg_fill(m, jobs[q], &it);
                        jobs[q]->user_data = (void *) (long) (start + q + 1);
                        imb_set_session(m, jobs[q]);
                        J[start + q].snap = *jobs[q];
                }
                uint32_t r = X_SUBMIT_BURST(m, (uint32_t) nb, jobs);
                n_jobs += nb;
                if (imb_get_errno(m))
                        viol("C04", sc, "rejected", "valid burst rejected", start, imb_get_errno(m));
                for (uint32_t q = 0; q < r; q++)
                        handback(sc, jobs[q]);
                if (end < sc->n && (pre[end] & 1)) {
                        if (X_QUEUE_SIZE(m))
                                n_partial_flush++;
                        while ((r = X_FLUSH_BURST(m, NMAX, jobs)))
                                for (uint32_t q = 0; q < r; q++)
                                        handback(sc, jobs[q]);
                }
                start = end;
        }
        if (X_QUEUE_SIZE(m) > 1)
                n_multi++;
        uint32_t r;
        while ((r = X_FLUSH_BURST(m, NMAX, jobs)))
                for (uint32_t q = 0; q < r; q++)
                        handback(sc, jobs[q]);
        for (int i = 0; i < sc->n; i++)
                if (J[i].returned != 1)
                        viol("C04", sc, "not-exactly-once", "job not handed back exactly once (burst API)", i, J[i].returned);
        n_sched++;
}
static void
run_sched(const sched_t *sc)
{
        if (use_burst)
                run_schedule_burst(sc);
        else
                run_schedule(sc);
}

static void
run_unit_variant(long item, void *arg)
{
        (void) arg;
        U = &UNITS[item / NVARIANTS];
        g_v = (int) (item % NVARIANTS);
        if (!variant_usable(g_v))
                return;
        int kmax = DEEP ? 2 : 1;
        m = mgr_new(g_v);
        mgr_sz = imb_get_mb_mgr_size();
        pristine = malloc(mgr_sz);
        memcpy(pristine, m, mgr_sz);
        static char ctx[128];
        snprintf(ctx, sizeof ctx, "%s/%s", VARIANTS[g_v].name, U->name);
        g_tcall_ctx = ctx;
        KS[0] = keyset_new(m, 3);
        KS[1] = keyset_new(m, 4);
        J = calloc(NMAX, sizeof *J);
        /* length alphabet: default, minimum, one block more, long */
        /* the "@long" twin units use lengths of several hash blocks, so that jobs in one lane set differ in their number of
         * full blocks (64- and 128-byte block hashes): default 400, shorter 140, one block more 528, long 1040 */
        static const uint32_t want_s[4] = { 64, 1, 80, 304 }, wanth_s[4] = { 64, 1, 77, 301 };
        static const uint32_t want_l[4] = { 400, 144, 528, 1040 }, wanth_l[4] = { 400, 140, 528, 1037 };
        const uint32_t *want = U->longlen ? want_l : want_s, *wanth = U->longlen ? wanth_l : wanth_s;
        for (int sx = 0; sx < (U->mixed ? 2 : 1); sx++) {
                const int ua = sx ? U->a2 : U->a, uh = sx ? U->h2 : U->h;
                cur_suite = sx;
                for (int q = 0; q < 4; q++) {
                        LENS[q] = ua ? pick_len(ua, want[q]) : 0;
                        HLENS[q] = uh ? pick_len(uh, ua ? want[q] : wanth[q]) : 0;
                        if (ua && uh) { /* hash range within the ciphered buffer */
                                uint32_t cb = ALGS[ua].bitlen ? (LENS[q] + 7) / 8 : LENS[q];
                                HLENS[q] = pick_len(uh, cb);
                                uint32_t hb = ALGS[uh].bitlen ? (HLENS[q] + 7) / 8 : HLENS[q];
                                if (hb > cb + 32)
                                        HLENS[q] = pick_len(uh, 9);
                        }
                }
        }
        cur_suite = 0;
        /* expectations: every (job, length) alone on the pristine manager */
        sched_t alone = { .n = 1 };
        for (int sx = 0; sx < (U->mixed ? 2 : 1); sx++)
                for (int i = 0; i < NMAX; i++)
                        for (int li = 0; li < 4; li++) {
                                memcpy(m, pristine, mgr_sz);
                                SUITE_OF[i] = (uint8_t) sx;
                                fill_inputs(i);
                                IMB_JOB *j = IMB_GET_NEXT_JOB(m);
                                item_t it;
                                make_item(&it, i, li);
                                alg_fill(m, j, &it);
                                IMB_JOB *r = IMB_SUBMIT_JOB(m);
                                if (!r)
                                        r = IMB_FLUSH_JOB(m);
                                if (!r || r->status != IMB_STATUS_COMPLETED) {
                                        viol("C04", &alone, "alone-failed", "valid job failed when processed alone", i,
                                             r ? (long) r->status * 100000 + imb_get_errno(m) : -1);
                                        goto out;
                                }
                                snap_outputs(i, li, J[i].exp_dst[sx][li], J[i].exp_tag[sx][li]);
                        }
        memset(SUITE_OF, 0, sizeof SUITE_OF);
        if (U->mixed) {
                /* mixed-suite schedules: the first h jobs of one suite, the rest of the other (both orders), every n and h,
                 * plus one length deviation; through the job API and through the burst API */
                for (use_burst = 0; use_burst < 2; use_burst++)
                        for (int n = 1; n <= NMAX && !deadline_reached(); n++)
                                for (int h = 0; h <= n; h++)
                                        for (int first = 0; first < 2; first++) {
                                                for (int i = 0; i < n; i++)
                                                        SUITE_OF[i] = (uint8_t) ((i < h) ? first : !first);
                                                sched_t sc = { .n = n };
                                                run_sched(&sc);
                                                if (((h == 0 || h == n) && first) || !DEEP)
                                                        continue;
                                                for (int d1 = 0; d1 < n * 5; d1++) {
                                                        if (d1 % 5 >= 3 && d1 / 5 == 0)
                                                                continue;
                                                        sc.ndev = 1;
                                                        sc.dev[0] = d1;
                                                        run_sched(&sc);
                                                }
                                        }
                use_burst = 0;
                goto out_stats;
        }
        kmax = DEEP ? 2 : 1;
        for (use_burst = 0; use_burst < 2; use_burst++)
        for (int n = 1; n <= NMAX && !deadline_reached(); n++) {
                if (use_burst && kmax > 1)
                        kmax = 1;
                if (!DEEP && n > 18 && n < NMAX - 3)
                        continue; /* quick: n = 1..18 and 31..34 */
                int ND = n * 5;
                sched_t sc = { .n = n };
                run_sched(&sc);
                for (int d1 = 0; d1 < ND; d1++) {
                        if (d1 % 5 >= 3 && d1 / 5 == 0)
                                continue; /* flush/getc before the first job: no-op */
                        if (use_burst && !DEEP && !(d1 / 5 == 0 || d1 / 5 == n / 2 || d1 / 5 == n - 1))
                                continue; /* quick, burst API: deviations at the first, middle and last job only */
                        sc.ndev = 1;
                        sc.dev[0] = d1;
                        run_sched(&sc);
                        if (kmax < 2 || use_burst)
                                continue;
                        if (!(n <= 18 || n >= NMAX - 3))
                                continue;
                        for (int d2 = d1 + 1; d2 < ND; d2++) {
                                if (d2 % 5 >= 3 && d2 / 5 == 0)
                                        continue;
                                if (d1 / 5 == d2 / 5 && d1 % 5 < 3 && d2 % 5 < 3)
                                        continue; /* two lengths for one job */
                                sc.ndev = 2;
                                sc.dev[1] = d2;
                                run_sched(&sc);
                        }
                }
        }
        use_burst = 0;
        kmax = DEEP ? 2 : 1;
out_stats:
        if (deadline_reached())
                stat_add("caps_hit", 1);
out:
        stat_add("schedules", n_sched);
        stat_add("evaluations", n_sched);
        stat_add("jobs", n_jobs);
        stat_add("flushes_with_jobs_in_flight", n_partial_flush);
        stat_add("schedules_ending_with_2plus_in_flight", n_multi);
        stat_add("distinct_nontrivial", n_multi);
        stat_add("suite_variant_cells", 1);
        stat_max("max_deviation_bound_completed", kmax);
        if (g_v == 6 && item / NVARIANTS % 7 == 0) {
                rec_begin("sample");
                rec_s("suite", U->name);
                rec_s("variant", VARIANTS[g_v].name);
                rec_s("schedule", "n=17 len[0]=16 flush-before[9]  (17 jobs, job 0 shortest, flush before job 9, then flush all)");
                rec_i("schedules_run_for_this_cell", n_sched);
                rec_end();
        }
        n_sched = n_jobs = n_partial_flush = n_multi = 0;
        keyset_free(KS[0]);
        keyset_free(KS[1]);
        free(J);
        free(pristine);
        free_mb_mgr(m);
}
static void
crashed(long item, int sig, void *arg)
{
        (void) arg;
        rec_begin("viol");
        rec_s("site", sig == 14 ? "hang" : "crash");
        rec_i("signal", sig);
        rec_s("alg", UNITS[item / NVARIANTS].name);
        rec_s("variant", VARIANTS[item % NVARIANTS].name);
        rec_s("detail", "library faulted during schedule enumeration of valid jobs");
        rec_end();
}

int
main(int argc, char **argv)
{
        if (argc > 2)
                g_label = argv[2];
        rec_init(g_label, getenv("VERIF_TIER") ? getenv("VERIF_TIER") : "quick");
        thorough = tier_thorough();
        const char *filter = argc > 1 ? argv[1] : "";
        region_t R = region_new(1);
        alg_set_poison(R.base - 2048);
        for (int a = 1; a < NALGS; a++) {
                const alg_t *A = &ALGS[a];
                if (A->lane == LM_NONE)
                        continue;
                for (int d = 1; d >= 0; d--) {
                        if (A->kind == AK_HASH && d == 0)
                                continue;
                        unit_t *u = &UNITS[NUNITS];
                        memset(u, 0, sizeof *u);
                        u->a = A->kind == AK_HASH ? 0 : a;
                        u->h = A->kind == AK_HASH ? a : 0;
                        u->dir = d;
                        snprintf(u->name, sizeof u->name, "%s%s", A->name, A->kind == AK_HASH ? "" : d ? "/enc" : "/dec");
                        if (strstr(u->name, filter))
                                NUNITS++;
                        if (A->kind == AK_HASH && (A->family == F_HMAC || A->family == F_SHA)) {
                                unit_t *t = &UNITS[NUNITS];
                                *t = *u;
                                t->longlen = 1;
                                snprintf(t->name, sizeof t->name, "%s@long", A->name);
                                if (strstr(t->name, filter))
                                        NUNITS++;
                        }
                }
        }
        for (int c = 0; c < NCHAINED; c++) {
                unit_t *u = &UNITS[NUNITS];
                memset(u, 0, sizeof *u);
                u->a = alg_id(CHAINED[c].cipher);
                u->h = alg_id(CHAINED[c].hash);
                u->dir = CHAINED[c].dir;
                snprintf(u->name, sizeof u->name, "%s+%s/%s", CHAINED[c].cipher, CHAINED[c].hash, u->dir ? "enc" : "dec");
                if (strstr(u->name, filter))
                        NUNITS++;
                if (ALGS[u->h].family == F_HMAC || ALGS[u->h].family == F_SHA) {
                        unit_t *t = &UNITS[NUNITS];
                        *t = *u;
                        t->longlen = 1;
                        snprintf(t->name, sizeof t->name, "%s+%s/%s@long", CHAINED[c].cipher, CHAINED[c].hash, u->dir ? "enc" : "dec");
                        if (strstr(t->name, filter))
                                NUNITS++;
                }
        }
        for (int c = 0; c < NMIXED; c++) {
                unit_t *u = &UNITS[NUNITS];
                memset(u, 0, sizeof *u);
                u->a = alg_id(MIXED[c].s1.cipher);
                u->h = alg_id(MIXED[c].s1.hash);
                u->dir = MIXED[c].s1.dir;
                u->a2 = alg_id(MIXED[c].s2.cipher);
                u->h2 = alg_id(MIXED[c].s2.hash);
                u->dir2 = MIXED[c].s2.dir;
                u->mixed = 1;
                snprintf(u->name, sizeof u->name, "mixed:%s+%s/%s|%s+%s/%s", MIXED[c].s1.cipher, MIXED[c].s1.hash, u->dir ? "enc" : "dec",
                         MIXED[c].s2.cipher, MIXED[c].s2.hash, u->dir2 ? "enc" : "dec");
                if (strstr(u->name, filter))
                        NUNITS++;
        }
        /* generated product (C06 runs and the thorough tier): for every hash row with an out-of-order manager, every ordered pair
         * of cipher rows - first suite cipher->hash (encrypt), second suite hash->cipher (decrypt) - in one schedule: the
         * second stage of a job leaving the shared manager must be dispatched with that job's own handlers */
        if (!strcmp(g_label, "C06") || thorough) {
                static const char *CQ[] = { "aes-cbc-128", "aes-ctr-128", "aes-ecb-128", "aes-cfb-128" };
                static const char *CT[] = { "aes-cbc-128", "aes-ctr-128", "aes-ecb-128", "aes-cfb-128", "aes-cbc-256", "des-cbc", "3des-cbc",
                                            "docsis-aes-128", "zuc-eea3-128", "snow3g-uea2", "chacha20", "sm4-cbc" };
                const char **CL = thorough ? CT : CQ;
                int ncl = thorough ? 12 : 4;
                for (int h = 1; h < NALGS; h++) {
                        if (ALGS[h].kind != AK_HASH || ALGS[h].lane == LM_NONE)
                                continue;
                        for (int c1 = 0; c1 < ncl; c1++)
                                for (int c2 = 0; c2 < ncl; c2++) {
                                        if (NUNITS >= 7990)
                                                break;
                                        unit_t *u = &UNITS[NUNITS];
                                        memset(u, 0, sizeof *u);
                                        u->a = alg_id(CL[c1]);
                                        u->h = h;
                                        u->dir = 1;
                                        u->a2 = alg_id(CL[c2]);
                                        u->h2 = h;
                                        u->dir2 = 0;
                                        u->mixed = 1;
                                        u->gen = 1;
                                        snprintf(u->name, sizeof u->name, "mixed:%s+%s/enc|%s+%s/dec", CL[c1], ALGS[h].name, CL[c2], ALGS[h].name);
                                        if (strstr(u->name, filter))
                                                NUNITS++;
                                }
                }
        }
        par_run((long) NUNITS * NVARIANTS, n_workers(), run_unit_variant, crashed, NULL, 900);
        rec_begin("meta");
        rec_s("rule",
              "execution = schedule (n jobs of one suite, n=1..34, then flush all) with <= k deviations (another length "
              "for job i out of {min, +1 block, long}; flush before job i; get_completed before job i), started from the "
              "pristine manager image; oracle = each job equals the same job processed alone; suites = every algorithm "
              "row with an out-of-order lane manager (both directions) + 18 chained cipher+hash suites; all 7 variants; "
              "distinct_nontrivial = schedules that ended with >= 2 jobs still in flight before the final flush");
        rec_i("suites", NUNITS);
        rec_end();
        stats_emit();
        return 0;
}
