/* C12 (scatter-gather jobs) - AES-GCM-SGL and CHACHA20-POLY1305-SGL jobs violating a documented constraint are rejected
 * untouched; the valid ones are accepted (M-fault, DESIGN.md 4/C12). The catalogue driver (c12.c) has no SGL rows, because an
 * SGL job is one step of a multi-job history (INIT, UPDATE, COMPLETE on a caller-held context) or the single-job form
 * IMB_SGL_ALL over a segment array. Here: for every variant x suite (GCM-SGL 128/192/256, CHACHA20-POLY1305-SGL) x direction x
 * sgl_state (INIT, UPDATE, COMPLETE, ALL) a valid baseline job is built (for UPDATE/COMPLETE on a context that went through
 * a valid INIT), every single-field violation that the job check documents for that state is injected, and the job is
 * submitted through the job API and as the middle job of a 3-job asynchronous burst.
 * Oracle: the job comes back INVALID_ARGS, the manager error code names the violated constraint, the descriptor, every
 * caller buffer (segments included) and the SGL context are byte-identical, and the unmutated baseline submitted afterwards
 * still completes with the result recorded before. */
#include "algs.h"

#define SEGN 3
#define SEGL 48
static IMB_MGR *m;
static struct gcm_key_data GK[3] __attribute__((aligned(64)));
static uint8_t RAWKEY[32];
static int g_v, g_suite, g_dir, g_state;
static const char *SUITE[4] = { "aes-gcm-sgl-128", "aes-gcm-sgl-192", "aes-gcm-sgl-256", "chacha20-poly1305-sgl" };
static const char *STATE[4] = { "INIT", "UPDATE", "COMPLETE", "ALL" };
static const IMB_SGL_STATE STV[4] = { IMB_SGL_INIT, IMB_SGL_UPDATE, IMB_SGL_COMPLETE, IMB_SGL_ALL };
static long long n_inj, n_valid;

static uint8_t SRC[SEGN][SEGL + 16], DST[SEGN][SEGL + 16], TAG[48], IV[16], AAD[32];
static uint8_t S_SRC[SEGN][SEGL + 16], S_DST[SEGN][SEGL + 16], S_TAG[48];
static struct IMB_SGL_IOV SEGS[SEGN], S_SEGS[SEGN];
static union {
        struct gcm_context_data g;
        struct chacha20_poly1305_context_data c;
} CTX, CTX0, S_CTX;

static int is_gcm(void) { return g_suite < 3; }

static void
viol(const char *site, const char *mut, const char *api, const char *detail, long x)
{
        char sig[220];
        snprintf(sig, sizeof sig, "C12s|%s|%s|%s|%s|%s|%d|%d", site, mut, SUITE[g_suite], VARIANTS[g_v].name, api, g_dir, g_state);
        if (!rec_sig_ok(sig, 2))
                return;
        rec_begin("viol");
        rec_s("site", site);
        rec_s("mutation", mut);
        rec_s("detail", detail);
        rec_s("alg", SUITE[g_suite]);
        rec_s("sgl_state", STATE[g_state]);
        rec_s("variant", VARIANTS[g_v].name);
        rec_s("api", api);
        rec_i("dir", g_dir);
        rec_i("x", x);
        rec_end();
}
static void
fill_bufs(void)
{
        for (int k = 0; k < SEGN; k++) {
                fill_rand(SRC[k], sizeof SRC[k], 8100 + (uint64_t) k);
                memset(DST[k], 0x3C, sizeof DST[k]);
                SEGS[k].in = SRC[k];
                SEGS[k].out = DST[k];
                SEGS[k].len = SEGL - (uint64_t) k * 7;
        }
        memset(TAG, 0x3C, sizeof TAG);
        fill_rand(IV, 16, 8200);
        fill_rand(AAD, 32, 8300);
}
static void
base_job(IMB_JOB *j, int state)
{
        memset(j, 0, sizeof *j);
        j->cipher_direction = g_dir ? IMB_DIR_ENCRYPT : IMB_DIR_DECRYPT;
        j->chain_order = g_dir ? IMB_ORDER_CIPHER_HASH : IMB_ORDER_HASH_CIPHER;
        j->sgl_state = STV[state];
        j->iv = IV;
        j->iv_len_in_bytes = 12;
        j->auth_tag_output = TAG + 16;
        j->auth_tag_output_len_in_bytes = 16;
        if (is_gcm()) {
                j->cipher_mode = IMB_CIPHER_GCM_SGL;
                j->hash_alg = IMB_AUTH_GCM_SGL;
                j->key_len_in_bytes = 16 + 8 * (uint64_t) g_suite;
                j->enc_keys = j->dec_keys = &GK[g_suite];
                j->u.GCM.aad = AAD;
                j->u.GCM.aad_len_in_bytes = 13;
                j->u.GCM.ctx = &CTX.g;
        } else {
                j->cipher_mode = IMB_CIPHER_CHACHA20_POLY1305_SGL;
                j->hash_alg = IMB_AUTH_CHACHA20_POLY1305_SGL;
                j->key_len_in_bytes = 32;
                j->enc_keys = j->dec_keys = RAWKEY;
                j->u.CHACHA20_POLY1305.aad = AAD;
                j->u.CHACHA20_POLY1305.aad_len_in_bytes = 13;
                j->u.CHACHA20_POLY1305.ctx = &CTX.c;
        }
        if (state == 3) {
                j->sgl_io_segs = SEGS;
                j->num_sgl_io_segs = SEGN;
        } else {
                j->src = SRC[0];
                j->dst = DST[0];
                j->msg_len_to_cipher_in_bytes = SEGL;
                j->msg_len_to_hash_in_bytes = SEGL;
        }
}
/* one mutation: returns 0 when it does not apply to (suite, state); errs = acceptable codes */
typedef struct {
        const char *name;
        int (*apply)(IMB_JOB *j, int state);
        int errs[3];
} mut_t;
static int
mu_key_null(IMB_JOB *j, int s)
{
        (void) s;
        if (g_dir || !is_gcm()) /* CHACHA20-POLY1305 takes its key from enc_keys in both directions */
                j->enc_keys = NULL;
        else
                j->dec_keys = NULL;
        return 1;
}
static int
mu_key_len(IMB_JOB *j, int s)
{
        (void) s;
        j->key_len_in_bytes = is_gcm() ? 20 : 16;
        return 1;
}
static int
mu_iv_null(IMB_JOB *j, int s)
{
        (void) s;
        j->iv = NULL;
        return 1;
}
static int
mu_iv_len(IMB_JOB *j, int s)
{
        (void) s;
        j->iv_len_in_bytes = is_gcm() ? 0 : 8;
        return 1;
}
static int
mu_ctx_null(IMB_JOB *j, int s)
{
        (void) s;
        if (is_gcm())
                j->u.GCM.ctx = NULL;
        else
                j->u.CHACHA20_POLY1305.ctx = NULL;
        return 1;
}
static int
mu_src_null(IMB_JOB *j, int s)
{
        if (s == 3)
                return 0;
        j->src = NULL;
        return 1;
}
static int
mu_dst_null(IMB_JOB *j, int s)
{
        if (s == 3)
                return 0;
        j->dst = NULL;
        return 1;
}
static int
mu_seg_in_null(IMB_JOB *j, int s)
{
        (void) j;
        if (s != 3)
                return 0;
        SEGS[1].in = NULL;
        return 1;
}
static int
mu_seg_out_null(IMB_JOB *j, int s)
{
        (void) j;
        if (s != 3)
                return 0;
        SEGS[2].out = NULL;
        return 1;
}
static int
mu_tag_null(IMB_JOB *j, int s)
{
        if (is_gcm() && s < 2)
                return 0; /* GCM: the tag fields are only looked at when the job finishes the message */
        j->auth_tag_output = NULL;
        return 1;
}
static int
mu_tag_len0(IMB_JOB *j, int s)
{
        if (is_gcm() && s < 2)
                return 0;
        j->auth_tag_output_len_in_bytes = 0;
        return 1;
}
static int
mu_tag_len17(IMB_JOB *j, int s)
{
        if (is_gcm() && s < 2)
                return 0;
        j->auth_tag_output_len_in_bytes = 17;
        return 1;
}
static int
mu_tag_len12(IMB_JOB *j, int s)
{
        (void) s;
        if (is_gcm())
                return 0; /* valid for GCM */
        j->auth_tag_output_len_in_bytes = 12;
        return 1;
}
static int
mu_aad_null(IMB_JOB *j, int s)
{
        if (is_gcm()) {
                if (s != 0 && s != 3)
                        return 0;
                j->u.GCM.aad = NULL;
        } else
                j->u.CHACHA20_POLY1305.aad = NULL;
        return 1;
}
static int
mu_state_bad(IMB_JOB *j, int s)
{
        (void) s;
        j->sgl_state = (IMB_SGL_STATE) 9;
        return 1;
}
static int
mu_hash_mismatch(IMB_JOB *j, int s)
{
        (void) s;
        j->hash_alg = is_gcm() ? IMB_AUTH_AES_GMAC : IMB_AUTH_CHACHA20_POLY1305;
        return 1;
}
static int
mu_cipher_mismatch(IMB_JOB *j, int s)
{
        (void) s;
        j->cipher_mode = is_gcm() ? IMB_CIPHER_GCM : IMB_CIPHER_CHACHA20_POLY1305;
        return 1;
}
static int
mu_len_over(IMB_JOB *j, int s)
{
        if (s == 3 || !is_gcm())
                return 0;
        j->msg_len_to_cipher_in_bytes = IMB_GCM_MAX_LEN + 1;
        return 1;
}
static const mut_t MUTS[] = {
        { "key=NULL", mu_key_null, { IMB_ERR_JOB_NULL_KEY } },
        { "key_len", mu_key_len, { IMB_ERR_JOB_KEY_LEN } },
        { "iv=NULL", mu_iv_null, { IMB_ERR_JOB_NULL_IV } },
        { "iv_len", mu_iv_len, { IMB_ERR_JOB_IV_LEN } },
        { "ctx=NULL", mu_ctx_null, { IMB_ERR_JOB_NULL_SGL_CTX } },
        { "src=NULL", mu_src_null, { IMB_ERR_JOB_NULL_SRC } },
        { "dst=NULL", mu_dst_null, { IMB_ERR_JOB_NULL_DST } },
        { "seg.in=NULL", mu_seg_in_null, { IMB_ERR_JOB_NULL_SRC } },
        { "seg.out=NULL", mu_seg_out_null, { IMB_ERR_JOB_NULL_DST } },
        { "tag=NULL", mu_tag_null, { IMB_ERR_JOB_NULL_AUTH } },
        { "tag_len=0", mu_tag_len0, { IMB_ERR_JOB_AUTH_TAG_LEN } },
        { "tag_len=17", mu_tag_len17, { IMB_ERR_JOB_AUTH_TAG_LEN } },
        { "tag_len=12", mu_tag_len12, { IMB_ERR_JOB_AUTH_TAG_LEN } },
        { "aad=NULL", mu_aad_null, { IMB_ERR_JOB_NULL_AAD } },
        { "sgl_state=9", mu_state_bad, { IMB_ERR_JOB_SGL_STATE } },
        { "hash_alg-mismatch", mu_hash_mismatch, { IMB_ERR_HASH_ALGO, IMB_ERR_CIPH_MODE } },
        { "cipher_mode-mismatch", mu_cipher_mismatch, { IMB_ERR_CIPH_MODE, IMB_ERR_HASH_ALGO } },
        { "len>max", mu_len_over, { IMB_ERR_JOB_CIPH_LEN } },
};
#define NMUTS ((int) (sizeof MUTS / sizeof MUTS[0]))

static void
snap(void)
{
        memcpy(S_SRC, SRC, sizeof SRC);
        memcpy(S_DST, DST, sizeof DST);
        memcpy(S_TAG, TAG, sizeof TAG);
        memcpy(S_SEGS, SEGS, sizeof SEGS);
        memcpy(&S_CTX, &CTX, sizeof CTX);
}
static int
unchanged(void)
{
        return !memcmp(S_SRC, SRC, sizeof SRC) && !memcmp(S_DST, DST, sizeof DST) && !memcmp(S_TAG, TAG, sizeof TAG) &&
               !memcmp(S_SEGS, SEGS, sizeof SEGS) && !memcmp(&S_CTX, &CTX, sizeof CTX);
}
/* put the context into the state the job of `state` expects: after a valid INIT for UPDATE / COMPLETE */
static int
prepare_ctx(int state)
{
        memset(&CTX, 0, sizeof CTX);
        if (state == 1 || state == 2) {
                fill_bufs();
                IMB_JOB *j = IMB_GET_NEXT_JOB(m);
                base_job(j, 0);
                IMB_JOB *r = IMB_SUBMIT_JOB(m);
                if (!r)
                        r = IMB_FLUSH_JOB(m);
                if (!r || r->status != IMB_STATUS_COMPLETED)
                        return 0;
        }
        memcpy(&CTX0, &CTX, sizeof CTX);
        return 1;
}
static uint8_t E_DST[SEGN][SEGL + 16], E_TAG[48];
static int
run_baseline(int record, const char *mut, const char *api)
{
        memcpy(&CTX, &CTX0, sizeof CTX);
        fill_bufs();
        IMB_JOB *j = IMB_GET_NEXT_JOB(m);
        base_job(j, g_state);
        IMB_JOB *r = IMB_SUBMIT_JOB(m);
        if (!r)
                r = IMB_FLUSH_JOB(m);
        if (!r || r->status != IMB_STATUS_COMPLETED) {
                viol(record ? "valid-job-rejected" : "later-valid-job-affected", mut, api, "valid SGL job not COMPLETED (x = status*100000+errno)",
                     r ? (long) r->status * 100000 + imb_get_errno(m) : -1);
                return 0;
        }
        if (record) {
                memcpy(E_DST, DST, sizeof DST);
                memcpy(E_TAG, TAG, sizeof TAG);
        } else if (memcmp(E_DST, DST, sizeof DST) || memcmp(E_TAG, TAG, sizeof TAG))
                viol("later-valid-job-affected", mut, api, "valid job submitted after the rejected one gave another result", 0);
        n_valid++;
        return 1;
}
static int
err_ok(const mut_t *mu, int e)
{
        for (int q = 0; q < 3; q++)
                if (mu->errs[q] && mu->errs[q] == e)
                        return 1;
        return 0;
}
static void
judge(const mut_t *mu, const IMB_JOB *desc, IMB_JOB *r, int e, const char *api)
{
        if (!r || r->user_data != (void *) 0x4321)
                viol("rejected-job-not-returned", mu->name, api, "invalid job was not handed back", 0);
        else if (r->status != IMB_STATUS_INVALID_ARGS)
                viol("invalid-job-accepted", mu->name, api, "SGL job violating a documented constraint was not rejected (x = status)", r->status);
        else {
                if (!err_ok(mu, e))
                        viol("wrong-error-code", mu->name, api, "manager error code does not name the violated constraint (x = code)", e);
                IMB_JOB d = *desc;
                d.status = r->status;
                if (memcmp(&d, r, sizeof d))
                        viol("rejected-descriptor-modified", mu->name, api, "descriptor of the rejected job was modified", 0);
        }
        if (!unchanged())
                viol("rejected-job-touched-buffer", mu->name, api, "a caller buffer, the segment array or the SGL context of the rejected job was modified", 0);
}
static void
inject(const mut_t *mu)
{
        /* job API */
        memcpy(&CTX, &CTX0, sizeof CTX);
        fill_bufs();
        IMB_JOB *j = IMB_GET_NEXT_JOB(m);
        base_job(j, g_state);
        if (!mu->apply(j, g_state))
                return;
        n_inj++;
        j->user_data = (void *) 0x4321;
        IMB_JOB desc = *j;
        snap();
        IMB_JOB *r = IMB_SUBMIT_JOB(m);
        int e = imb_get_errno(m);
        if (!r)
                r = IMB_FLUSH_JOB(m);
        judge(mu, &desc, r, e, "job");
        while (IMB_FLUSH_JOB(m))
                ;
        run_baseline(0, mu->name, "job");
        /* asynchronous burst API: a burst holding the invalid job is refused as a whole - 0 jobs returned, error code set,
         * the offending job reported in jobs[0] with INVALID_ARGS, nothing queued (SGL jobs of one context cannot share a
         * burst, so the burst has one job) */
        memcpy(&CTX, &CTX0, sizeof CTX);
        fill_bufs();
        IMB_JOB *jobs[2];
        if (IMB_GET_NEXT_BURST(m, 1, jobs) != 1) {
                viol("burst-no-slots", mu->name, "burst", "get_next_burst(1) on an empty manager", 0);
                return;
        }
        base_job(jobs[0], g_state);
        mu->apply(jobs[0], g_state);
        imb_set_session(m, jobs[0]);
        jobs[0]->user_data = (void *) 0x4321;
        IMB_JOB *bad = jobs[0];
        desc = *bad;
        snap();
        n_inj++;
        uint32_t nret = IMB_SUBMIT_BURST(m, 1, jobs);
        e = imb_get_errno(m);
        if (nret != 0 || e == 0)
                viol("burst-with-invalid-job-accepted", mu->name, "burst", "burst containing an invalid SGL job was not refused (x = jobs returned)", nret);
        else {
                if (jobs[0] != bad || bad->status != IMB_STATUS_INVALID_ARGS)
                        viol("burst-invalid-job-not-reported", mu->name, "burst", "invalid job not reported in jobs[0] with INVALID_ARGS", 0);
                if (!err_ok(mu, e) && e != IMB_ERR_BURST_SUITE_ID)
                        viol("wrong-error-code", mu->name, "burst", "manager error code does not name the violated constraint (x = code)", e);
        }
        if (!unchanged())
                viol("burst-touched-buffer", mu->name, "burst", "a buffer, the segment array or the SGL context of a refused burst was modified", 0);
        if (IMB_QUEUE_SIZE(m) != 0)
                viol("burst-partially-submitted", mu->name, "burst", "jobs of a refused burst were queued", IMB_QUEUE_SIZE(m));
        while (IMB_FLUSH_JOB(m))
                ;
        run_baseline(0, mu->name, "burst");
}
static void
run_cell(long item, void *arg)
{
        (void) arg;
        g_v = (int) (item % NVARIANTS);
        g_suite = (int) (item / NVARIANTS);
        if (!variant_usable(g_v))
                return;
        m = mgr_new(g_v);
        fill_rand(RAWKEY, 32, 61);
        IMB_AES128_GCM_PRE(m, RAWKEY, &GK[0]);
        IMB_AES192_GCM_PRE(m, RAWKEY, &GK[1]);
        IMB_AES256_GCM_PRE(m, RAWKEY, &GK[2]);
        static char ctx[64];
        snprintf(ctx, sizeof ctx, "%s/%s", VARIANTS[g_v].name, SUITE[g_suite]);
        g_tcall_ctx = ctx;
        for (g_dir = 0; g_dir < 2; g_dir++)
                for (g_state = 0; g_state < 4; g_state++) {
                        if (!prepare_ctx(g_state)) {
                                viol("valid-job-rejected", "-", "job", "valid INIT job (context preparation) not COMPLETED", imb_get_errno(m));
                                continue;
                        }
                        if (!run_baseline(1, "-", "job"))
                                continue;
                        for (int k = 0; k < NMUTS; k++)
                                inject(&MUTS[k]);
                }
        stat_add("evaluations", n_inj + n_valid);
        stat_add("distinct_nontrivial", n_inj);
        stat_add("injections", n_inj);
        stat_add("valid_jobs_accepted", n_valid);
        n_inj = n_valid = 0;
        free_mb_mgr(m);
}
static void
crashed(long item, int sig, void *arg)
{
        (void) arg;
        rec_begin("viol");
        rec_s("site", sig == 14 ? "hang" : "crash");
        rec_i("signal", sig);
        rec_s("alg", SUITE[item / NVARIANTS]);
        rec_s("variant", VARIANTS[item % NVARIANTS].name);
        rec_end();
}
int
main(void)
{
        rec_init("C12", getenv("VERIF_TIER") ? getenv("VERIF_TIER") : "quick");
        par_run(4L * NVARIANTS, n_workers(), run_cell, crashed, NULL, 600);
        rec_begin("meta");
        rec_s("rule_sgl", "case = (variant, SGL suite, direction, sgl_state INIT/UPDATE/COMPLETE/ALL, violated field); invalid job submitted through "
                          "the job API and the asynchronous burst API; oracle = INVALID_ARGS + error code naming the constraint + descriptor, buffers, "
                          "segment array and SGL context unchanged + the valid baseline afterwards gives its recorded result");
        rec_end();
        stats_emit();
        return 0;
}
