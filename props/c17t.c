/* C17 step 3 - free-running race pass: the histories of c17_prog.h on real threads, one manager per thread, library
 * C files instrumented by the thread sanitizer (build cfg tsan). The cooperative exploration of c17.c cannot see
 * unsynchronised accesses (its hand-offs order everything), so this pass runs the same bodies unserialised:
 *  - any sanitizer report whose location is not the documented process-wide error mirror (imb_errno) or the CPUID
 *    cache (written with identical values by concurrent init calls) is a violation;
 *  - every thread's per-call observations must equal the solo observations.
 * The orchestrator re-executes itself ("run" mode) with TSAN_OPTIONS pointing the reports to a log file and
 * parses the reports. Rounds: 2, 4 and 7 threads; all-different and all-equal variant assignments. */
#define C17_NO_TRAMP
#define MON(label, stmt) stmt
#define C17_SET_V(v) ((void) (v))
#include "c17_prog.h"
#include <pthread.h>
#include <unistd.h>
#include <sys/wait.h>
#include <dirent.h>

#define MAXT 7
#define ITER 40
static uint64_t SOLO[NVARIANTS][NPROG][PLEN];
static pthread_barrier_t bar;
typedef struct {
        int v, first_prog, bad_prog, bad_step;
        long long calls;
} targ_t;

static mctx_t *
ctx_new(int v)
{
        mctx_t *c = aligned_alloc(64, (sizeof *c + 63) & ~(size_t) 63);
        memset(c, 0, sizeof *c);
        c->v = v;
        c->m = alloc_mb_mgr(VARIANTS[v].flags);
        VARIANTS[v].init(c->m);
        if (c->m->imb_errno || c->m->used_arch_type != (uint32_t) VARIANTS[v].type)
                return NULL;
        c->pristine = malloc(mgr_sz);
        memcpy(c->pristine, c->m, mgr_sz);
        c->ks = keyset_new(c->m, 3);
        IMB_AES128_GCM_PRE(c->m, keyset_raw(c->ks), &c->gk);
        return c;
}
static void *
thread_main(void *p)
{
        targ_t *a = p;
        pthread_barrier_wait(&bar);
        mctx_t *c = ctx_new(a->v); /* concurrent alloc + init + key preparation */
        a->bad_prog = -1;
        if (!c) {
                a->bad_prog = -2;
                return NULL;
        }
        for (int it = 0; it < ITER; it++)
                for (int q = 0; q < NPROG; q++) {
                        int pr = (a->first_prog + q) % NPROG;
                        ctx_reset(c);
                        for (int s = 0; s < PLEN; s++) {
                                uint64_t o = step(c, &PROG[pr][s]);
                                a->calls++;
                                if (o != SOLO[a->v][pr][s] && a->bad_prog == -1) {
                                        a->bad_prog = pr;
                                        a->bad_step = s;
                                }
                        }
                }
        return NULL;
}
static int
usable(int v)
{
        IMB_MGR *m = alloc_mb_mgr(VARIANTS[v].flags);
        VARIANTS[v].init(m);
        int ok = m->imb_errno == 0 && m->used_arch_type == (uint32_t) VARIANTS[v].type;
        free_mb_mgr(m);
        return ok;
}
/* "run" mode: prints one line per round: R <threads> <assignment> <calls> <bad thread or -1> <prog> <step> */
static int
run_mode(void)
{
        mgr_sz = imb_get_mb_mgr_size();
        algs_threaded = 1;
        int us[NVARIANTS], nu = 0;
        for (int v = 0; v < NVARIANTS; v++)
                if (usable(v))
                        us[nu++] = v;
        if (!nu)
                return 3;
        for (int i = 0; i < nu; i++) {
                mctx_t *c = ctx_new(us[i]);
                for (int p = 0; p < NPROG; p++) {
                        ctx_reset(c);
                        for (int s = 0; s < PLEN; s++)
                                SOLO[us[i]][p][s] = step(c, &PROG[p][s]);
                }
        }
        static const int TN[3] = { 2, 4, 7 };
        for (int ti = 0; ti < 3; ti++)
                for (int mode = 0; mode < 2 + nu; mode++) { /* 0: rotating variants, 1: rotating, shifted; 2+k: all threads variant k */
                        int T = TN[ti];
                        pthread_t th[MAXT];
                        targ_t ta[MAXT];
                        pthread_barrier_init(&bar, NULL, (unsigned) T);
                        for (int i = 0; i < T; i++) {
                                memset(&ta[i], 0, sizeof ta[i]);
                                ta[i].v = mode < 2 ? us[(i + mode * 3) % nu] : us[mode - 2];
                                ta[i].first_prog = mode == 1 ? i % NPROG : 0; /* 0: all threads run the same program at the same time */
                                pthread_create(&th[i], NULL, thread_main, &ta[i]);
                        }
                        long long calls = 0;
                        int bad = -1;
                        for (int i = 0; i < T; i++) {
                                pthread_join(th[i], NULL);
                                calls += ta[i].calls;
                                if (ta[i].bad_prog != -1 && bad < 0)
                                        bad = i;
                        }
                        pthread_barrier_destroy(&bar);
                        printf("R %d %d %lld %d %s %d %d\n", T, mode, calls, bad, bad >= 0 ? VARIANTS[ta[bad].v].name : "-", bad >= 0 ? ta[bad].bad_prog : -1,
                               bad >= 0 ? ta[bad].bad_step : -1);
                        fflush(stdout);
                }
        return 0;
}

int
main(int argc, char **argv)
{
        if (argc > 1 && !strcmp(argv[1], "run"))
                return run_mode();
        rec_init("C17", getenv("VERIF_TIER") ? getenv("VERIF_TIER") : "quick");
        char exe[512], dir[600], logp[700], opt[1400];
        ssize_t n = readlink("/proc/self/exe", exe, sizeof exe - 1);
        if (n <= 0)
                DIE("readlink");
        exe[n] = 0;
        const char *out = getenv("VERIF_OUT");
        snprintf(dir, sizeof dir, "%s.tsan.d", out ? out : "/verif/build/out/c17t");
        snprintf(opt, sizeof opt, "rm -rf %s; mkdir -p %s", dir, dir);
        if (system(opt))
                DIE("mkdir %s", dir);
        snprintf(logp, sizeof logp, "%s/tsan", dir);
        snprintf(opt, sizeof opt, "log_path=%s exitcode=0 halt_on_error=0 history_size=4 second_deadlock_stack=0", logp);
        setenv("TSAN_OPTIONS", opt, 1);
        int po[2];
        if (pipe(po))
                DIE("pipe");
        pid_t pid = fork();
        if (pid == 0) {
                dup2(po[1], 1);
                close(po[0]);
                close(po[1]);
                execl(exe, exe, "run", (char *) NULL);
                _exit(127);
        }
        close(po[1]);
        FILE *f = fdopen(po[0], "r");
        char line[1024];
        long long calls = 0, rounds = 0;
        while (fgets(line, sizeof line, f)) {
                int T, mode, bad, prog, stp;
                long long c;
                char vn[64];
                if (sscanf(line, "R %d %d %lld %d %63s %d %d", &T, &mode, &c, &bad, vn, &prog, &stp) != 7)
                        continue;
                rounds++;
                calls += c;
                if (bad >= 0) {
                        rec_begin("viol");
                        rec_s("site", "concurrent-result-differs");
                        rec_s("alg", prog == -2 ? "init" : "history");
                        rec_s("variant", vn);
                        rec_i("threads", T);
                        rec_i("assignment", mode);
                        rec_i("program", prog);
                        rec_i("step", stp);
                        rec_s("detail", "a manager driven by its own thread observed something different from its solo run while other threads drove other managers");
                        rec_end();
                }
        }
        fclose(f);
        int st = 0;
        waitpid(pid, &st, 0);
        if (!WIFEXITED(st) || WEXITSTATUS(st) != 0) {
                rec_begin("viol");
                rec_s("site", WIFSIGNALED(st) ? "crash" : "run-failed");
                rec_s("alg", "threads");
                rec_i("signal", WIFSIGNALED(st) ? WTERMSIG(st) : 0);
                rec_i("exit", WIFEXITED(st) ? WEXITSTATUS(st) : -1);
                rec_end();
        }
        /* parse sanitizer reports */
        long long reports = 0, allowed = 0;
        DIR *d = opendir(dir);
        struct dirent *de;
        while (d && (de = readdir(d))) {
                if (strncmp(de->d_name, "tsan.", 5))
                        continue;
                char fp[1000];
                snprintf(fp, sizeof fp, "%s/%s", dir, de->d_name);
                FILE *lf = fopen(fp, "r");
                if (!lf)
                        continue;
                int in = 0, ok = 0;
                char kind[200] = "", loc[300] = "", summary[500] = "", frame0[300] = "";
                while (fgets(line, sizeof line, lf)) {
                        line[strcspn(line, "\n")] = 0;
                        if (strstr(line, "WARNING: ThreadSanitizer: data race")) {
                                in = 1;
                                ok = 0;
                                loc[0] = summary[0] = frame0[0] = 0;
                                snprintf(kind, sizeof kind, "%s", strstr(line, "ThreadSanitizer:") + 17);
                                continue;
                        }
                        if (!in)
                                continue;
                        if (strstr(line, "Location is global")) {
                                snprintf(loc, sizeof loc, "%s", strstr(line, "Location is") + 12);
                                if (strstr(line, "'imb_errno'") || strstr(line, "'cpuid_"))
                                        ok = 1;
                        } else if (strstr(line, "Location is"))
                                snprintf(loc, sizeof loc, "%s", strstr(line, "Location is") + 12);
                        if (!frame0[0] && strstr(line, "#0 "))
                                snprintf(frame0, sizeof frame0, "%s", strstr(line, "#0 ") + 3);
                        if (strstr(line, "SUMMARY: ThreadSanitizer:")) {
                                snprintf(summary, sizeof summary, "%s", strstr(line, "ThreadSanitizer:") + 17);
                                reports++;
                                if (ok)
                                        allowed++;
                                else {
                                        char sig[700];
                                        snprintf(sig, sizeof sig, "C17|tsan|%s", loc[0] ? loc : summary);
                                        if (rec_sig_ok(sig, 1)) {
                                                rec_begin("viol");
                                                rec_s("site", "data-race");
                                                rec_s("alg", "threads");
                                                rec_s("kind", kind);
                                                rec_s("location", loc);
                                                rec_s("first_frame", frame0);
                                                rec_s("summary", summary);
                                                rec_s("detail", "thread sanitizer report on library state shared between distinct managers");
                                                rec_end();
                                        }
                                }
                                in = 0;
                        }
                }
                fclose(lf);
        }
        if (d)
                closedir(d);
        stat_add("evaluations", calls);
        stat_add("distinct_nontrivial", rounds);
        stat_add("thread_rounds", rounds);
        stat_add("sanitizer_reports", reports);
        stat_add("sanitizer_reports_on_documented_globals", allowed);
        rec_begin("meta");
        rec_s("rule_threads", "free-running pass: 2/4/7 threads x (rotating variants, rotating+shifted programs, each variant on all threads), 40 iterations of all "
                              "six histories per thread, concurrent alloc/init/key preparation; thread sanitizer reports outside imb_errno / cpuid cache fail");
        rec_end();
        stats_emit();
        return 0;
}
