/* C13 - SAFE_DATA: no key or plaintext residue once no job is in flight (M-dev with residue invariant,
 * DESIGN.md 4/C13). Every caller-supplied key object (raw keys, expanded schedules, sub-keys, ipad/opad, GCM
 * tables) and every message is filled with recognisable words (index, m0, m1, m2); every library call runs on
 * a private poisoned stack with all vector/mask registers zeroed and a full register dump taken right after
 * `ret`. After EVERY call that leaves the manager empty the invariant is evaluated: no two consecutive secret
 * words (8-byte window) occur in the register dump, in the private stack, or anywhere in the manager block.
 * Schedules per suite x variant: n = 1..17 jobs of unequal lengths submitted then flushed (n below, equal to and
 * above the lane count: submit-completes and flush-completes paths, every partial occupancy), chained suites,
 * and every key-preparation helper.                                                                    */
#include "algs.h"
#include "ref_modes.h"
#include "ref_3gpp.h"
#include <sys/mman.h>

#define KEY_MAGIC 0xC3A55Au
#define MSG_MAGIC 0x9D17E3u
#define STK_SIZE (256 * 1024)
/* the differential oracle reads the GP and vector registers; the AVX512 mask registers (dump bytes 2176..2239) hold predicates
 * (lane / parity masks that can differ with one key bit), not key material - the pattern oracle still scans them */
#define DIFF_REGS_END 2176
static uint8_t *stk;  /* private stack */
static uint8_t dump[TDUMP_SIZE] __attribute__((aligned(64)));
static IMB_MGR *m;
static size_t mgr_sz;
static int g_v;
static char g_name[96];
static long long n_scans, n_calls, n_hits;
static int g_pdiag; /* C13_DIAGP=<unit>:<variant>: run that cell of the pattern pass alone and print the address of each stack hit */
void diag_ready(volatile void *p);
void diag_done(void);
static int g_lenset; /* which of the four length cycles mk() uses (quick: 0-1, thorough: 0-3) */

static uint64_t
pcall(void *fn, uint64_t a0, uint64_t a1, uint64_t a2, uint64_t a3, uint64_t a4, uint64_t a5)
{
        struct tctx t;
        memset(&t, 0, sizeof t);
        t.fn = fn;
        t.a[0] = a0;
        t.a[1] = a1;
        t.a[2] = a2;
        t.a[3] = a3;
        t.a[4] = a4;
        t.a[5] = a5;
        t.stktop = stk + STK_SIZE;
        t.dump = dump;
        t.zero_regs = 1;
        vtramp(&t);
        n_calls++;
        return t.ret;
}
/* two consecutive pattern words with the given magic at any byte alignment */
static long
find_secret(const uint8_t *p, size_t n, uint32_t magic)
{
        const uint8_t m0 = (uint8_t) (magic >> 16), m1 = (uint8_t) (magic >> 8), m2 = (uint8_t) magic;
        for (size_t i = 0; i + 8 <= n; i++)
                if (p[i + 1] == m0 && p[i + 2] == m1 && p[i + 3] == m2 && p[i + 5] == m0 && p[i + 6] == m1 && p[i + 7] == m2 &&
                    (uint8_t) (p[i] + 1) == p[i + 4])
                        return (long) i;
        return -1;
}
static void
viol(const char *where, const char *what, long off, const char *sched, int idx)
{
        char sig[220];
        snprintf(sig, sizeof sig, "C13|%s|%s|%s|%s", where, what, g_name, VARIANTS[g_v].name);
        n_hits++;
        if (!rec_sig_ok(sig, 3))
                return;
        rec_begin("viol");
        rec_s("site", "residue");
        rec_s("where", where);
        rec_s("secret", what);
        rec_s("alg", g_name);
        rec_s("variant", VARIANTS[g_v].name);
        rec_s("schedule", sched);
        rec_i("offset", off);
        rec_i("secret_word_index", idx);
        rec_end();
}
/* named derived secrets of the jobs of the current schedule (16-byte values) */
static uint8_t DER[64][16];
static const char *DERNAME[64];
static int NDER;
static void
add_derived(const uint8_t v[16], const char *name)
{
        if (NDER < 64) {
                memcpy(DER[NDER], v, 16);
                DERNAME[NDER++] = name;
        }
}
static long
find16(const uint8_t *p, size_t n, const uint8_t v[16])
{
        const uint8_t *q = memmem(p, n, v, 16);
        return q ? (long) (q - p) : -1;
}
static void
scan(const char *sched)
{
        n_scans++;
        for (int d = 0; d < NDER; d++) {
                long o;
                if ((o = find16(dump, sizeof dump, DER[d])) >= 0)
                        viol("registers", DERNAME[d], o, sched, d);
                if ((o = find16(stk, STK_SIZE, DER[d])) >= 0)
                        viol("stack", DERNAME[d], STK_SIZE - o, sched, d);
                if ((o = find16((const uint8_t *) m, mgr_sz, DER[d])) >= 0)
                        viol("manager", DERNAME[d], o, sched, d);
        }
        static const struct {
                uint32_t magic;
                const char *what;
        } S[2] = { { KEY_MAGIC, "key-material" }, { MSG_MAGIC, "plaintext" } };
        for (int s = 0; s < 2; s++) {
                long o;
                if ((o = find_secret(dump, sizeof dump, S[s].magic)) >= 0)
                        viol(o < 128 ? "gp-registers" : o < 2176 ? "vector-registers" : "mask-registers", S[s].what, o, sched, dump[o]);
                if ((o = find_secret(stk, STK_SIZE, S[s].magic)) >= 0) {
                        viol("stack", S[s].what, STK_SIZE - o, sched, stk[o]);
                        if (g_pdiag) { /* C13_DIAGP: tools/c13diag.sh -p watches this address in a second run */
                                printf("DIAGP %s: %s on stack %ld below top, addr %p (%s)\n", g_name, S[s].what, (long) STK_SIZE - o, (void *) (stk + o), sched);
                                fflush(stdout);
                                diag_done();
                        }
                }
                if ((o = find_secret((const uint8_t *) m, mgr_sz, S[s].magic)) >= 0)
                        viol("manager", S[s].what, o, sched, ((const uint8_t *) m)[o]);
        }
}

#define MAXL 400
#define NJ 18
typedef struct {
        uint8_t src[MAXL + 64], dst[MAXL + 64], tag[80], iv[32], aad[64], niv[32];
} wb_t;
static wb_t *WB;
static keyset_t *KS[2];
typedef struct {
        int a, h, dir;
        char name[72];
} unit_t;
static unit_t UNITS[300];
static int NUNITS;
static const unit_t *U;

static uint32_t
pick_len(int a, uint32_t want)
{
        const alg_t *A = &ALGS[a];
        uint32_t l = want * (A->bitlen ? 8u : 1u);
        if (l < A->minlen)
                l = A->minlen;
        while (!alg_len_ok(a, l) && l < A->maxlen)
                l++;
        return l;
}
static void
pattern_msg(uint8_t *p, size_t n, uint32_t *idx)
{
        for (size_t i = 0; i + 4 <= n; i += 4) {
                p[i] = (uint8_t) (*idx)++;
                p[i + 1] = (uint8_t) (MSG_MAGIC >> 16);
                p[i + 2] = (uint8_t) (MSG_MAGIC >> 8);
                p[i + 3] = (uint8_t) MSG_MAGIC;
        }
}
static void
mk(item_t *it, int i, int lc)
{
        static const uint32_t WANTS[4][4] = { { 64, 17, 96, 304 }, { 1, 130, 255, 399 }, { 16, 33, 200, 385 }, { 47, 128, 256, 368 } };
        const uint32_t *WANT = WANTS[g_lenset];
        wb_t *b = &WB[i];
        memset(it, 0, sizeof *it);
        it->alg = U->a ? U->a : U->h;
        it->dir = U->dir;
        it->len = pick_len(it->alg, WANT[lc]);
        it->ks = KS[i & 1];
        it->src = b->src;
        it->dst = ALGS[it->alg].inplace_only ? b->src : b->dst;
        it->iv = b->iv;
        it->aad = b->aad;
        it->aadlen = ALGS[it->alg].kind == AK_AEAD ? 13 : 0;
        it->tag = b->tag;
        it->next_iv = b->niv;
        if (ALGS[it->alg].family == F_DOCSISCRC) {
                it->hash_len = it->len + 8;
                it->cipher_off = 12;
        }
        if (U->a && U->h) {
                it->alg2 = U->h;
                uint32_t cb = item_nbytes(it);
                it->hlen = pick_len(U->h, cb);
                if ((ALGS[U->h].bitlen ? (it->hlen + 7) / 8 : it->hlen) > cb + 32)
                        it->hlen = pick_len(U->h, 9);
                it->hiv = b->aad;
                it->dst = b->src;
        }
}
static void
inputs(int i)
{
        wb_t *b = &WB[i];
        uint32_t idx = (uint32_t) i * 37;
        /* only ENCRYPT sources (and hash inputs) are plaintext; decrypt sources are ciphertext */
        if (U->dir || !U->a)
                pattern_msg(b->src, sizeof b->src, &idx);
        else
                fill_rand(b->src, sizeof b->src, 100 + (uint64_t) i);
        if (ALGS[U->a ? U->a : U->h].family == F_PON) {
                b->src[0] = 0;
                b->src[1] = 0;
        }
        fill_rand(b->iv, 32, 200 + (uint64_t) i);
        fill_rand(b->aad, 64, 300 + (uint64_t) i);
        for (int q = 17; q < 25; q++) {
                b->iv[q] &= 0x3f;
                b->aad[q] &= 0x3f;
        }
        memset(b->dst, 0, sizeof b->dst);
        memset(b->tag, 0, sizeof b->tag);
}

static void
run_unit_variant(long item, void *arg)
{
        (void) arg;
        U = &UNITS[item / NVARIANTS];
        g_v = (int) (item % NVARIANTS);
        if (!variant_usable(g_v))
                return;
        snprintf(g_name, sizeof g_name, "%s", U->name);
        m = mgr_new(g_v);
        mgr_sz = imb_get_mb_mgr_size();
        if (!(m->features & IMB_FEATURE_SAFE_DATA))
                DIE("library not built with SAFE_DATA");
        KS[0] = keyset_new(m, 20);
        KS[1] = keyset_new(m, 21);
        keyset_pattern(KS[0], KEY_MAGIC);
        keyset_pattern(KS[1], KEY_MAGIC);
        WB = calloc(NJ, sizeof *WB);
        char sched[96];
        /* decrypt of a plaintext-producing job writes plaintext to dst (caller buffer) - dst is not scanned */
        for (g_lenset = 0; g_lenset < (tier_thorough() ? 4 : 2); g_lenset++)
        for (int n = 1; n <= 17; n++) {
                memset(stk, 0xA5, STK_SIZE);
                snprintf(sched, sizeof sched, "submit %d jobs (lengths cycling 4 values), flush all", n);
                int done = 0;
                NDER = 0;
                for (int i = 0; i < n; i++) {
                        inputs(i);
                        {
                                const alg_t *A = &ALGS[U->a ? U->a : U->h];
                                const uint8_t *raw = keyset_raw(KS[i & 1]);
                                if (A->family == F_CHAPOLY && i < 2) {
                                        uint8_t z[64] = { 0 }, pk[64];
                                        ref_chacha20(raw, WB[i].iv, 0, z, pk, 64);
                                        add_derived(pk + 16, "poly1305-one-time-key(s)");
                                }
                                if (A->family == F_SNOWVAEAD && i < 2) {
                                        uint8_t hk[16], ep[16];
                                        ref_snowv_aead_hkey(raw, WB[i].iv, hk, ep);
                                        add_derived(hk, "snow-v-aead-ghash-key");
                                        add_derived(ep, "snow-v-aead-endpad");
                                }
                        }
                        IMB_JOB *j = (IMB_JOB *) pcall((void *) m->get_next_job, (uint64_t) m, 0, 0, 0, 0, 0);
                        item_t it;
                        mk(&it, i, (i + n) & 3);
                        alg_fill(m, j, &it);
                        IMB_JOB *r = (IMB_JOB *) pcall((void *) m->submit_job, (uint64_t) m, 0, 0, 0, 0, 0);
                        while (r) {
                                done++;
                                if (r->status != IMB_STATUS_COMPLETED && done < 2) {
                                        /* patterned keys never make a job invalid; report through C13 only as note */
                                }
                                r = (IMB_JOB *) pcall((void *) m->get_completed_job, (uint64_t) m, 0, 0, 0, 0, 0);
                        }
                        if (pcall((void *) m->queue_size, (uint64_t) m, 0, 0, 0, 0, 0) == 0) {
                                snprintf(sched, sizeof sched, "submit %d jobs: queue drained by submit #%d", n, i + 1);
                                scan(sched);
                        } else if (n == 2 && i == 0 && find_secret((const uint8_t *) m, mgr_sz, KEY_MAGIC) >= 0)
                                stat_add("control_key_visible_in_manager_while_job_parked", 1); /* vacuity guard */
                }
                snprintf(sched, sizeof sched, "submit %d jobs (length cycle %d), flush all", n, g_lenset);
                while (pcall((void *) m->flush_job, (uint64_t) m, 0, 0, 0, 0, 0))
                        done++;
                if (pcall((void *) m->queue_size, (uint64_t) m, 0, 0, 0, 0, 0) == 0)
                        scan(sched);
        }
        stat_add("evaluations", n_scans);
        stat_add("distinct_nontrivial", n_scans);
        stat_add("library_calls_on_private_stack", n_calls);
        stat_add("residue_hits", n_hits);
        stat_add("suite_variant_cells", 1);
        if (item % 211 == 6) {
                rec_begin("sample");
                rec_s("suite", U->name);
                rec_s("variant", VARIANTS[g_v].name);
                rec_s("schedule", "submit 5 jobs (lengths 17,96,304,64,17), flush all; scan registers + 256 KiB private stack + whole manager");
                rec_i("scans_for_this_cell", n_scans);
                rec_end();
        }
        n_scans = n_calls = n_hits = 0;
        keyset_free(KS[0]);
        keyset_free(KS[1]);
        free(WB);
        free_mb_mgr(m);
}

/* key-preparation helpers: after each helper returns no key bytes may remain in registers / stack */
static void
run_helpers(long item, void *arg)
{
        (void) arg;
        g_v = (int) item;
        if (!variant_usable(g_v))
                return;
        m = mgr_new(g_v);
        mgr_sz = imb_get_mb_mgr_size();
        static uint8_t key[64] __attribute__((aligned(64)));
        uint32_t idx = 0;
        for (size_t i = 0; i + 4 <= sizeof key; i += 4) {
                key[i] = (uint8_t) idx++;
                key[i + 1] = (uint8_t) (KEY_MAGIC >> 16);
                key[i + 2] = (uint8_t) (KEY_MAGIC >> 8);
                key[i + 3] = (uint8_t) KEY_MAGIC;
        }
        static uint8_t o1[4096] __attribute__((aligned(64))), o2[4096] __attribute__((aligned(64))), o3[256] __attribute__((aligned(64)));
        struct {
                const char *name;
                void *fn;
                uint64_t a[6];
        } H[] = {
                { "aes-keyexp-128", (void *) m->keyexp_128, { (uint64_t) key, (uint64_t) o1, (uint64_t) o2 } },
                { "aes-keyexp-192", (void *) m->keyexp_192, { (uint64_t) key, (uint64_t) o1, (uint64_t) o2 } },
                { "aes-keyexp-256", (void *) m->keyexp_256, { (uint64_t) key, (uint64_t) o1, (uint64_t) o2 } },
                { "cmac-subkey-gen-128", (void *) m->cmac_subkey_gen_128, { (uint64_t) key, (uint64_t) o1, (uint64_t) o2 } },
                { "cmac-subkey-gen-256", (void *) m->cmac_subkey_gen_256, { (uint64_t) key, (uint64_t) o1, (uint64_t) o2 } },
                { "xcbc-keyexp", (void *) m->xcbc_keyexp, { (uint64_t) key, (uint64_t) o1, (uint64_t) o2, (uint64_t) o3 } },
                { "des-keysched", (void *) m->des_key_sched, { (uint64_t) o1, (uint64_t) key } },
                { "gcm128-pre", (void *) m->gcm128_pre, { (uint64_t) key, (uint64_t) o1 } },
                { "gcm192-pre", (void *) m->gcm192_pre, { (uint64_t) key, (uint64_t) o1 } },
                { "gcm256-pre", (void *) m->gcm256_pre, { (uint64_t) key, (uint64_t) o1 } },
                { "ghash-pre", (void *) m->ghash_pre, { (uint64_t) key, (uint64_t) o1 } },
                { "snow3g-init-key-sched", (void *) m->snow3g_init_key_sched, { (uint64_t) key, (uint64_t) o1 } },
                { "kasumi-init-f8-key-sched", (void *) m->kasumi_init_f8_key_sched, { (uint64_t) key, (uint64_t) o1 } },
                { "kasumi-init-f9-key-sched", (void *) m->kasumi_init_f9_key_sched, { (uint64_t) key, (uint64_t) o1 } },
                { "sm4-keyexp", (void *) m->sm4_keyexp, { (uint64_t) key, (uint64_t) o1, (uint64_t) o2 } },
                { "hmac-ipad-opad-sha1", (void *) imb_hmac_ipad_opad, { (uint64_t) m, IMB_AUTH_HMAC_SHA_1, (uint64_t) key, 20, (uint64_t) o1, (uint64_t) o2 } },
                { "hmac-ipad-opad-sha256", (void *) imb_hmac_ipad_opad, { (uint64_t) m, IMB_AUTH_HMAC_SHA_256, (uint64_t) key, 32, (uint64_t) o1, (uint64_t) o2 } },
                { "hmac-ipad-opad-sha512", (void *) imb_hmac_ipad_opad, { (uint64_t) m, IMB_AUTH_HMAC_SHA_512, (uint64_t) key, 64, (uint64_t) o1, (uint64_t) o2 } },
                { "hmac-ipad-opad-md5", (void *) imb_hmac_ipad_opad, { (uint64_t) m, IMB_AUTH_MD5, (uint64_t) key, 16, (uint64_t) o1, (uint64_t) o2 } },
                { "hmac-ipad-opad-sha384", (void *) imb_hmac_ipad_opad, { (uint64_t) m, IMB_AUTH_HMAC_SHA_384, (uint64_t) key, 48, (uint64_t) o1, (uint64_t) o2 } },
                { "hmac-ipad-opad-sha224", (void *) imb_hmac_ipad_opad, { (uint64_t) m, IMB_AUTH_HMAC_SHA_224, (uint64_t) key, 28, (uint64_t) o1, (uint64_t) o2 } },
                { "hmac-ipad-opad-sm3", (void *) imb_hmac_ipad_opad, { (uint64_t) m, IMB_AUTH_HMAC_SM3, (uint64_t) key, 32, (uint64_t) o1, (uint64_t) o2 } },
                { "sm4-gcm-pre", (void *) imb_sm4_gcm_pre, { (uint64_t) m, (uint64_t) key, (uint64_t) o1 } },
        };
        for (unsigned h = 0; h < sizeof H / sizeof H[0]; h++) {
                if (!H[h].fn)
                        continue;
                snprintf(g_name, sizeof g_name, "helper:%s", H[h].name);
                memset(stk, 0xA5, STK_SIZE);
                memset(o1, 0x77, sizeof o1);
                memset(o2, 0x77, sizeof o2);
                memset(o3, 0x77, sizeof o3);
                pcall(H[h].fn, H[h].a[0], H[h].a[1], H[h].a[2], H[h].a[3], H[h].a[4], H[h].a[5]);
                /* helpers do not touch the manager block except through errno: scan registers and stack */
                n_scans++;
                long o;
                /* derived material = what the helper wrote to its output objects: no 16-byte chunk of it may remain */
                {
                        const uint8_t *outs[3] = { o1, o2, o3 };
                        const size_t osz[3] = { sizeof o1, sizeof o2, sizeof o3 };
                        for (int b = 0; b < 3; b++)
                                for (size_t q = 0; q + 16 <= osz[b]; q += 16) {
                                        static const uint8_t fill[16] = { 0x77, 0x77, 0x77, 0x77, 0x77, 0x77, 0x77, 0x77, 0x77, 0x77, 0x77, 0x77, 0x77, 0x77, 0x77, 0x77 };
                                        if (!memcmp(outs[b] + q, fill, 16))
                                                continue;
                                        int zeros = 0;
                                        for (int z = 0; z < 16; z++)
                                                zeros += outs[b][q + z] == 0 || outs[b][q + z] == 0x77;
                                        if (zeros > 8)
                                                continue; /* low-entropy chunk: would match cleared memory */
                                        if (find16(dump, sizeof dump, outs[b] + q) >= 0)
                                                viol("registers", "helper-output-chunk", (long) q, "single helper call", b);
                                        if (find16(stk, STK_SIZE, outs[b] + q) >= 0)
                                                viol("stack", "helper-output-chunk", (long) q, "single helper call", b);
                                }
                }
                if ((o = find_secret(dump, sizeof dump, KEY_MAGIC)) >= 0)
                        viol(o < 128 ? "gp-registers" : "vector-registers", "key-material", o, "single helper call", dump[o]);
                if ((o = find_secret(stk, STK_SIZE, KEY_MAGIC)) >= 0)
                        viol("stack", "key-material", STK_SIZE - o, "single helper call", stk[o]);
        }
        /* differential pass: the same helper call with key A and with key B (outputs at the same addresses): a 32-bit word of the
         * register dump (GP + vector part) or of the stack that differs between the two runs is derived from the key; unless it is
         * (a copy of) a word the helper wrote to its output objects - which the chunk oracle above covers - it is an intermediate
         * value (round-key temporaries, key ^ ipad blocks, hash states) that the helper should have cleared; >= 8 such bytes */
        {
                static uint8_t SA[TDUMP_SIZE + 64 * 1024], OA[sizeof o1 + sizeof o2 + sizeof o3];
                const size_t SSTK = 64 * 1024;
                for (unsigned h = 0; h < sizeof H / sizeof H[0]; h++) {
                        if (!H[h].fn)
                                continue;
                        snprintf(g_name, sizeof g_name, "helper:%s", H[h].name);
                        for (int r = 0; r < 2; r++) {
                                fill_rand(key, sizeof key, 9500 + (uint64_t) r);
                                memset(stk, 0xA5, STK_SIZE);
                                memset(o1, 0x77, sizeof o1);
                                memset(o2, 0x77, sizeof o2);
                                memset(o3, 0x77, sizeof o3);
                                pcall(H[h].fn, H[h].a[0], H[h].a[1], H[h].a[2], H[h].a[3], H[h].a[4], H[h].a[5]);
                                n_scans++;
                                if (r == 0) {
                                        memcpy(SA, dump, TDUMP_SIZE);
                                        memcpy(SA + TDUMP_SIZE, stk + STK_SIZE - SSTK, SSTK);
                                        memcpy(OA, o1, sizeof o1);
                                        memcpy(OA + sizeof o1, o2, sizeof o2);
                                        memcpy(OA + sizeof o1 + sizeof o2, o3, sizeof o3);
                                        continue;
                                }
                                for (int w = 0; w < 2; w++) {
                                        const uint8_t *cur = w ? stk + STK_SIZE - SSTK : dump;
                                        const uint8_t *old = w ? SA + TDUMP_SIZE : SA;
                                        const size_t n = w ? SSTK : DIFF_REGS_END;
                                        long cnt = 0, first = -1;
                                        for (size_t o = 0; o + 4 <= n; o += 4)
                                                if (memcmp(cur + o, old + o, 4) && !memmem(OA, sizeof OA, old + o, 4)) {
                                                        cnt += 4;
                                                        if (first < 0)
                                                                first = (long) o;
                                                }
                                        if (cnt >= 8) {
                                                char sig[220];
                                                snprintf(sig, sizeof sig, "C13|hdiff|%d|%s|%s", w, g_name, VARIANTS[g_v].name);
                                                if (!rec_sig_ok(sig, 2))
                                                        continue;
                                                rec_begin("viol");
                                                rec_s("site", "residue");
                                                rec_s("where", w ? "stack" : "registers");
                                                rec_s("secret", "key-derived-state");
                                                rec_s("alg", g_name);
                                                rec_s("variant", VARIANTS[g_v].name);
                                                rec_s("schedule", "single helper call; key A vs key B");
                                                rec_i("offset", w ? (long) SSTK - first : first);
                                                rec_i("key_derived_bytes", cnt);
                                                rec_end();
                                        }
                                }
                        }
                }
        }
        stat_add("evaluations", n_scans);
        stat_add("distinct_nontrivial", n_scans);
        stat_add("helper_calls", n_scans);
        n_scans = n_calls = n_hits = 0;
        free_mb_mgr(m);
}

/* ---------------- direct API: the same residue invariant after every direct call ---------------- */
static uint64_t
pcalln(void *fn, int nargs, const uint64_t *args)
{
        struct tctx t;
        memset(&t, 0, sizeof t);
        t.fn = fn;
        for (int i = 0; i < nargs && i < 6; i++)
                t.a[i] = args[i];
        for (int i = 6; i < nargs; i++)
                t.sargs[i - 6] = args[i];
        t.nstack = nargs > 6 ? (uint64_t) (nargs - 6) : 0;
        t.stktop = stk + STK_SIZE;
        t.dump = dump;
        t.zero_regs = 1;
        vtramp(&t);
        n_calls++;
        return t.ret;
}
static void
patn(void *p, size_t n, uint32_t magic, uint32_t *idx)
{
        uint8_t *b = p;
        for (size_t i = 0; i + 4 <= n; i += 4) {
                b[i] = (uint8_t) (*idx)++;
                b[i + 1] = (uint8_t) (magic >> 16);
                b[i + 2] = (uint8_t) (magic >> 8);
                b[i + 3] = (uint8_t) magic;
        }
}
/* direct API, differential runs (see run_diff_variant): g_dmode 0 = pattern scan, 1..3 = runs R0 (keys A, messages 0),
 * R1 (keys B, messages 0), R2 (keys A, messages 1); every call's register dump and the used top of the private stack are kept */
#define DSTK (48 * 1024)
#define DMAXC 1200
static int g_dmode, g_dcalls, g_ddiag_call = -1;
static uint8_t *g_ddiag_addr;
void diag_ready(volatile void *p);
void diag_done(void);
static uint8_t *DS[3][DMAXC], *DOUT[DMAXC];
static size_t DOUTSZ[DMAXC];
static char DNAME[DMAXC][40];
static void
dsnap(const char *nm, const void *o1, size_t n1, const void *o2, size_t n2)
{
        if (g_dcalls >= DMAXC)
                DIE("DMAXC too small");
        for (size_t i = 0; i < STK_SIZE - DSTK; i += 8)
                if (*(const uint64_t *) (stk + i) != 0xA5A5A5A5A5A5A5A5ull)
                        DIE("direct call used more than DSTK bytes of stack: %s", nm);
        uint8_t *b = malloc(TDUMP_SIZE + DSTK);
        memcpy(b, dump, TDUMP_SIZE);
        memcpy(b + TDUMP_SIZE, stk + STK_SIZE - DSTK, DSTK);
        DS[g_dmode - 1][g_dcalls] = b;
        if (g_dmode == 1) {
                snprintf(DNAME[g_dcalls], sizeof DNAME[0], "%s", nm);
                DOUT[g_dcalls] = malloc(n1 + n2);
                memcpy(DOUT[g_dcalls], o1, n1);
                memcpy(DOUT[g_dcalls] + n1, o2, n2);
                DOUTSZ[g_dcalls] = n1 + n2;
        } else if (strcmp(DNAME[g_dcalls], nm))
                DIE("direct call sequence differs between differential runs");
        g_dcalls++;
}
#define DA(x) ((uint64_t) (uintptr_t) (x))
#define DCALL(nm, f, ...)                                                                          \
        do {                                                                                       \
                snprintf(g_name, sizeof g_name, "direct:%s", nm);                                  \
                memset(stk, 0xA5, STK_SIZE);                                                       \
                if (g_dmode == 4 && g_dcalls == g_ddiag_call)                                      \
                        diag_ready(g_ddiag_addr);                                                  \
                pcalln((void *) (f), (int) (sizeof((uint64_t[]){ __VA_ARGS__ }) / 8), (uint64_t[]){ __VA_ARGS__ }); \
                n_scans++;                                                                         \
                if (g_dmode == 4) {                                                                \
                        if (g_dcalls++ == g_ddiag_call) {                                          \
                                diag_done();                                                       \
                                exit(0);                                                           \
                        }                                                                          \
                        break;                                                                     \
                }                                                                                  \
                if (g_dmode) {                                                                     \
                        dsnap(nm, out, sizeof out, tag, sizeof tag);                               \
                        break;                                                                     \
                }                                                                                  \
                long o_;                                                                           \
                if ((o_ = find_secret(dump, sizeof dump, KEY_MAGIC)) >= 0)                         \
                        viol(o_ < 128 ? "gp-registers" : o_ < 2176 ? "vector-registers" : "mask-registers", "key-material", o_, "single direct call", dump[o_]); \
                if ((o_ = find_secret(stk, STK_SIZE, KEY_MAGIC)) >= 0)                             \
                        viol("stack", "key-material", STK_SIZE - o_, "single direct call", stk[o_]); \
                if ((o_ = find_secret(dump, sizeof dump, MSG_MAGIC)) >= 0)                         \
                        viol(o_ < 128 ? "gp-registers" : o_ < 2176 ? "vector-registers" : "mask-registers", "plaintext", o_, "single direct call", dump[o_]); \
                if ((o_ = find_secret(stk, STK_SIZE, MSG_MAGIC)) >= 0)                             \
                        viol("stack", "plaintext", STK_SIZE - o_, "single direct call", stk[o_]);  \
        } while (0)
static void
direct_body(void)
{
        m = mgr_new(g_v);
        mgr_sz = imb_get_mb_mgr_size();
        static uint8_t pk[8][2048] __attribute__((aligned(64))); /* patterned key objects */
        static uint8_t pm[16][1024] __attribute__((aligned(64))); /* patterned plaintexts */
        static uint8_t out[16][1024] __attribute__((aligned(64))), iv[16][16], tag[16][16], aad[16][16];
        static struct gcm_context_data gctx;
        static struct chacha20_poly1305_context_data cctx;
        uint32_t idx = 0;
        for (int k = 0; k < 8; k++)
                if (g_dmode)
                        fill_rand(pk[k], sizeof pk[k], (g_dmode == 2 ? 9100 : 9000) + (uint64_t) k);
                else
                        patn(pk[k], sizeof pk[k], KEY_MAGIC, &idx);
        idx = 0;
        memset(out, 0, sizeof out);
        memset(tag, 0, sizeof tag);
        memset(&gctx, 0, sizeof gctx);
        memset(&cctx, 0, sizeof cctx);
        for (int k = 0; k < 16; k++) {
                if (g_dmode) {
                        fill_rand(pm[k], sizeof pm[k], 9200 + (uint64_t) k);
                        if (g_dmode == 3) /* bytewise complement: every message byte differs between R0 and R2 */
                                for (size_t q = 0; q < sizeof pm[k]; q++)
                                        pm[k][q] = (uint8_t) ~pm[k][q];
                }
                else
                        patn(pm[k], sizeof pm[k], MSG_MAGIC, &idx);
                fill_rand(iv[k], 16, 40 + (uint64_t) k);
                fill_rand(aad[k], 16, 60 + (uint64_t) k);
        }
        const void *kp[16], *ivp[16], *inp[16], *aadp[16];
        void *outp[16], *tagp[16];
        uint32_t l32[16];
        uint64_t l64[16], kiv[16];
        static const uint32_t UL[16] = { 37, 19, 64, 5, 41, 16, 33, 8, 100, 3, 77, 48, 250, 1, 129, 60 };
        for (int k = 0; k < 16; k++) {
                kp[k] = pk[k % 8];
                ivp[k] = iv[k];
                inp[k] = pm[k];
                aadp[k] = aad[k];
                outp[k] = out[k];
                tagp[k] = tag[k];
                l32[k] = UL[k];
                l64[k] = UL[k];
                memcpy(&kiv[k], iv[k], 8);
        }
        static const uint32_t LENS[] = { 1, 15, 16, 17, 64, 100, 255, 256, 257, 500, 1000 };
        void *genc[3] = { (void *) m->gcm128_enc, (void *) m->gcm192_enc, (void *) m->gcm256_enc };
        void *gdec[3] = { (void *) m->gcm128_dec, (void *) m->gcm192_dec, (void *) m->gcm256_dec };
        void *ginit[3] = { (void *) m->gcm128_init, (void *) m->gcm192_init, (void *) m->gcm256_init };
        void *gupd[3] = { (void *) m->gcm128_enc_update, (void *) m->gcm192_enc_update, (void *) m->gcm256_enc_update };
        void *gfin[3] = { (void *) m->gcm128_enc_finalize, (void *) m->gcm192_enc_finalize, (void *) m->gcm256_enc_finalize };
        void *minit[3] = { (void *) m->gmac128_init, (void *) m->gmac192_init, (void *) m->gmac256_init };
        void *mupd[3] = { (void *) m->gmac128_update, (void *) m->gmac192_update, (void *) m->gmac256_update };
        void *mfin[3] = { (void *) m->gmac128_finalize, (void *) m->gmac192_finalize, (void *) m->gmac256_finalize };
        for (unsigned li = 0; li < sizeof LENS / sizeof LENS[0]; li++) {
                uint32_t l = LENS[li];
                for (int k = 0; k < 3; k++) {
                        DCALL("gcm-enc", genc[k], DA(pk[0]), DA(&gctx), DA(out[0]), DA(pm[0]), l, DA(iv[0]), DA(aad[0]), 13, DA(tag[0]), 16);
                        DCALL("gcm-dec", gdec[k], DA(pk[0]), DA(&gctx), DA(out[1]), DA(out[0]), l, DA(iv[0]), DA(aad[0]), 13, DA(tag[1]), 16);
                        DCALL("gcm-init", ginit[k], DA(pk[0]), DA(&gctx), DA(iv[0]), DA(aad[0]), 13);
                        DCALL("gcm-enc-update", gupd[k], DA(pk[0]), DA(&gctx), DA(out[0]), DA(pm[0]), l / 2 + 1);
                        DCALL("gcm-enc-update", gupd[k], DA(pk[0]), DA(&gctx), DA(out[0] + l / 2 + 1), DA(pm[0] + l / 2 + 1), l - l / 2);
                        DCALL("gcm-enc-finalize", gfin[k], DA(pk[0]), DA(&gctx), DA(tag[0]), 16);
                        DCALL("gmac-init", minit[k], DA(pk[0]), DA(&gctx), DA(iv[0]), 12);
                        DCALL("gmac-update", mupd[k], DA(pk[0]), DA(&gctx), DA(aad[0]), 13);
                        DCALL("gmac-finalize", mfin[k], DA(pk[0]), DA(&gctx), DA(tag[0]), 16);
                }
                DCALL("ghash", m->ghash, DA(pk[0]), DA(out[0]), l, DA(tag[0]), 16);
                DCALL("chacha20-poly1305-init", m->chacha20_poly1305_init, DA(pk[0]), DA(&cctx), DA(iv[0]), DA(aad[0]), 13);
                DCALL("chacha20-poly1305-enc-update", m->chacha20_poly1305_enc_update, DA(pk[0]), DA(&cctx), DA(out[0]), DA(pm[0]), l);
                DCALL("chacha20-poly1305-finalize", m->chacha20_poly1305_finalize, DA(&cctx), DA(tag[0]), 16);
                DCALL("chacha20-poly1305-init", m->chacha20_poly1305_init, DA(pk[0]), DA(&cctx), DA(iv[0]), DA(aad[0]), 13);
                DCALL("chacha20-poly1305-dec-update", m->chacha20_poly1305_dec_update, DA(pk[0]), DA(&cctx), DA(out[2]), DA(out[0]), l); /* plaintext comes out */
                DCALL("chacha20-poly1305-finalize", m->chacha20_poly1305_finalize, DA(&cctx), DA(tag[1]), 16);
                DCALL("zuc-eea3-1-buffer", m->eea3_1_buffer, DA(pk[0]), DA(iv[0]), DA(pm[0]), DA(out[0]), l);
                DCALL("zuc-eea3-1-buffer(decrypt)", m->eea3_1_buffer, DA(pk[0]), DA(iv[0]), DA(out[0]), DA(out[2]), l);
                DCALL("zuc-eia3-1-buffer", m->eia3_1_buffer, DA(pk[0]), DA(iv[0]), DA(out[1]), l * 8 - 3, DA(tag[0]));
                DCALL("snow3g-f8-1-buffer", m->snow3g_f8_1_buffer, DA(pk[0]), DA(iv[0]), DA(pm[0]), DA(out[0]), l);
                DCALL("snow3g-f8-1-buffer(decrypt)", m->snow3g_f8_1_buffer, DA(pk[0]), DA(iv[0]), DA(out[0]), DA(out[2]), l);
                DCALL("snow3g-f8-1-buffer-bit", m->snow3g_f8_1_buffer_bit, DA(pk[0]), DA(iv[0]), DA(pm[0]), DA(out[0]), l * 8 - 3, 5);
                DCALL("snow3g-f9-1-buffer", m->snow3g_f9_1_buffer, DA(pk[0]), DA(iv[0]), DA(out[1]), l * 8 - 3, DA(tag[0]));
                DCALL("kasumi-f8-1-buffer", m->f8_1_buffer, DA(pk[0]), kiv[0], DA(pm[0]), DA(out[0]), l);
                DCALL("kasumi-f8-1-buffer(decrypt)", m->f8_1_buffer, DA(pk[0]), kiv[0], DA(out[0]), DA(out[2]), l);
                DCALL("kasumi-f8-1-buffer-bit", m->f8_1_buffer_bit, DA(pk[0]), kiv[0], DA(pm[0]), DA(out[0]), l * 8 - 3, 5);
                DCALL("kasumi-f9-1-buffer", m->f9_1_buffer, DA(pk[0]), DA(out[1]), l + 9, DA(tag[0]));
                DCALL("kasumi-f9-1-buffer-user", m->f9_1_buffer_user, DA(pk[0]), kiv[0], DA(out[1]), l * 8 - 3, DA(tag[0]), 1);
        }
        for (uint32_t l = 1; l <= 16; l++) {
                DCALL("aes128-cfb-one", m->aes128_cfb_one, DA(out[0]), DA(pm[0]), DA(iv[0]), DA(pk[0]), l);
                DCALL("aes256-cfb-one", m->aes256_cfb_one, DA(out[0]), DA(pm[0]), DA(iv[0]), DA(pk[0]), l);
                if (l <= 8)
                        DCALL("des-cfb-one", des_cfb_one, DA(out[0]), DA(pm[0]), DA(iv[0]), DA(pk[0]), l);
        }
        /* multi-buffer direct functions: unequal lengths */
        DCALL("zuc-eea3-4-buffer", m->eea3_4_buffer, DA(kp), DA(ivp), DA(inp), DA(outp), DA(l32));
        for (int n = 1; n <= 16; n += (n < 4 ? 1 : 3)) {
                DCALL("zuc-eea3-n-buffer", m->eea3_n_buffer, DA(kp), DA(ivp), DA(inp), DA(outp), DA(l32), (uint64_t) n);
                DCALL("zuc-eia3-n-buffer", m->eia3_n_buffer, DA(kp), DA(ivp), DA(outp), DA(l32), DA(tagp), (uint64_t) n);
                DCALL("snow3g-f8-n-buffer", m->snow3g_f8_n_buffer, DA(pk[0]), DA(ivp), DA(inp), DA(outp), DA(l32), (uint64_t) n);
                DCALL("snow3g-f8-n-buffer-multikey", m->snow3g_f8_n_buffer_multikey, DA(kp), DA(ivp), DA(inp), DA(outp), DA(l32), (uint64_t) n);
                DCALL("kasumi-f8-n-buffer", m->f8_n_buffer, DA(pk[0]), DA(kiv), DA(inp), DA(outp), DA(l32), (uint64_t) n);
        }
        DCALL("snow3g-f8-2-buffer", m->snow3g_f8_2_buffer, DA(pk[0]), DA(iv[0]), DA(iv[1]), DA(pm[0]), DA(out[0]), 37, DA(pm[1]), DA(out[1]), 19);
        DCALL("snow3g-f8-4-buffer", m->snow3g_f8_4_buffer, DA(pk[0]), DA(iv[0]), DA(iv[1]), DA(iv[2]), DA(iv[3]), DA(pm[0]), DA(out[0]), 37, DA(pm[1]), DA(out[1]), 19,
              DA(pm[2]), DA(out[2]), 64, DA(pm[3]), DA(out[3]), 5);
        DCALL("snow3g-f8-8-buffer", m->snow3g_f8_8_buffer, DA(pk[0]), DA(iv[0]), DA(iv[1]), DA(iv[2]), DA(iv[3]), DA(iv[4]), DA(iv[5]), DA(iv[6]), DA(iv[7]), DA(pm[0]),
              DA(out[0]), 37, DA(pm[1]), DA(out[1]), 19, DA(pm[2]), DA(out[2]), 64, DA(pm[3]), DA(out[3]), 5, DA(pm[4]), DA(out[4]), 41, DA(pm[5]), DA(out[5]), 16,
              DA(pm[6]), DA(out[6]), 33, DA(pm[7]), DA(out[7]), 8);
        DCALL("snow3g-f8-8-buffer-multikey", m->snow3g_f8_8_buffer_multikey, DA(kp), DA(ivp), DA(inp), DA(outp), DA(l32));
        DCALL("kasumi-f8-2-buffer", m->f8_2_buffer, DA(pk[0]), kiv[0], kiv[1], DA(pm[0]), DA(out[0]), 37, DA(pm[1]), DA(out[1]), 19);
        DCALL("kasumi-f8-3-buffer", m->f8_3_buffer, DA(pk[0]), kiv[0], kiv[1], kiv[2], DA(pm[0]), DA(out[0]), DA(pm[1]), DA(out[1]), DA(pm[2]), DA(out[2]), 37);
        DCALL("kasumi-f8-4-buffer", m->f8_4_buffer, DA(pk[0]), kiv[0], kiv[1], kiv[2], kiv[3], DA(pm[0]), DA(out[0]), DA(pm[1]), DA(out[1]), DA(pm[2]), DA(out[2]),
              DA(pm[3]), DA(out[3]), 37);
        for (int n = 1; n <= 9; n += 4) {
                DCALL("quic-aes-gcm", imb_quic_aes_gcm, DA(m), DA(pk[0]), 16, IMB_DIR_ENCRYPT, DA(outp), DA(inp), DA(l64), DA(ivp), DA(aadp), 11, DA(tagp), 16, (uint64_t) n);
                DCALL("quic-aes-gcm-256", imb_quic_aes_gcm, DA(m), DA(pk[0]), 32, IMB_DIR_ENCRYPT, DA(outp), DA(inp), DA(l64), DA(ivp), DA(aadp), 11, DA(tagp), 16, (uint64_t) n);
                DCALL("quic-chacha20-poly1305", imb_quic_chacha20_poly1305, DA(m), DA(pk[0]), IMB_DIR_ENCRYPT, DA(outp), DA(inp), DA(l64), DA(ivp), DA(aadp), 9, DA(tagp), (uint64_t) n);
                DCALL("quic-hp-aes-ecb", imb_quic_hp_aes_ecb, DA(m), DA(pk[0]), DA(outp), DA(ivp), (uint64_t) n, 16);
                DCALL("quic-hp-chacha20", imb_quic_hp_chacha20, DA(m), DA(pk[0]), DA(outp), DA(ivp), (uint64_t) n);
        }
        stat_add("evaluations", n_scans);
        stat_add("distinct_nontrivial", n_scans);
        stat_add(g_dmode ? "direct_calls_differential_runs" : "direct_calls", n_scans);
        n_scans = n_calls = n_hits = 0;
        free_mb_mgr(m);
}
static void
run_direct(long item, void *arg)
{
        (void) arg;
        g_v = (int) item;
        if (!variant_usable(g_v))
                return;
        g_dmode = 0;
        direct_body();
        int nc = 0;
        for (g_dmode = 1; g_dmode <= 3; g_dmode++) {
                g_dcalls = 0;
                direct_body();
                if (g_dmode > 1 && g_dcalls != nc)
                        DIE("direct call count differs between differential runs");
                nc = g_dcalls;
        }
        g_dmode = 0;
        for (int c = 0; c < nc; c++) {
                static const char *W[2] = { "registers", "stack" };
                const size_t lo[3] = { 0, TDUMP_SIZE, TDUMP_SIZE + DSTK };
                for (int w = 0; w < 2; w++) {
                        long cnt = 0, first = -1;
                        for (size_t o = lo[w]; o + 4 <= (w == 0 ? DIFF_REGS_END : lo[w + 1]); o += 4)
                                if (memcmp(DS[0][c] + o, DS[1][c] + o, 4) && !memcmp(DS[0][c] + o, DS[2][c] + o, 4) &&
                                    !memmem(DOUT[c], DOUTSZ[c], DS[0][c] + o, 4)) { /* not (a copy of) what the call returned to its caller */
                                        cnt += 4;
                                        if (first < 0)
                                                first = (long) (o - lo[w]);
                                }
                        if (cnt >= 8) {
                                snprintf(g_name, sizeof g_name, "direct:%s", DNAME[c]);
                                char sig[220];
                                snprintf(sig, sizeof sig, "C13|ddiff|%s|%s|%s", W[w], g_name, VARIANTS[g_v].name);
                                if (c == g_ddiag_call && w == 1) {
                                        g_ddiag_addr = stk + STK_SIZE - DSTK + first;
                                        printf("DIAG %s call %d: first key-derived stack word %ld below top, %ld bytes: ", g_name, c, (long) DSTK - first, cnt);
                                        for (int q = 0; q < 32; q++)
                                                printf("%02x", DS[0][c][lo[1] + (size_t) first + (size_t) q]);
                                        printf("\n");
                                        fflush(stdout);
                                        g_dmode = 4;
                                        g_dcalls = 0;
                                        direct_body();
                                }
                                if (!rec_sig_ok(sig, 2))
                                        continue;
                                rec_begin("viol");
                                rec_s("site", "residue");
                                rec_s("where", W[w]);
                                rec_s("secret", "key-derived-state");
                                rec_s("alg", g_name);
                                rec_s("variant", VARIANTS[g_v].name);
                                rec_s("schedule", "single direct call; three-run differential");
                                rec_i("offset", w ? (long) DSTK - first : first);
                                rec_i("key_derived_bytes", cnt);
                                rec_i("call_index", c);
                                rec_end();
                        }
                }
                for (int r = 0; r < 3; r++)
                        free(DS[r][c]);
                free(DOUT[c]);
        }
        stat_add("direct_call_differential_triples", nc);
}
/* ---------------- derived key material: three-run differential (key A / key B / key A with other messages) ----------------
 * Keys, sub-keys and schedules are caught by the pattern scan above; state DERIVED from them (stream-cipher LFSR/FSM
 * rows, keystream words, E_K(counter), hash key powers ...) has no recognisable pattern. It is found differentially:
 * the same schedule runs three times from the same pristine manager image with the key objects, IVs, AAD and every
 * buffer at the same addresses - R0 = (keys A, messages 0), R1 = (keys B, messages 0), R2 = (keys A, messages 1).
 * A 32-bit word of the manager block / register dump / private stack that at quiescence DIFFERS between R0 and R1 and
 * is EQUAL in R0 and R2 is a function of the key (and public IV / lengths) alone: key-derived material. Everything
 * legitimately key dependent that survives a job (last ciphertext block kept as a lane IV, tag state, the garbage a
 * flush computes in padded lanes) also depends on the message and is excluded by the R2 comparison. Reported when at
 * least two such words (8 bytes) remain.                                                                       */
static uint8_t KMEM[2][1 << 16] __attribute__((aligned(64)));
static int g_msgseed;
static void
inputs_diff(int i)
{
        wb_t *b = &WB[i];
        fill_rand(b->src, sizeof b->src, 100 + (uint64_t) i);
        if (g_msgseed) /* "messages 1" = bytewise complement of "messages 0": every byte of every message differs */
                for (size_t q = 0; q < sizeof b->src; q++)
                        b->src[q] = (uint8_t) ~b->src[q];
        if (ALGS[U->a ? U->a : U->h].family == F_PON) {
                b->src[0] = 0;
                b->src[1] = 0;
        }
        fill_rand(b->iv, 32, 200 + (uint64_t) i);
        fill_rand(b->aad, 64, 300 + (uint64_t) i);
        for (int q = 17; q < 25; q++) {
                b->iv[q] &= 0x3f;
                b->aad[q] &= 0x3f;
        }
        memset(b->dst, 0, sizeof b->dst);
        memset(b->tag, 0, sizeof b->tag);
        memset(b->niv, 0, sizeof b->niv);
}
/* register dump right after every submit / get_completed / flush call of the current run, and whether the queue was empty then */
#define DMAXCALLS 96
static uint8_t CDUMP[3][DMAXCALLS][TDUMP_SIZE];
static uint8_t CEMPTY[3][DMAXCALLS];
static int g_run, g_ncalls, g_midflush;
static uint64_t
dcall(void *fn)
{
        const uint64_t r = pcall(fn, (uint64_t) m, 0, 0, 0, 0, 0);
        if (g_ncalls < DMAXCALLS) {
                memcpy(CDUMP[g_run][g_ncalls], dump, TDUMP_SIZE);
                CEMPTY[g_run][g_ncalls] = IMB_QUEUE_SIZE(m) == 0; /* plain call: the dump is already saved */
                g_ncalls++;
        }
        return r;
}
static int
diff_sched(int n)
{
        int done = 0;
        g_ncalls = 0;
        for (int i = 0; i < n; i++) {
                inputs_diff(i);
                IMB_JOB *j = (IMB_JOB *) pcall((void *) m->get_next_job, (uint64_t) m, 0, 0, 0, 0, 0);
                item_t it;
                mk(&it, i, (i + n) & 3);
                alg_fill(m, j, &it);
                IMB_JOB *r = (IMB_JOB *) dcall((void *) m->submit_job);
                while (r) {
                        done++;
                        r = (IMB_JOB *) dcall((void *) m->get_completed_job);
                }
                if (g_midflush && i + 1 == (n + 1) / 2) /* thorough: drain the managers half way, the second half starts on used lanes */
                        while (dcall((void *) m->flush_job))
                                done++;
        }
        while (dcall((void *) m->flush_job))
                done++;
        return done == n && pcall((void *) m->queue_size, (uint64_t) m, 0, 0, 0, 0, 0) == 0;
}
/* which out-of-order manager (pointer field of IMB_MGR pointing into the block) holds offset o */
static void
locate(size_t o, long *field_off, long *rel)
{
        const uint8_t *base = (const uint8_t *) m;
        const uint8_t *best = base;
        *field_off = -1;
        for (size_t f = 0; f + 8 <= sizeof(IMB_MGR); f += 8) {
                const uint8_t *p;
                memcpy(&p, base + f, 8);
                if (p > base + sizeof(IMB_MGR) - 1 && p < base + mgr_sz && p <= base + o && p > best) {
                        best = p;
                        *field_off = (long) f;
                }
        }
        *rel = (long) (base + o - best);
}
/* diagnosis aid (tools/c13diag.sh): C13_DIAG="<unit>:<variant>:<n>:<where>" runs one differential cell, then re-runs R0 with
 * diag_ready(address of the first key-derived word) / diag_done() bracketing it so a debugger watchpoint names the writer */
__attribute__((noinline)) void
diag_ready(volatile void *p)
{
        __asm__ volatile("" ::"r"(p) : "memory");
}
__attribute__((noinline)) void
diag_done(void)
{
        __asm__ volatile("" ::: "memory");
}
static int g_diag_n, g_diag_w = -1;
static void
run_diff_variant(long item, void *arg)
{
        (void) arg;
        U = &UNITS[item / NVARIANTS];
        g_v = (int) (item % NVARIANTS);
        if (!variant_usable(g_v))
                return;
        snprintf(g_name, sizeof g_name, "%s", U->name);
        m = mgr_new(g_v);
        mgr_sz = imb_get_mb_mgr_size();
        if (keyset_size() > sizeof KMEM[0])
                DIE("KMEM too small");
        WB = calloc(NJ, sizeof *WB);
        uint8_t *pristine = malloc(mgr_sz);
        memcpy(pristine, m, mgr_sz);
        const size_t SNAP = mgr_sz + sizeof dump + STK_SIZE;
        uint8_t *S[3];
        for (int r = 0; r < 3; r++)
                S[r] = malloc(SNAP);
        char sched[96];
        for (g_midflush = 0; g_midflush < (tier_thorough() ? 2 : 1); g_midflush++)
        for (g_lenset = 0; g_lenset < (tier_thorough() ? 4 : 2); g_lenset++)
        for (int n = g_diag_n ? g_diag_n : (g_midflush ? 3 : 1); n <= (g_diag_n ? g_diag_n : 17); n++) {
                int ok = 1;
                for (int r = 0; r < 3; r++) {
                        const int kid = r == 1 ? 22 : 20;
                        KS[0] = keyset_new_at(m, kid, KMEM[0]);
                        KS[1] = keyset_new_at(m, kid + 1, KMEM[1]);
                        g_msgseed = r == 2 ? 7000 : 0;
                        g_run = r;
                        memcpy(m, pristine, mgr_sz);
                        memset(stk, 0xA5, STK_SIZE);
                        ok &= diff_sched(n);
                        memcpy(S[r], m, mgr_sz);
                        memcpy(S[r] + mgr_sz, dump, sizeof dump);
                        memcpy(S[r] + mgr_sz + sizeof dump, stk, STK_SIZE);
                        keyset_free(KS[0]);
                        keyset_free(KS[1]);
                }
                n_scans++;
                if (!ok)
                        continue; /* completion itself is C05's business */
                snprintf(sched, sizeof sched, "submit %d jobs (length cycle %d)%s, flush all; three-run differential", n, g_lenset, g_midflush ? ", flush after the first half" : "");
                /* registers right after every call that left the queue empty (the snapshot below only has the last call's) */
                for (int c = 0; c < g_ncalls; c++) {
                        if (!CEMPTY[0][c] || !CEMPTY[1][c] || !CEMPTY[2][c])
                                continue;
                        long cnt = 0, first = -1;
                        for (size_t o = 0; o + 4 <= DIFF_REGS_END; o += 4)
                                if (memcmp(CDUMP[0][c] + o, CDUMP[1][c] + o, 4) && !memcmp(CDUMP[0][c] + o, CDUMP[2][c] + o, 4)) {
                                        cnt += 4;
                                        if (first < 0)
                                                first = (long) o;
                                }
                        if (cnt >= 8 && g_diag_w == 1) {
                                printf("DIAG %s call %d of %d: register dump offset %ld, %ld bytes\n", g_name, c, g_ncalls, first, cnt);
                                for (int r = 0; r < 3; r++) {
                                        printf("  R%d: ", r);
                                        for (int q = 0; q < 32; q++)
                                                printf("%02x%s", CDUMP[r][c][first + q], (q & 7) == 7 ? " " : "");
                                        printf("\n");
                                }
                                exit(0);
                        }
                        if (cnt >= 8) {
                                char sig[220];
                                snprintf(sig, sizeof sig, "C13|diff|regs-call|%s|%s", g_name, VARIANTS[g_v].name);
                                n_hits++;
                                if (!rec_sig_ok(sig, 2))
                                        continue;
                                rec_begin("viol");
                                rec_s("site", "residue");
                                rec_s("where", "registers");
                                rec_s("secret", "key-derived-state");
                                rec_s("alg", g_name);
                                rec_s("variant", VARIANTS[g_v].name);
                                rec_s("schedule", sched);
                                rec_i("offset", first);
                                rec_i("key_derived_bytes", cnt);
                                rec_i("call_index", c);
                                rec_end();
                        }
                }
                static const struct {
                        const char *where;
                } W[3] = { { "manager" }, { "registers" }, { "stack" } };
                const size_t lo[4] = { 0, mgr_sz, mgr_sz + sizeof dump, SNAP };
                for (int w = 0; w < 3; w++) {
                        long cnt = 0, first = -1;
                        for (size_t o = lo[w]; o + 4 <= (w == 1 ? lo[w] + DIFF_REGS_END : lo[w + 1]); o += 4)
                                if (memcmp(S[0] + o, S[1] + o, 4) && !memcmp(S[0] + o, S[2] + o, 4)) {
                                        cnt += 4;
                                        if (first < 0)
                                                first = (long) (o - lo[w]);
                                }
                        if (cnt >= 8 && g_diag_w == w) {
                                uint8_t *p = w == 0 ? (uint8_t *) m + first : w == 2 ? stk + first : dump + first;
                                printf("DIAG %s first key-derived word at %s offset %ld (stack: %ld below top) addr %p bytes %ld: ", g_name, W[w].where, first,
                                       (long) STK_SIZE - first, (void *) p, cnt);
                                for (int r = 0; r < 3; r++) {
                                        printf("\n  R%d @-32: ", r);
                                        for (int q = -32; q < 64; q++)
                                                printf("%02x%s", S[r][lo[w] + (size_t) (first + q)], (q & 3) == 3 ? " " : "");
                                }
                                printf("\n");
                                fflush(stdout);
                                KS[0] = keyset_new_at(m, 20, KMEM[0]);
                                KS[1] = keyset_new_at(m, 21, KMEM[1]);
                                g_msgseed = 0;
                                memcpy(m, pristine, mgr_sz);
                                memset(stk, 0xA5, STK_SIZE);
                                diag_ready(p);
                                diff_sched(n);
                                diag_done();
                                exit(0);
                        }
                        if (cnt >= 8) {
                                char sig[220];
                                snprintf(sig, sizeof sig, "C13|diff|%s|%s|%s", W[w].where, g_name, VARIANTS[g_v].name);
                                n_hits++;
                                if (!rec_sig_ok(sig, 2))
                                        continue;
                                rec_begin("viol");
                                rec_s("site", "residue");
                                rec_s("where", W[w].where);
                                rec_s("secret", "key-derived-state");
                                rec_s("alg", g_name);
                                rec_s("variant", VARIANTS[g_v].name);
                                rec_s("schedule", sched);
                                rec_i("offset", first);
                                rec_i("key_derived_bytes", cnt);
                                if (w == 0) {
                                        long f, rel;
                                        locate((size_t) first, &f, &rel);
                                        rec_i("ooo_pointer_field_offset_in_IMB_MGR", f);
                                        rec_i("offset_in_ooo_manager", rel);
                                }
                                rec_end();
                        }
                }
        }
        stat_add("evaluations", n_scans);
        stat_add("distinct_nontrivial", n_scans);
        stat_add("differential_triples", n_scans);
        stat_add("library_calls_on_private_stack", n_calls);
        stat_add("residue_hits", n_hits);
        n_scans = n_calls = n_hits = 0;
        for (int r = 0; r < 3; r++)
                free(S[r]);
        free(pristine);
        free(WB);
        free_mb_mgr(m);
}
static void
crashed(long item, int sig, void *arg)
{
        rec_begin("viol");
        rec_s("site", sig == 14 ? "hang" : "crash");
        rec_i("signal", sig);
        rec_s("alg", arg == (void *) 2 ? "direct-api" : arg ? "key-helper" : UNITS[item / NVARIANTS].name);
        rec_s("variant", VARIANTS[arg ? item : item % NVARIANTS].name);
        rec_end();
}

static const struct {
        const char *c, *h;
        int dir;
} CH[] = { { "aes-cbc-128", "hmac-sha1", 1 },   { "aes-cbc-256", "hmac-sha512", 1 }, { "aes-ctr-128", "hmac-sha256", 1 },
           { "aes-cbc-192", "aes-xcbc", 1 },    { "aes-cbc-128", "aes-cmac-128", 1 }, { "des-cbc", "hmac-md5", 1 },
           { "zuc-eea3-128", "zuc-eia3-128", 1 }, { "snow3g-uea2", "snow3g-uia2", 1 }, { "aes-cbc-128", "hmac-sha1", 0 },
           { "3des-cbc", "hmac-sha224", 1 },    { "aes-cfb-128", "hmac-sha384", 1 }, { "kasumi-f8", "kasumi-f9", 1 } };

int
main(void)
{
        rec_init("C13", getenv("VERIF_TIER") ? getenv("VERIF_TIER") : "quick");
        const char *diag = getenv("C13_DIAG");
        stk = mmap(0, STK_SIZE + 8192, PROT_READ | PROT_WRITE, MAP_PRIVATE | MAP_ANONYMOUS, -1, 0);
        stk += 4096;
        region_t R = region_new(1);
        alg_set_poison(R.base - 2048);
        for (int a = 1; a < NALGS; a++) {
                const alg_t *A = &ALGS[a];
                for (int d = 1; d >= 0; d--) {
                        if (A->kind == AK_HASH && d == 0)
                                continue;
                        unit_t *u = &UNITS[NUNITS++];
                        u->a = A->kind == AK_HASH ? 0 : a;
                        u->h = A->kind == AK_HASH ? a : 0;
                        u->dir = d;
                        snprintf(u->name, sizeof u->name, "%s%s", A->name, A->kind == AK_HASH ? "" : d ? "/enc" : "/dec");
                }
        }
        for (unsigned c = 0; c < sizeof CH / sizeof CH[0]; c++) {
                unit_t *u = &UNITS[NUNITS++];
                u->a = alg_id(CH[c].c);
                u->h = alg_id(CH[c].h);
                u->dir = CH[c].dir;
                snprintf(u->name, sizeof u->name, "%s+%s/%s", CH[c].c, CH[c].h, u->dir ? "enc" : "dec");
        }
        if (getenv("C13_DIAGH")) { /* C13_DIAGH=<variant>: the helper passes of one variant, in this process (for a debugger) */
                for (int v = 0; v < NVARIANTS; v++)
                        if (!strcmp(VARIANTS[v].name, getenv("C13_DIAGH")))
                                run_helpers(v, NULL);
                return 0;
        }
        if (getenv("C13_DIAGP")) {
                char un[96], vn[32];
                if (sscanf(getenv("C13_DIAGP"), "%95[^:]:%31s", un, vn) != 2)
                        DIE("C13_DIAGP=<unit>:<variant>");
                g_pdiag = 1;
                for (int u = 0; u < NUNITS; u++)
                        for (int v = 0; v < NVARIANTS; v++)
                                if (!strcmp(UNITS[u].name, un) && !strcmp(VARIANTS[v].name, vn))
                                        run_unit_variant((long) u * NVARIANTS + v, NULL);
                return 0;
        }
        if (diag) {
                char un[96], vn[32], wn[32];
                if (!strncmp(diag, "direct:", 7)) { /* C13_DIAG=direct:<variant>:<call_index> */
                        if (sscanf(diag + 7, "%31[^:]:%d", vn, &g_ddiag_call) != 2)
                                DIE("C13_DIAG=direct:<variant>:<call_index>");
                        for (int v = 0; v < NVARIANTS; v++)
                                if (!strcmp(VARIANTS[v].name, vn))
                                        run_direct(v, NULL);
                        return 0;
                }
                if (sscanf(diag, "%95[^:]:%31[^:]:%d:%31s", un, vn, &g_diag_n, wn) != 4)
                        DIE("C13_DIAG=<unit>:<variant>:<n>:<manager|registers|stack>");
                g_diag_w = !strcmp(wn, "manager") ? 0 : !strcmp(wn, "registers") ? 1 : 2;
                for (int u = 0; u < NUNITS; u++)
                        for (int v = 0; v < NVARIANTS; v++)
                                if (!strcmp(UNITS[u].name, un) && !strcmp(VARIANTS[v].name, vn))
                                        run_diff_variant((long) u * NVARIANTS + v, NULL);
                printf("DIAG: nothing key-derived in that cell\n");
                return 0;
        }
        par_run((long) NUNITS * NVARIANTS, n_workers(), run_unit_variant, crashed, NULL, 600);
        par_run((long) NUNITS * NVARIANTS, n_workers(), run_diff_variant, crashed, NULL, 600);
        par_run(NVARIANTS, n_workers(), run_helpers, crashed, (void *) 1, 600);
        par_run(NVARIANTS, n_workers(), run_direct, crashed, (void *) 2, 600);
        rec_begin("meta");
        rec_s("rule", "case = (suite, variant, schedule 'n jobs of unequal lengths then flush', n = 1..17); invariant evaluated after "
                      "every call that leaves the queue empty: no 8-byte window of two consecutive secret words (key objects "
                      "and encrypt-side/hash messages are filled with (index, magic) words) in the register dump taken right "
                      "after ret, in the 256 KiB private stack, or in the manager block; plus every key-preparation helper");
        rec_s("rule_derived", "same schedules run three times from one pristine manager image (keys A/messages 0, keys B/messages 0, keys "
                              "A/messages 1; all objects at identical addresses): a 32-bit word of manager block, register dump or private "
                              "stack that differs with the key and does not differ with the message is key-derived material; >= 8 such bytes "
                              "at quiescence is a violation (LFSR/FSM rows, keystream, E_K(counter), hash-key powers)");
        rec_i("suites", NUNITS);
        rec_end();
        stats_emit();
        return 0;
}
