/* C14 - descriptors come back unaltered; status and error code are exact; error-string lookup is total.
 * Part of the C14 evidence comes from the C05 state-space exploration re-run with the error-code / status /
 * descriptor invariants reported under C14 (see bin/vprops.py) and from the descriptor comparison the C04 driver
 * performs on every handed-back job. This driver adds:
 *  (a) every algorithm row x direction x variant: 1..5 jobs in flight (valid, then an invalid one, then valid again):
 *      caller-owned descriptor fields identical at hand-back, status exactly COMPLETED / INVALID_ARGS, error code 0
 *      after every successful call and non-zero after the failing one, reset by the next successful call;
 *  (b) imb_get_strerror over the integers: quick [-70000, 70000] + limits, thorough ALL 2^32 values.   */
#include "algs.h"
#include <limits.h>

#define MAXL 200
typedef struct {
        uint8_t src[MAXL + 48], dst[MAXL + 48], tag[80], iv[32], aad[32], niv[32];
} wb_t;
static wb_t WB[8];
static IMB_MGR *m;
static keyset_t *KS;
static int g_a, g_v, g_dir;
static const alg_t *A;
static void
viol(const char *site, const char *detail, long x, long y)
{
        char sig[200];
        snprintf(sig, sizeof sig, "C14|%s|%s|%s|%d", site, A ? A->name : "-", VARIANTS[g_v].name, g_dir);
        if (!rec_sig_ok(sig, 3))
                return;
        rec_begin("viol");
        rec_s("site", site);
        rec_s("detail", detail);
        rec_s("alg", A ? A->name : "-");
        rec_s("variant", VARIANTS[g_v].name);
        rec_i("dir", g_dir);
        rec_i("x", x);
        rec_i("y", y);
        rec_end();
}
static uint32_t
pick_len(int a, uint32_t want)
{
        const alg_t *Al = &ALGS[a];
        uint32_t l = want * (Al->bitlen ? 8u : 1u);
        if (l < Al->minlen)
                l = Al->minlen;
        while (!alg_len_ok(a, l) && l < Al->maxlen)
                l++;
        return l;
}
static void
mk(item_t *it, int k, uint32_t want)
{
        wb_t *b = &WB[k];
        fill_rand(b->src, sizeof b->src, 700 + (uint64_t) k);
        fill_rand(b->iv, 32, 710 + (uint64_t) k);
        fill_rand(b->aad, 32, 720 + (uint64_t) k);
        for (int q = 17; q < 25; q++)
                b->iv[q] &= 0x3f;
        memset(it, 0, sizeof *it);
        it->alg = g_a;
        it->dir = g_dir;
        it->len = pick_len(g_a, want);
        it->ks = KS;
        it->src = b->src;
        it->dst = A->inplace_only ? b->src : b->dst;
        if (A->kind == AK_HASH)
                it->dst = NULL;
        it->iv = b->iv;
        it->aad = b->aad;
        it->aadlen = A->kind == AK_AEAD ? 13 : 0;
        it->tag = b->tag;
        it->next_iv = b->niv;
        if (A->family == F_DOCSISCRC) {
                it->hash_len = it->len + 8;
                it->cipher_off = 12;
        }
        if (A->family == F_PON) {
                uint32_t pli = it->len - 8;
                b->src[0] = (uint8_t) (pli >> 6);
                b->src[1] = (uint8_t) (pli << 2);
        }
}
static IMB_JOB SNAP[8];
static long long n_eval;
static void
check_back(IMB_JOB *r)
{
        long k = (long) r->user_data - 1;
        if (k < 0 || k >= 8) {
                viol("user-data", "user_data of a handed-back job is not one that was submitted", k, 0);
                return;
        }
        n_eval++;
        IMB_JOB a = *r, b = SNAP[k];
        int invalid = (long) r->user_data2 == 99;
        if (invalid ? r->status != IMB_STATUS_INVALID_ARGS : r->status != IMB_STATUS_COMPLETED)
                viol("status", "handed-back job has a partial / wrong status", r->status, invalid);
        a.status = b.status = 0;
        int ha = a.hash_alg;
        if (ha == IMB_AUTH_AES_CMAC || ha == IMB_AUTH_AES_CMAC_256 || ha == IMB_AUTH_AES_CMAC_BITLEN)
                a.msg_len_to_hash_in_bytes = b.msg_len_to_hash_in_bytes = 0; /* message-length fields are not in the property's list */
        a.msg_len_to_cipher_in_bytes = b.msg_len_to_cipher_in_bytes = 0;
        a.msg_len_to_hash_in_bytes = b.msg_len_to_hash_in_bytes = 0;
        if (a.cipher_mode == IMB_CIPHER_SNOW_V_AEAD)
                a.u.SNOW_V_AEAD.reserved = b.u.SNOW_V_AEAD.reserved = NULL;
        if (memcmp(&a, &b, sizeof a)) {
                size_t o = 0;
                while (((uint8_t *) &a)[o] == ((uint8_t *) &b)[o])
                        o++;
                viol("descriptor-modified", "caller-owned descriptor field changed between submit and hand-back (x = byte offset in IMB_JOB)",
                     (long) o, k);
        }
}

/* (c) user-supplied (CUSTOM) stages: a callback that reports failure must end the job with exactly IMB_STATUS_INTERNAL_ERROR,
 * whichever stage it is and whatever ran (or is parked) before it; a succeeding callback ends with COMPLETED; every callback
 * is invoked at most once and not at all after an earlier stage failed. */
static int cb_calls[2], cb_fail[2];
static int
cb_cipher(IMB_JOB *j)
{
        (void) j;
        cb_calls[0]++;
        return cb_fail[0];
}
static int
cb_hash(IMB_JOB *j)
{
        (void) j;
        cb_calls[1]++;
        return cb_fail[1];
}
static void
custom_variant(long v, void *arg)
{
        (void) arg;
        g_v = (int) v;
        A = NULL;
        g_dir = 1;
        if (!variant_usable(g_v))
                return;
        m = mgr_new(g_v);
        KS = keyset_new(m, 71);
        const int acbc = alg_id("aes-cbc-128"), ahmac = alg_id("hmac-sha1"), asha = alg_id("sha256");
        /* stage kinds: 0 CUSTOM failing, 1 CUSTOM succeeding, 2 NULL, 3 a real algorithm that parks (cipher: AES-CBC encrypt, hash: HMAC-SHA-1),
         * 4 (hash only) plain SHA-256 */
        for (int ck = 0; ck < 4; ck++)
                for (int hk = 0; hk < 5; hk++)
                        for (int order = 1; order <= 2; order++)
                                for (int prepark = 0; prepark < 2; prepark++) {
                                        if (ck > 1 && hk > 1)
                                                continue; /* no CUSTOM stage */
                                        /* optionally park an ordinary HMAC-SHA-1 job first so that the lane manager is not empty */
                                        if (prepark) {
                                                IMB_JOB *pj = X_GET_NEXT(m);
                                                item_t pit;
                                                g_a = ahmac;
                                                A = &ALGS[g_a];
                                                mk(&pit, 1, 80);
                                                alg_fill(m, pj, &pit);
                                                pj->user_data = (void *) 50;
                                                (void) X_SUBMIT(m);
                                        }
                                        g_a = acbc;
                                        A = &ALGS[g_a];
                                        item_t it;
                                        mk(&it, 0, 64);
                                        it.alg2 = hk == 4 ? asha : ahmac;
                                        it.hoff = 0;
                                        it.hlen = 64;
                                        IMB_JOB *j = X_GET_NEXT(m);
                                        alg_fill(m, j, &it);
                                        j->chain_order = (IMB_CHAIN_ORDER) order;
                                        j->cipher_func = cb_cipher;
                                        j->hash_func = cb_hash;
                                        if (ck <= 1)
                                                j->cipher_mode = IMB_CIPHER_CUSTOM;
                                        else if (ck == 2)
                                                j->cipher_mode = IMB_CIPHER_NULL;
                                        if (hk <= 1)
                                                j->hash_alg = IMB_AUTH_CUSTOM;
                                        else if (hk == 2)
                                                j->hash_alg = IMB_AUTH_NULL;
                                        cb_fail[0] = ck == 0;
                                        cb_fail[1] = hk == 0;
                                        cb_calls[0] = cb_calls[1] = 0;
                                        j->user_data = (void *) 77;
                                        IMB_JOB *r = X_SUBMIT(m);
                                        int e = imb_get_errno(m), got = 0, st = -1;
                                        while (r) {
                                                if (r->user_data == (void *) 77) {
                                                        got++;
                                                        st = (int) r->status;
                                                }
                                                r = X_GET_COMPLETED(m);
                                        }
                                        while ((r = X_FLUSH(m)) != NULL)
                                                if (r->user_data == (void *) 77) {
                                                        got++;
                                                        st = (int) r->status;
                                                }
                                        n_eval++;
                                        long code = ck * 1000 + hk * 100 + order * 10 + prepark;
                                        if (e) {
                                                viol("custom-job-rejected", "job with a CUSTOM stage rejected (x = cipher kind*1000 + hash kind*100 + order*10 + prepark, y = errno)", code, e);
                                                continue;
                                        }
                                        if (got != 1)
                                                viol("custom-not-exactly-once", "job with a CUSTOM stage not handed back exactly once", code, got);
                                        int first_is_cipher = order == IMB_ORDER_CIPHER_HASH;
                                        int first_fails = first_is_cipher ? ck == 0 : hk == 0;
                                        int any_fail = ck == 0 || hk == 0;
                                        int want = any_fail ? IMB_STATUS_INTERNAL_ERROR : IMB_STATUS_COMPLETED;
                                        if (st != want)
                                                viol("status", "job with a CUSTOM stage handed back with a status that is neither exactly COMPLETED nor exactly INTERNAL_ERROR as its callbacks dictate (x = case, y = status)",
                                                     code, st);
                                        if (cb_calls[0] > 1 || cb_calls[1] > 1)
                                                viol("custom-called-twice", "a CUSTOM callback was invoked more than once for one job", code, cb_calls[0] * 10 + cb_calls[1]);
                                        if (first_fails && (first_is_cipher ? cb_calls[1] : cb_calls[0]))
                                                viol("custom-stage-after-failure", "second stage callback invoked although the first stage reported failure", code, 0);
                                }
        stat_add("evaluations", n_eval);
        stat_add("distinct_nontrivial", n_eval);
        n_eval = 0;
        free_mb_mgr(m);
}
static void
run_alg_variant(long item, void *arg)
{
        (void) arg;
        g_a = (int) (item / NVARIANTS);
        g_v = (int) (item % NVARIANTS);
        A = &ALGS[g_a];
        if (!variant_usable(g_v))
                return;
        m = mgr_new(g_v);
        KS = keyset_new(m, 70);
        static const uint32_t WANT[5] = { 64, 0, 100, 33, 160 }; /* 0: the row's minimum length (an empty message where that is accepted) */
        for (g_dir = (A->kind == AK_HASH ? 1 : 0); g_dir < 2; g_dir++)
                for (int n = 1; n <= 5; n++)
                        for (int bad = -1; bad < n; bad++) { /* position of an invalid job (-1: none) */
                                if (A->family == F_NULLC && bad >= 0)
                                        continue;
                                IMB_JOB *r;
                                for (int k = 0; k < n; k++) {
                                        IMB_JOB *j = X_GET_NEXT(m);
                                        if (imb_get_errno(m))
                                                viol("errno", "get_next_job left a non-zero error code", imb_get_errno(m), k);
                                        item_t it;
                                        mk(&it, k, WANT[k]);
                                        alg_fill(m, j, &it);
                                        j->user_data = (void *) (long) (k + 1);
                                        j->user_data2 = (void *) (long) (k == bad ? 99 : 7);
                                        if (k == bad) { /* violate one documented constraint */
                                                if (A->kind != AK_HASH && A->family != F_PON) /* (PON without ciphering needs no key) */
                                                        j->key_len_in_bytes = 5;
                                                else
                                                        j->auth_tag_output_len_in_bytes = 250;
                                        }
                                        SNAP[k] = *j;
                                        r = X_SUBMIT(m);
                                        int e = imb_get_errno(m);
                                        if (k == bad && e == 0)
                                                viol("errno", "submit of an invalid job left error code 0", 0, k);
                                        if (k != bad && e != 0)
                                                viol("errno", "submit of a valid job left a non-zero error code (x = code)", e, k);
                                        while (r) {
                                                check_back(r);
                                                r = X_GET_COMPLETED(m);
                                                if (imb_get_errno(m))
                                                        viol("errno", "get_completed_job left a non-zero error code", imb_get_errno(m), k);
                                        }
                                }
                                while ((r = X_FLUSH(m))) {
                                        if (imb_get_errno(m))
                                                viol("errno", "flush_job left a non-zero error code", imb_get_errno(m), 0);
                                        check_back(r);
                                }
                                if (X_QUEUE_SIZE(m) != 0 || imb_get_errno(m))
                                        viol("errno", "queue_size left a non-zero error code or queue not empty", imb_get_errno(m), X_QUEUE_SIZE(m));
                        }
        stat_add("evaluations", n_eval);
        stat_add("distinct_nontrivial", n_eval);
        n_eval = 0;
        keyset_free(KS);
        free_mb_mgr(m);
}
static void
crashed(long item, int sig, void *arg)
{
        rec_begin("viol");
        rec_s("site", sig == 14 ? "hang" : "crash");
        rec_i("signal", sig);
        if (!arg) {
                rec_s("alg", ALGS[item / NVARIANTS].name);
                rec_s("variant", VARIANTS[item % NVARIANTS].name);
        } else if (arg == (void *) 2) {
                rec_s("alg", "custom-stages");
                rec_s("variant", VARIANTS[item].name);
        } else {
                rec_s("alg", "imb_get_strerror");
                rec_i("partition", item);
        }
        rec_end();
}

/* ---- strerror ---- */
static void
strerr_check(long long v)
{
        const char *s = imb_get_strerror((int) v);
        if (!s) {
                A = NULL;
                viol("strerror-null", "imb_get_strerror returned NULL (x = argument)", (long) v, 0);
                return;
        }
        size_t n = 0;
        while (n < 512 && s[n])
                n++;
        if (n == 0 || n >= 512) {
                A = NULL;
                viol("strerror-string", "imb_get_strerror returned an empty or unterminated string (x = argument)", (long) v, (long) n);
        }
}
static void
strerr_part(long part, void *arg)
{
        (void) arg;
        /* 4096 partitions of 2^20 values */
        long long lo = (long long) INT_MIN + part * (1LL << 20);
        for (long long v = lo; v < lo + (1LL << 20); v++)
                strerr_check(v);
        stat_add("strerror_arguments", 1LL << 20);
        stat_add("evaluations", 1LL << 20);
}

int
main(void)
{
        rec_init("C14", getenv("VERIF_TIER") ? getenv("VERIF_TIER") : "quick");
        region_t R = region_new(1);
        alg_set_poison(R.base - 2048);
        par_run((long) NALGS * NVARIANTS, n_workers(), run_alg_variant, crashed, NULL, 600);
        par_run(NVARIANTS, n_workers(), custom_variant, crashed, (void *) 2, 600);
        A = NULL;
        g_v = 0;
        if (tier_thorough())
                par_run(4096, n_workers(), strerr_part, crashed, (void *) 1, 600);
        else {
                long long cnt = 0;
                for (long long v = -70000; v <= 70000; v++, cnt++)
                        strerr_check(v);
                static const long long lim[] = { INT_MIN, INT_MIN + 1, INT_MAX, INT_MAX - 1, IMB_ERR_MIN - 2, IMB_ERR_MIN - 1, IMB_ERR_MAX, IMB_ERR_MAX + 1, IMB_ERR_MAX + 2 };
                for (unsigned q = 0; q < sizeof lim / sizeof lim[0]; q++, cnt++)
                        strerr_check(lim[q]);
                stat_add("strerror_arguments", cnt);
                stat_add("evaluations", cnt);
        }
        /* every library error code has its own description */
        const char *seen[256];
        int ns = 0;
        for (int e = IMB_ERR_MIN + 1; e < IMB_ERR_MAX; e++) {
                const char *s = imb_get_strerror(e);
                if (!s || !strncmp(s, "Unknown error", 13))
                        viol("strerror-unknown", "library error code has no description (x = code)", e, 0);
                for (int q = 0; q < ns; q++)
                        if (s && seen[q] && !strcmp(seen[q], s))
                                viol("strerror-duplicate", "two library error codes share one description (x = code)", e, IMB_ERR_MIN + 1 + q);
                seen[ns++] = s;
        }
        if (strcmp(imb_get_strerror(0), "No error"))
                viol("strerror-zero", "code 0 is not described as no error", 0, 0);
        stat_add("distinct_nontrivial", ns);
        rec_begin("sample");
        rec_s("case", "aes-cbc-128/enc on avx512_t2: 4 jobs in flight, job 2 invalid (key_len 5): descriptors, statuses and error codes after each call");
        rec_end();
        rec_begin("meta");
        rec_s("rule", "case = (algorithm row, direction, variant, n jobs in flight 1..5, position of an invalid job) with descriptor / "
                      "status / error-code invariants after every call; imb_get_strerror over the integer range");
        rec_end();
        stats_emit();
        return 0;
}
