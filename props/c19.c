/* C19 - SAFE_LOOKUP: the sequence of executed instructions (= every branch decision) and of memory addresses
 * accessed while DES / 3DES / DOCSIS-DES / KASUMI / SNOW3G work is processed is the same for every key
 * (M-shape with a trace-equivalence oracle).
 *
 * Orchestrator (no arguments): for the two variants the property names and the execution monitor can run
 * (SSE type 1, AVX2 type 1) and every key of the key alphabet, the cell program (this binary, "cell" mode) is
 * run under `valgrind --tool=lackey --trace-mem=yes`; the trace is streamed through a pipe and, between the
 * marker stores that bracket each cell, hashed line by line (instruction addresses and load/store/modify
 * addresses with sizes). Message, IV, lengths and every address are fixed; only the key bytes (and the key
 * schedules derived from them outside the markers) differ. Oracle: all traces of one (variant, cell) are
 * identical. On a difference both runs are repeated with the cell's trace kept and the first diverging line and
 * the function it lies in are reported.
 *
 * Cells: job API and every direct function of the named algorithms, byte-aligned and non-byte-aligned bit
 * lengths, tails shorter than a block, multi-buffer calls with unsorted lengths. */
#include "common.h"
#include <sys/mman.h>
#include <sys/wait.h>
#include <unistd.h>
#include <fcntl.h>
#include <signal.h>

#define MARK_BASE 0x700000000000ULL
#define NCELLS 40
static const char *CELL_NAME[NCELLS] = {
        "des-cbc-enc-8", "des-cbc-enc-40", "des-cbc-dec-40", "3des-cbc-enc-40", "3des-cbc-dec-40", "docsis-des-enc-40",
        "docsis-des-enc-21", "docsis-des-dec-21", "docsis-des-enc-5", "docsis-des-dec-5", "kasumi-f8-job-256b", "kasumi-f8-job-509b",
        "kasumi-f9-job-20B", "kasumi-f9-job-33B", "kasumi-f8-1-buffer-37B", "kasumi-f8-1-buffer-bit-509b", "kasumi-f8-2-buffer",
        "kasumi-f8-3-buffer", "kasumi-f8-4-buffer", "kasumi-f8-n-buffer-5", "kasumi-f9-1-buffer-33B", "kasumi-f9-1-buffer-user-253b",
        "snow3g-uea2-job-256b", "snow3g-uea2-job-509b", "snow3g-uea2-9-jobs", "snow3g-uia2-job-256b", "snow3g-uia2-job-509b",
        "snow3g-f8-1-buffer-37B", "snow3g-f8-1-buffer-bit-509b", "snow3g-f8-2-buffer", "snow3g-f8-4-buffer", "snow3g-f8-8-buffer",
        "snow3g-f8-n-buffer-5", "snow3g-f8-8-buffer-multikey", "snow3g-f8-n-buffer-multikey-3", "snow3g-f9-1-buffer-509b",
        "snow3g-uia2-3-jobs", "des-cbc-3-jobs", "3des-cbc-enc-8", "kasumi-f8-job-3-jobs"
};

/* ------------------------------------------------------------------ cell mode ------------------------------------------------------------------ */
static volatile uint64_t *MARK;
#define BEGIN(c) (MARK[2 * (c)] = 1)
#define END(c) (MARK[2 * (c) + 1] = 1)
static IMB_MGR *m;
static uint8_t RAW[64] __attribute__((aligned(64)));
static uint64_t DES_KS[3][16] __attribute__((aligned(16)));
static const void *DES3_KS[3];
static snow3g_key_schedule_t S3_KS[4] __attribute__((aligned(64)));
static kasumi_key_sched_t K8_KS __attribute__((aligned(64))), K9_KS __attribute__((aligned(64)));
static uint8_t MSG[16][512] __attribute__((aligned(64))), OUT[16][512] __attribute__((aligned(64)));
static uint8_t IV[16][16] __attribute__((aligned(16))), TAG[16][16] __attribute__((aligned(16)));

static void
raw_key(int id)
{
        memset(RAW, 0, 64);
        if (id == 0)
                ;
        else if (id == 1)
                memset(RAW, 0xff, 64);
        else if (id < 10) /* single bit, spread over the first 16 bytes */
                RAW[((id - 2) * 2 + 1) % 16] = (uint8_t) (0x80 >> ((id - 2) % 8));
        else if (id < 18)
                for (int i = 0; i < 64; i++)
                        RAW[i] = (uint8_t) (i * (id - 9) + id);
        else
                fill_rand(RAW, 64, 7000 + (uint64_t) id);
        for (int i = 1; i < 64; i++) /* second/third DES keys and the multikey schedules differ from the first */
                if (id >= 2 && id < 10 && i >= 16)
                        RAW[i] = RAW[i - 16] ^ (uint8_t) (i >> 4);
}
static void
run_jobs(int n, int cm, int ha, int dir, const uint32_t *len, int bitlen)
{
        int got = 0;
        for (int i = 0; i < n; i++) {
                IMB_JOB *j = IMB_GET_NEXT_JOB(m);
                memset(j, 0, sizeof *j);
                j->cipher_mode = (IMB_CIPHER_MODE) cm;
                j->hash_alg = (IMB_HASH_ALG) ha;
                j->cipher_direction = dir ? IMB_DIR_ENCRYPT : IMB_DIR_DECRYPT;
                j->chain_order = ha != IMB_AUTH_NULL && cm == IMB_CIPHER_NULL ? IMB_ORDER_HASH_CIPHER
                                                                              : (dir ? IMB_ORDER_CIPHER_HASH : IMB_ORDER_HASH_CIPHER);
                j->src = MSG[i];
                j->dst = OUT[i];
                j->iv = IV[i];
                switch (cm) {
                case IMB_CIPHER_DES:
                case IMB_CIPHER_DOCSIS_DES:
                        j->enc_keys = DES_KS[0];
                        j->dec_keys = DES_KS[0];
                        j->key_len_in_bytes = 8;
                        j->iv_len_in_bytes = 8;
                        j->msg_len_to_cipher_in_bytes = len[i];
                        break;
                case IMB_CIPHER_DES3:
                        j->enc_keys = DES3_KS;
                        j->dec_keys = DES3_KS;
                        j->key_len_in_bytes = 24;
                        j->iv_len_in_bytes = 8;
                        j->msg_len_to_cipher_in_bytes = len[i];
                        break;
                case IMB_CIPHER_KASUMI_UEA1_BITLEN:
                        j->enc_keys = &K8_KS;
                        j->dec_keys = &K8_KS;
                        j->key_len_in_bytes = 16;
                        j->iv_len_in_bytes = 8;
                        j->msg_len_to_cipher_in_bits = len[i];
                        break;
                case IMB_CIPHER_SNOW3G_UEA2_BITLEN:
                        j->enc_keys = &S3_KS[0];
                        j->dec_keys = &S3_KS[0];
                        j->key_len_in_bytes = 16;
                        j->iv_len_in_bytes = 16;
                        j->msg_len_to_cipher_in_bits = len[i];
                        break;
                default: break;
                }
                switch (ha) {
                case IMB_AUTH_KASUMI_UIA1:
                        j->u.KASUMI_UIA1._key = &K9_KS;
                        j->msg_len_to_hash_in_bytes = len[i];
                        j->auth_tag_output = TAG[i];
                        j->auth_tag_output_len_in_bytes = 4;
                        break;
                case IMB_AUTH_SNOW3G_UIA2_BITLEN:
                        j->u.SNOW3G_UIA2._key = &S3_KS[0];
                        j->u.SNOW3G_UIA2._iv = IV[i];
                        j->msg_len_to_hash_in_bits = len[i];
                        j->auth_tag_output = TAG[i];
                        j->auth_tag_output_len_in_bytes = 4;
                        break;
                default: break;
                }
                (void) bitlen;
                j = IMB_SUBMIT_JOB(m);
                if (imb_get_errno(m))
                        DIE("cell job rejected: errno %d", imb_get_errno(m));
                while (j) {
                        if (j->status != IMB_STATUS_COMPLETED)
                                DIE("cell job not completed");
                        got++;
                        j = IMB_GET_COMPLETED_JOB(m);
                }
        }
        IMB_JOB *j;
        while ((j = IMB_FLUSH_JOB(m)) != NULL) {
                if (j->status != IMB_STATUS_COMPLETED)
                        DIE("cell job not completed");
                got++;
        }
        if (got != n)
                DIE("cell: %d of %d jobs returned", got, n);
}
#define L(...) ((const uint32_t[]){ __VA_ARGS__ })
static int
cell_main(const char *vname, int keyid)
{
        int v = -1;
        for (int i = 0; i < NVARIANTS; i++)
                if (!strcmp(VARIANTS[i].name, vname))
                        v = i;
        if (v < 0)
                DIE("unknown variant %s", vname);
        void *p = mmap((void *) MARK_BASE, 4096, PROT_READ | PROT_WRITE, MAP_PRIVATE | MAP_ANONYMOUS | MAP_FIXED, -1, 0);
        if (p != (void *) MARK_BASE)
                DIE("marker page");
        MARK = p;
        m = mgr_new(v);
        if (!m)
                DIE("variant %s not usable under the execution monitor", vname);
        raw_key(keyid);
        for (int i = 0; i < 3; i++) {
                IMB_DES_KEYSCHED(m, DES_KS[i], RAW + 8 * i);
                DES3_KS[i] = DES_KS[i];
        }
        for (int i = 0; i < 4; i++)
                IMB_SNOW3G_INIT_KEY_SCHED(m, RAW + 16 * i, &S3_KS[i]);
        IMB_KASUMI_INIT_F8_KEY_SCHED(m, RAW, &K8_KS);
        IMB_KASUMI_INIT_F9_KEY_SCHED(m, RAW, &K9_KS);
        for (int i = 0; i < 16; i++) {
                fill_rand(MSG[i], 512, 100 + (uint64_t) i);
                fill_rand(IV[i], 16, 200 + (uint64_t) i);
        }
        const void *ivp[16], *inp[16];
        void *outp[16];
        uint64_t kiv[16];
        const snow3g_key_schedule_t *ksp[16];
        for (int i = 0; i < 16; i++) {
                ivp[i] = IV[i];
                inp[i] = MSG[i];
                outp[i] = OUT[i];
                memcpy(&kiv[i], IV[i], 8);
                ksp[i] = &S3_KS[i % 4];
        }
        static const uint32_t UL[8] = { 37, 19, 64, 5, 41, 16, 33, 8 }; /* unsorted lengths */
        int c = 0;
        uint64_t sum = 0;
#define CELL(body)                                                                                 \
        do {                                                                                       \
                memset(OUT, 0x5a, sizeof OUT); /* previous contents of dst are public and fixed */ \
                memset(TAG, 0x5a, sizeof TAG);                                                     \
                BEGIN(c);                                                                          \
                body;                                                                              \
                END(c);                                                                            \
                sum ^= hash_bytes(OUT, sizeof OUT, 1 + (uint64_t) c) ^ hash_bytes(TAG, sizeof TAG, 99 + (uint64_t) c); \
                c++;                                                                               \
        } while (0)
        CELL(run_jobs(1, IMB_CIPHER_DES, IMB_AUTH_NULL, 1, L(8), 0));
        CELL(run_jobs(1, IMB_CIPHER_DES, IMB_AUTH_NULL, 1, L(40), 0));
        CELL(run_jobs(1, IMB_CIPHER_DES, IMB_AUTH_NULL, 0, L(40), 0));
        CELL(run_jobs(1, IMB_CIPHER_DES3, IMB_AUTH_NULL, 1, L(40), 0));
        CELL(run_jobs(1, IMB_CIPHER_DES3, IMB_AUTH_NULL, 0, L(40), 0));
        CELL(run_jobs(1, IMB_CIPHER_DOCSIS_DES, IMB_AUTH_NULL, 1, L(40), 0));
        CELL(run_jobs(1, IMB_CIPHER_DOCSIS_DES, IMB_AUTH_NULL, 1, L(21), 0));
        CELL(run_jobs(1, IMB_CIPHER_DOCSIS_DES, IMB_AUTH_NULL, 0, L(21), 0));
        CELL(run_jobs(1, IMB_CIPHER_DOCSIS_DES, IMB_AUTH_NULL, 1, L(5), 0));
        CELL(run_jobs(1, IMB_CIPHER_DOCSIS_DES, IMB_AUTH_NULL, 0, L(5), 0));
        CELL(run_jobs(1, IMB_CIPHER_KASUMI_UEA1_BITLEN, IMB_AUTH_NULL, 1, L(256), 1));
        CELL(run_jobs(1, IMB_CIPHER_KASUMI_UEA1_BITLEN, IMB_AUTH_NULL, 1, L(509), 1));
        CELL(run_jobs(1, IMB_CIPHER_NULL, IMB_AUTH_KASUMI_UIA1, 1, L(20), 0));
        CELL(run_jobs(1, IMB_CIPHER_NULL, IMB_AUTH_KASUMI_UIA1, 1, L(33), 0));
        CELL(IMB_KASUMI_F8_1_BUFFER(m, &K8_KS, kiv[0], MSG[0], OUT[0], 37));
        CELL(IMB_KASUMI_F8_1_BUFFER_BIT(m, &K8_KS, kiv[0], MSG[0], OUT[0], 509, 0));
        CELL(IMB_KASUMI_F8_2_BUFFER(m, &K8_KS, kiv[0], kiv[1], MSG[0], OUT[0], 37, MSG[1], OUT[1], 19));
        CELL(IMB_KASUMI_F8_3_BUFFER(m, &K8_KS, kiv[0], kiv[1], kiv[2], MSG[0], OUT[0], MSG[1], OUT[1], MSG[2], OUT[2], 37));
        CELL(IMB_KASUMI_F8_4_BUFFER(m, &K8_KS, kiv[0], kiv[1], kiv[2], kiv[3], MSG[0], OUT[0], MSG[1], OUT[1], MSG[2], OUT[2], MSG[3], OUT[3], 37));
        CELL(IMB_KASUMI_F8_N_BUFFER(m, &K8_KS, kiv, inp, outp, UL, 5));
        CELL(IMB_KASUMI_F9_1_BUFFER(m, &K9_KS, MSG[0], 33, TAG[0]));
        CELL(IMB_KASUMI_F9_1_BUFFER_USER(m, &K9_KS, kiv[0], MSG[0], 253, TAG[0], 1));
        CELL(run_jobs(1, IMB_CIPHER_SNOW3G_UEA2_BITLEN, IMB_AUTH_NULL, 1, L(256), 1));
        CELL(run_jobs(1, IMB_CIPHER_SNOW3G_UEA2_BITLEN, IMB_AUTH_NULL, 1, L(509), 1));
        CELL(run_jobs(9, IMB_CIPHER_SNOW3G_UEA2_BITLEN, IMB_AUTH_NULL, 1, L(296, 152, 509, 40, 328, 128, 264, 64, 1001), 1));
        CELL(run_jobs(1, IMB_CIPHER_NULL, IMB_AUTH_SNOW3G_UIA2_BITLEN, 1, L(256), 1));
        CELL(run_jobs(1, IMB_CIPHER_NULL, IMB_AUTH_SNOW3G_UIA2_BITLEN, 1, L(509), 1));
        CELL(IMB_SNOW3G_F8_1_BUFFER(m, &S3_KS[0], IV[0], MSG[0], OUT[0], 37));
        CELL(IMB_SNOW3G_F8_1_BUFFER_BIT(m, &S3_KS[0], IV[0], MSG[0], OUT[0], 509, 5));
        CELL(IMB_SNOW3G_F8_2_BUFFER(m, &S3_KS[0], IV[0], IV[1], MSG[0], OUT[0], 37, MSG[1], OUT[1], 19));
        CELL(IMB_SNOW3G_F8_4_BUFFER(m, &S3_KS[0], IV[0], IV[1], IV[2], IV[3], MSG[0], OUT[0], 37, MSG[1], OUT[1], 19, MSG[2], OUT[2], 64, MSG[3], OUT[3], 5));
        CELL(IMB_SNOW3G_F8_8_BUFFER(m, &S3_KS[0], IV[0], IV[1], IV[2], IV[3], IV[4], IV[5], IV[6], IV[7], MSG[0], OUT[0], 37, MSG[1], OUT[1], 19, MSG[2],
                                    OUT[2], 64, MSG[3], OUT[3], 5, MSG[4], OUT[4], 41, MSG[5], OUT[5], 16, MSG[6], OUT[6], 33, MSG[7], OUT[7], 8));
        CELL(IMB_SNOW3G_F8_N_BUFFER(m, &S3_KS[0], ivp, inp, outp, UL, 5));
        CELL(IMB_SNOW3G_F8_8_BUFFER_MULTIKEY(m, ksp, ivp, inp, outp, UL));
        CELL(IMB_SNOW3G_F8_N_BUFFER_MULTIKEY(m, ksp, ivp, inp, outp, UL, 3));
        CELL(IMB_SNOW3G_F9_1_BUFFER(m, &S3_KS[0], IV[0], MSG[0], 509, TAG[0]));
        CELL(run_jobs(3, IMB_CIPHER_NULL, IMB_AUTH_SNOW3G_UIA2_BITLEN, 1, L(296, 509, 40), 1));
        CELL(run_jobs(3, IMB_CIPHER_DES, IMB_AUTH_NULL, 1, L(40, 8, 24), 0));
        CELL(run_jobs(1, IMB_CIPHER_DES3, IMB_AUTH_NULL, 1, L(8), 0));
        CELL(run_jobs(3, IMB_CIPHER_KASUMI_UEA1_BITLEN, IMB_AUTH_NULL, 1, L(296, 509, 40), 1));
        if (c != NCELLS)
                DIE("cell count %d", c);
        /* checksum of everything produced: printed so that the orchestrator can confirm that the keys really differed */
        printf("%016llx\n", (unsigned long long) sum);
        return 0;
}

/* ------------------------------------------------------------------ orchestrator ------------------------------------------------------------------ */
#define MAXK 64
struct res {
        uint64_t hash[NCELLS];
        uint32_t lines[NCELLS];
        uint64_t out_sum;
        int ok;
};
static struct res (*R)[MAXK]; /* [variant idx][key idx], shared */
static const char *VN[2] = { "sse_t1", "avx2_t1" };
static int KEYS[MAXK], NK;
static char EXE[512];

/* run one (variant, key) under the monitor; if keep_cell >= 0 store that cell's lines */
static int
run_monitored(int vi, int keyid, struct res *r, int keep_cell, char ***keep, size_t *nkeep)
{
        int pl[2], po[2];
        if (pipe(pl) || pipe(po))
                DIE("pipe");
        pid_t pid = fork();
        if (pid == 0) {
                dup2(pl[1], 9);
                dup2(po[1], 1);
                close(pl[0]);
                close(pl[1]);
                close(po[0]);
                close(po[1]);
                char kid[8];
                snprintf(kid, sizeof kid, "%04d", keyid);
                char *envp[] = { "PATH=/usr/bin:/bin", "VERIF_SEED=1", NULL };
                execle("/usr/bin/valgrind", "valgrind", "-q", "--tool=lackey", "--trace-mem=yes", "--basic-counts=no", "--log-fd=9", EXE, "cell", VN[vi], kid,
                       (char *) NULL, envp);
                _exit(127);
        }
        close(pl[1]);
        close(po[1]);
        FILE *f = fdopen(pl[0], "r");
        static char buf[1 << 20];
        setvbuf(f, buf, _IOFBF, sizeof buf);
        char line[256];
        int cur = -1;
        uint64_t h = 0;
        uint32_t n = 0;
        size_t cap = 0;
        memset(r, 0, sizeof *r);
        while (fgets(line, sizeof line, f)) {
                if (line[0] == ' ' && line[1] == 'S' && !strncmp(line + 3, "700000000", 9)) {
                        unsigned long a = strtoul(line + 3, NULL, 16);
                        unsigned long k = (a - MARK_BASE) / 8;
                        if (k < 2 * NCELLS) {
                                if (!(k & 1)) {
                                        cur = (int) (k / 2);
                                        h = 0xcbf29ce484222325ULL;
                                        n = 0;
                                } else if (cur == (int) (k / 2)) {
                                        r->hash[cur] = h;
                                        r->lines[cur] = n;
                                        cur = -1;
                                }
                                continue;
                        }
                }
                if (cur < 0)
                        continue;
                for (const char *q = line; *q; q++)
                        h = (h ^ (uint8_t) *q) * 0x100000001b3ULL;
                n++;
                if (cur == keep_cell && keep) {
                        if (*nkeep == cap) {
                                cap = cap ? cap * 2 : 4096;
                                *keep = realloc(*keep, cap * sizeof(char *));
                        }
                        (*keep)[(*nkeep)++] = strdup(line);
                }
        }
        fclose(f);
        char ob[64] = { 0 };
        ssize_t got = read(po[0], ob, sizeof ob - 1);
        (void) got;
        close(po[0]);
        r->out_sum = strtoull(ob, NULL, 16);
        int st = 0;
        waitpid(pid, &st, 0);
        r->ok = WIFEXITED(st) && WEXITSTATUS(st) == 0;
        return r->ok;
}
static void
work(long item, void *arg)
{
        (void) arg;
        int vi = (int) (item / NK), ki = (int) (item % NK);
        struct res r;
        run_monitored(vi, KEYS[ki], &r, -1, NULL, NULL);
        R[vi][ki] = r;
        stat_add("monitored_runs", 1);
}
static void
crashed(long item, int sig, void *arg)
{
        (void) arg;
        (void) item;
        (void) sig;
}
static void
symbolize(const char *addr, char *out, size_t n)
{
        char cmd[700];
        snprintf(cmd, sizeof cmd, "addr2line -f -e %s 0x%s 2>/dev/null | head -1", EXE, addr);
        FILE *p = popen(cmd, "r");
        out[0] = 0;
        if (p) {
                if (fgets(out, (int) n, p))
                        out[strcspn(out, "\n")] = 0;
                pclose(p);
        }
}
static void
diagnose(int vi, int cell, int k0, int k1)
{
        char **a = NULL, **b = NULL;
        size_t na = 0, nb = 0;
        struct res r;
        run_monitored(vi, k0, &r, cell, &a, &na);
        run_monitored(vi, k1, &r, cell, &b, &nb);
        size_t i = 0;
        while (i < na && i < nb && !strcmp(a[i], b[i]))
                i++;
        char lastI[64] = "?";
        for (size_t q = i < na ? i : na - 1; q != (size_t) -1; q--)
                if (a[q][0] == 'I') {
                        snprintf(lastI, sizeof lastI, "%s", a[q] + 3);
                        lastI[strcspn(lastI, ",\n")] = 0;
                        break;
                }
        char sym[256];
        symbolize(lastI, sym, sizeof sym);
        rec_begin("viol");
        rec_s("site", "trace-differs");
        rec_s("alg", CELL_NAME[cell]);
        rec_s("variant", VN[vi]);
        rec_s("detail", "instruction/address trace between the cell markers depends on the key");
        rec_i("key_a", k0);
        rec_i("key_b", k1);
        rec_i("first_differing_line", (long long) i);
        rec_i("lines_a", (long long) na);
        rec_i("lines_b", (long long) nb);
        if (i < na) {
                a[i][strcspn(a[i], "\n")] = 0;
                rec_s("line_a", a[i]);
        }
        if (i < nb) {
                b[i][strcspn(b[i], "\n")] = 0;
                rec_s("line_b", b[i]);
        }
        rec_s("instruction", lastI);
        rec_s("function", sym);
        rec_end();
}

int
main(int argc, char **argv)
{
        if (argc >= 4 && !strcmp(argv[1], "cell"))
                return cell_main(argv[2], atoi(argv[3]));
        rec_init("C19", getenv("VERIF_TIER") ? getenv("VERIF_TIER") : "quick");
        ssize_t n = readlink("/proc/self/exe", EXE, sizeof EXE - 1);
        if (n <= 0)
                DIE("readlink");
        EXE[n] = 0;
        if (access("/usr/bin/valgrind", X_OK))
                DIE("valgrind (execution monitor) not found");
        if (tier_thorough()) {
                NK = 50;
                for (int i = 0; i < NK; i++)
                        KEYS[i] = i;
        } else {
                static const int Q[10] = { 0, 1, 2, 5, 9, 10, 14, 18, 19, 20 };
                NK = 10;
                memcpy(KEYS, Q, sizeof Q);
        }
        R = mmap(NULL, sizeof(struct res) * 2 * MAXK, PROT_READ | PROT_WRITE, MAP_SHARED | MAP_ANONYMOUS, -1, 0);
        long skipped = par_run(2L * NK, n_workers(), work, crashed, NULL, 900);
        long cells_ok = 0, traces = 0, total_lines = 0;
        int distinct_out = 0;
        int ndiag[2] = { 0, 0 };
        for (int vi = 0; vi < 2; vi++) {
                uint64_t seen[MAXK];
                int ns = 0;
                for (int ki = 0; ki < NK; ki++) {
                        if (skipped)
                                break;
                        if (!R[vi][ki].ok) {
                                rec_begin("viol");
                                rec_s("site", "monitor-run-failed");
                                rec_s("alg", "cell-program");
                                rec_s("variant", VN[vi]);
                                rec_i("key", KEYS[ki]);
                                rec_s("detail", "cell program did not finish under the execution monitor (a job was rejected / not completed, or the monitor failed)");
                                rec_end();
                                continue;
                        }
                        int dup = 0;
                        for (int q = 0; q < ns; q++)
                                dup |= seen[q] == R[vi][ki].out_sum;
                        if (!dup)
                                seen[ns++] = R[vi][ki].out_sum;
                }
                distinct_out += ns;
                for (int c = 0; c < NCELLS && !skipped; c++) {
                        int bad = 0;
                        if (!R[vi][0].ok)
                                break;
                        if (R[vi][0].lines[c] == 0) {
                                rec_begin("viol");
                                rec_s("site", "empty-trace");
                                rec_s("alg", CELL_NAME[c]);
                                rec_s("variant", VN[vi]);
                                rec_end();
                                continue;
                        }
                        for (int ki = 1; ki < NK; ki++) {
                                if (!R[vi][ki].ok)
                                        continue;
                                traces++;
                                total_lines += R[vi][ki].lines[c];
                                if (R[vi][ki].hash[c] != R[vi][0].hash[c] || R[vi][ki].lines[c] != R[vi][0].lines[c]) {
                                        if (!bad) {
                                                if (ndiag[vi]++ < 3)
                                                        diagnose(vi, c, KEYS[0], KEYS[ki]);
                                                else { /* bound the time spent on re-runs */
                                                        rec_begin("viol");
                                                        rec_s("site", "trace-differs");
                                                        rec_s("alg", CELL_NAME[c]);
                                                        rec_s("variant", VN[vi]);
                                                        rec_i("key_a", KEYS[0]);
                                                        rec_i("key_b", KEYS[ki]);
                                                        rec_s("detail", "trace depends on the key (not re-run for the first differing line)");
                                                        rec_end();
                                                }
                                        }
                                        bad++;
                                }
                        }
                        traces++;
                        total_lines += R[vi][0].lines[c];
                        if (!bad)
                                cells_ok++;
                }
        }
        stat_add("evaluations", traces);
        stat_add("distinct_nontrivial", distinct_out);
        stat_add("cells_with_identical_traces", cells_ok);
        stat_add("cells", 2 * NCELLS);
        stat_add("keys_per_cell", NK);
        stat_add("trace_lines_compared", total_lines);
        rec_begin("sample");
        rec_s("cell", "snow3g-f8-1-buffer-bit-509b on sse_t1");
        rec_s("case", "keys all-zero / all-one / single-bit / byte-walk / seed-derived; lackey instruction+memory trace between marker stores hashed and compared");
        rec_end();
        rec_begin("meta");
        rec_s("rule", "case = (variant in {sse_t1, avx2_t1}, cell, key); trace = every executed instruction address and every load/store/modify address+size "
                      "between the cell's marker stores under valgrind lackey; oracle = all keys give the identical trace; distinct_nontrivial = number of "
                      "distinct output checksums (keys really differ)");
        rec_end();
        stats_emit();
        return 0;
}
