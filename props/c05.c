/* C05 - jobs come back exactly once, in order, complete; queue accounting exact.
 * M-state: explicit-state BFS over the REAL scheduler code (DESIGN.md 4/C05).
 *   fixpoint mode (reduced ring builds ring4/ring8): full reachable state set, job API or burst API
 *   seeded mode (true 256-slot ring, std build): bounded BFS from ring-rotation x fill-level seeds
 * usage: c05 <job|burst> <variant-index|all> [kinds]                                        */
#include "bfs.h"
#include "ipsec_ooo_mgr.h"

#define RING IMB_MAX_JOBS
#define MAXB IMB_MAX_BURST_SIZE
enum { K_I, K_S, K_L, K_P, K_C, K_X, NK };
static const char KCH[] = "ISLPCX";
static int kind_on[NK];
static IMB_MGR *m;
static int g_v;
static const char *g_api;

static uint8_t key[16], iv[16], src[512];
static uint8_t ipad[128] __attribute__((aligned(64))), opad[128] __attribute__((aligned(64)));
static uint32_t ek[60] __attribute__((aligned(16))), dk[60] __attribute__((aligned(16)));
/* per-slot output buffers (part of the state) */
static struct bufs {
        uint8_t tag[RING][32];
        uint8_t dst[RING][32];
} B;
static uint8_t exp_tag[NK][32], exp_dst[NK][32];

/* reference model: FIFO of (slot, kind) */
static struct ref {
        int count;
        uint16_t slot[RING];
        uint8_t kind[RING];
} R;

static void
fill(IMB_JOB *j, int kind, int slot, int session)
{
        memset(j, 0, sizeof *j);
        j->chain_order = IMB_ORDER_CIPHER_HASH;
        j->cipher_direction = IMB_DIR_ENCRYPT;
        j->cipher_mode = IMB_CIPHER_NULL;
        j->hash_alg = IMB_AUTH_NULL;
        j->user_data = (void *) (long) kind;
        j->user_data2 = (void *) (long) (slot * 16 + kind + 1);
        j->src = src;
        j->dst = B.dst[slot];
        memset(B.tag[slot], 0, 32);
        memset(B.dst[slot], 0, 32);
        if (kind == K_S || kind == K_L || kind == K_C) {
                j->hash_alg = IMB_AUTH_HMAC_SHA_512;
                j->msg_len_to_hash_in_bytes = kind == K_S ? 40 : kind == K_L ? 300 : 32;
                j->auth_tag_output = B.tag[slot];
                j->auth_tag_output_len_in_bytes = 32;
                j->u.HMAC._hashed_auth_key_xor_ipad = ipad;
                j->u.HMAC._hashed_auth_key_xor_opad = opad;
        }
        if (kind == K_C) { /* cipher then hash over the ciphertext: parks in two OOO managers */
                j->src = src;
                j->hash_start_src_offset_in_bytes = 0;
        }
        if (kind == K_X || kind == K_P || kind == K_C) {
                j->cipher_mode = IMB_CIPHER_CBC;
                j->enc_keys = ek;
                j->dec_keys = dk;
                j->key_len_in_bytes = 16;
                j->iv = iv;
                j->iv_len_in_bytes = 16;
                j->msg_len_to_cipher_in_bytes = kind == K_X ? 0 : 32;
        }
        if (kind == K_C) {
                /* in-place so that the hash stage reads the cipher output */
                memcpy(B.dst[slot], src, 32);
                j->src = B.dst[slot];
        }
        if (session)
                imb_set_session(m, j);
}

static int c14_mode;
static const char *replay_path, *g_kinds = "";
static void
viol(const char *site, const char *detail, long a, long b)
{
        char sig[160];
        if (c14_mode && strcmp(site, "errno") && strcmp(site, "descriptor") && strcmp(site, "status") && strcmp(site, "burst-size"))
                return; /* C14 run: only status / error-code / descriptor invariants (the rest is C05's) */
        snprintf(sig, sizeof sig, "%s|%s|%s|%s", g_property, site, VARIANTS[g_v].name, g_api);
        if (!rec_sig_ok(sig, 3))
                return;
        rec_begin("viol");
        rec_s("site", site);
        rec_s("detail", detail);
        rec_i("a", a);
        rec_i("b", b);
        rec_s("variant", VARIANTS[g_v].name);
        rec_s("api", g_api);
        rec_i("ring", RING);
        rec_s("path", replay_path ? replay_path : bfs_path_str());
        rec_s("kinds", g_kinds);
        rec_end();
}

/* hand-back check: r must be the FIFO head, final status, full output */
static void
handback(IMB_JOB *r)
{
        if (R.count == 0) {
                viol("handback-from-empty", "job returned although reference queue is empty", r - m->jobs, 0);
                return;
        }
        int slot = R.slot[0], kind = R.kind[0];
        if (r != &m->jobs[slot])
                viol("order", "returned job is not the oldest outstanding one", r - m->jobs, slot);
        else {
                if ((long) r->user_data != kind || (long) r->user_data2 != slot * 16 + kind + 1)
                        viol("descriptor", "user_data of returned job changed", (long) r->user_data, kind);
                if (kind == K_X ? r->status != IMB_STATUS_INVALID_ARGS : r->status != IMB_STATUS_COMPLETED)
                        viol("status", "returned job has wrong/non-final status", r->status, kind);
                else if (kind != K_X) {
                        if (memcmp(B.tag[slot], exp_tag[kind], 32))
                                viol("incomplete-tag", "returned job's tag differs from the solo result", slot,
                                     kind);
                        if (memcmp(B.dst[slot], exp_dst[kind], 32))
                                viol("incomplete-dst", "returned job's dst differs from the solo result", slot,
                                     kind);
                }
        }
        memmove(R.slot, R.slot + 1, sizeof(R.slot[0]) * (size_t) (R.count - 1));
        memmove(R.kind, R.kind + 1, (size_t) (R.count - 1));
        R.count--;
}
static int
in_fifo(int slot)
{
        for (int i = 0; i < R.count; i++)
                if (R.slot[i] == slot)
                        return 1;
        return 0;
}
/* Every checked call below is preceded by a real API call that fails without any other effect
 * (imb_set_session(mgr, NULL) -> IMB_ERR_NULL_JOB), so the manager's error code is non-zero on entry: a call that
 * succeeds must leave it at zero on every path (also "nothing to do" paths such as a flush of an empty queue). */
static void
stale_errno(void)
{
        (void) imb_set_session(m, NULL);
}
static void
post_invariants(void)
{
        stale_errno();
        uint32_t q = X_QUEUE_SIZE(m);
        if (q != (uint32_t) R.count)
                viol("queue-size", "queue_size != submitted - handed back", q, R.count);
        if (imb_get_errno(m) != 0)
                viol("errno", "queue_size left a non-zero error code", imb_get_errno(m), 1);
        stale_errno();
        IMB_JOB *n = X_GET_NEXT(m);
        if (imb_get_errno(m) != 0)
                viol("errno", "get_next_job left a non-zero error code", imb_get_errno(m), 0);
        int slot = (int) (n - m->jobs);
        if (slot < 0 || slot >= RING)
                viol("next-slot-range", "get_next_job outside the ring", slot, 0);
        else if (in_fifo(slot) && R.count < RING)
                viol("next-slot-in-use", "get_next_job offers a slot still awaiting return", slot, R.count);
}

/* ---- job API ops ---- */
static void
op_submit(int kind, int nocheck)
{
        IMB_JOB *j = X_GET_NEXT(m);
        int slot = (int) (j - m->jobs);
        if (in_fifo(slot))
                viol("next-slot-in-use", "slot offered for filling still awaits return", slot, R.count);
        fill(j, kind, slot, 0);
        stale_errno();
        IMB_JOB *r = nocheck ? X_SUBMIT_NOCHECK(m) : X_SUBMIT(m);
        int e = imb_get_errno(m);
        R.slot[R.count] = (uint16_t) slot;
        R.kind[R.count] = (uint8_t) kind;
        R.count++;
        if (kind != K_X && e != 0)
                viol("errno", "valid job: non-zero errno after submit", e, kind);
        if (kind == K_X && e == 0)
                viol("errno", "rejected job: errno is zero after submit", e, kind);
        if (R.count == RING && !r)
                viol("full-no-return", "queue full but submit returned NULL", R.count, 0);
        if (r)
                handback(r);
}
static void
op_flush(void)
{
        stale_errno();
        IMB_JOB *r = X_FLUSH(m);
        if (imb_get_errno(m) != 0)
                viol("errno", "flush_job left a non-zero error code", imb_get_errno(m), 0);
        if ((r == NULL) != (R.count == 0))
                viol("flush-null", "flush NULL <=> queue empty violated", r != NULL, R.count);
        if (r)
                handback(r);
}
static void
op_get_completed(void)
{
        int head_final = R.count && m->jobs[R.slot[0]].status >= IMB_STATUS_COMPLETED;
        stale_errno();
        IMB_JOB *r = X_GET_COMPLETED(m);
        if (imb_get_errno(m) != 0)
                viol("errno", "get_completed_job left a non-zero error code", imb_get_errno(m), 0);
        if (!r && head_final)
                viol("get-completed-missed", "oldest job is final but get_completed_job returned NULL", 0, 0);
        if (r && !head_final)
                viol("get-completed-early", "get_completed_job returned a job that was not final", 0, 0);
        if (r)
                handback(r);
}

/* ---- burst API ops ---- */
typedef struct {
        uint8_t n, nocheck, kinds[MAXB + 2];
} bop_t;
static bop_t *BOPS;
static int NBOPS;
static const int flushmax[] = { 0, 1, 2, MAXB, RING, RING + 1 };
#define NFLUSH 6
static void
op_burst(const bop_t *b)
{
        IMB_JOB *jobs[RING + 8];
        uint32_t n = b->n;
        stale_errno();
        uint32_t k = X_GET_NEXT_BURST(m, n, jobs);
        int e = imb_get_errno(m);
        if (n > MAXB) {
                if (k != 0 || e != IMB_ERR_BURST_SIZE)
                        viol("burst-size", "oversize get_next_burst not refused with IMB_ERR_BURST_SIZE", k, e);
                return;
        }
        uint32_t expk = (uint32_t) (RING - R.count) < n ? (uint32_t) (RING - R.count) : n;
        if (k == expk && k == n && e != 0)
                viol("errno", "get_next_burst handed out all requested slots but left a non-zero error code", e, k);
        if (k != expk) {
                viol("get-next-burst-count", "get_next_burst returned wrong slot count", k, expk);
                if (k > expk)
                        return;
        }
        int hasx = -1;
        for (uint32_t i = 0; i < k; i++) {
                int slot = (int) (jobs[i] - m->jobs);
                if (slot < 0 || slot >= RING) {
                        viol("next-slot-range", "burst slot outside ring", slot, i);
                        return;
                }
                if (in_fifo(slot)) {
                        viol("next-slot-in-use", "burst slot still awaiting return", slot, i);
                        return;
                }
                for (uint32_t q = 0; q < i; q++)
                        if (jobs[q] == jobs[i]) {
                                viol("burst-slot-dup", "same slot offered twice in one burst", slot, i);
                                return;
                        }
                if (b->kinds[i] == K_X && hasx < 0)
                        hasx = (int) i;
                fill(jobs[i], b->kinds[i], slot, 1);
        }
        int slots[MAXB + 2];
        for (uint32_t i = 0; i < k; i++)
                slots[i] = (int) (jobs[i] - m->jobs);
        stale_errno();
        uint32_t r = b->nocheck ? X_SUBMIT_BURST_NOCHECK(m, k, jobs) : X_SUBMIT_BURST(m, k, jobs);
        e = imb_get_errno(m);
        if (hasx >= 0) {
                if (r != 0 || e == 0)
                        viol("burst-invalid-accepted", "burst with an invalid job: not refused", r, e);
                else if (jobs[0] != &m->jobs[slots[hasx]] || jobs[0]->status != IMB_STATUS_INVALID_ARGS)
                        viol("burst-invalid-report", "invalid job not reported in jobs[0] with INVALID_ARGS", 0,
                             0);
                return; /* nothing was submitted */
        }
        if (e != 0)
                viol("errno", "valid burst: non-zero errno", e, k);
        for (uint32_t i = 0; i < k; i++) {
                R.slot[R.count] = (uint16_t) slots[i];
                R.kind[R.count] = b->kinds[i];
                R.count++;
        }
        if (r > k && k)
                viol("burst-return-count", "submit_burst returned more jobs than the array holds", r, k);
        for (uint32_t i = 0; i < r && i < RING; i++)
                handback(jobs[i]);
}
static void
op_flush_burst(int mx)
{
        IMB_JOB *jobs[RING + 8];
        stale_errno();
        uint32_t r = X_FLUSH_BURST(m, mx, jobs);
        if (imb_get_errno(m) != 0)
                viol("errno", "flush_burst left a non-zero error code", imb_get_errno(m), 0);
        uint32_t exp = (uint32_t) (R.count < mx ? R.count : mx);
        if (r != exp)
                viol("flush-burst-count", "flush_burst returned wrong number of jobs", r, exp);
        for (uint32_t i = 0; i < r && i < RING + 2; i++)
                handback(jobs[i]);
}

/* ---- model glue ---- */
static int is_burst, is_mixed;
static int jobops[2 * NK + 2], njobops;
/* "+sync" modes: the alphabet of the job (or asynchronous burst) API plus synchronous hash bursts of 1 / 3 HMAC-SHA-512
 * jobs, which share the HMAC-SHA-512 manager with parked S / L / C jobs */
#define NSYNC 2
static void
op_sync_burst(int n)
{
        static IMB_JOB SJ[4];
        static uint8_t stag[4][32];
        for (int i = 0; i < n; i++) {
                memset(&SJ[i], 0, sizeof SJ[i]);
                SJ[i].chain_order = IMB_ORDER_CIPHER_HASH;
                SJ[i].cipher_direction = IMB_DIR_ENCRYPT;
                SJ[i].cipher_mode = IMB_CIPHER_NULL;
                SJ[i].hash_alg = IMB_AUTH_HMAC_SHA_512;
                SJ[i].src = src;
                SJ[i].msg_len_to_hash_in_bytes = 40;
                SJ[i].auth_tag_output = stag[i];
                SJ[i].auth_tag_output_len_in_bytes = 32;
                SJ[i].u.HMAC._hashed_auth_key_xor_ipad = ipad;
                SJ[i].u.HMAC._hashed_auth_key_xor_opad = opad;
                memset(stag[i], 0, 32);
        }
        stale_errno();
        uint32_t r = IMB_SUBMIT_HASH_BURST(m, SJ, (uint32_t) n, IMB_AUTH_HMAC_SHA_512);
        if (r != (uint32_t) n || imb_get_errno(m))
                viol("sync-burst-count", "synchronous hash burst among asynchronous jobs did not return exactly its own jobs", (long) r, n);
        for (int i = 0; i < n; i++)
                if (SJ[i].status != IMB_STATUS_COMPLETED || memcmp(stag[i], exp_tag[K_S], 32))
                        viol("sync-burst-output", "job of a synchronous hash burst not completed or wrong digest", i, n);
}
static int
base_ops(void)
{
        return is_burst ? NBOPS + NFLUSH : njobops;
}
static int
total_ops(void)
{
        return base_ops() + (is_mixed ? NSYNC : 0);
}
static int
apply(int op)
{
        if (is_mixed && op >= base_ops()) {
                op_sync_burst(op - base_ops() ? 3 : 1);
                post_invariants();
                return 1;
        }
        if (!is_burst) {
                int o = jobops[op];
                if (o < NK)
                        op_submit(o, 0);
                else if (o < 2 * NK)
                        op_submit(o - NK, 1);
                else if (o == 2 * NK)
                        op_flush();
                else
                        op_get_completed();
        } else {
                if (op < NBOPS)
                        op_burst(&BOPS[op]);
                else
                        op_flush_burst(flushmax[op - NBOPS]);
        }
        post_invariants();
        return 1;
}
static char opname_buf[64];
static const char *
opname(int op)
{
        if (is_mixed && op >= base_ops()) {
                snprintf(opname_buf, sizeof opname_buf, "syncburst(%d)", op - base_ops() ? 3 : 1);
                return opname_buf;
        }
        if (!is_burst) {
                int o = jobops[op];
                if (o < NK)
                        snprintf(opname_buf, sizeof opname_buf, "sub(%c)", KCH[o]);
                else if (o < 2 * NK)
                        snprintf(opname_buf, sizeof opname_buf, "subnc(%c)", KCH[o - NK]);
                else
                        snprintf(opname_buf, sizeof opname_buf, "%s", o == 2 * NK ? "flush" : "getc");
        } else if (op < NBOPS) {
                char s[MAXB + 4];
                int n = BOPS[op].n > MAXB ? 0 : BOPS[op].n;
                if (n > 12)
                        n = 12;
                for (int i = 0; i < n; i++)
                        s[i] = KCH[BOPS[op].kinds[i]];
                s[n] = 0;
                snprintf(opname_buf, sizeof opname_buf, "burst%s(%d:%s)", BOPS[op].nocheck ? "nc" : "", BOPS[op].n,
                         s);
        } else
                snprintf(opname_buf, sizeof opname_buf, "flushb(%d)", flushmax[op - NBOPS]);
        return opname_buf;
}

/* snapshot = manager header+ring, the two OOO managers the alphabet reaches, buffers, reference model */
static size_t sz_mgr, sz_h, sz_a;
static void
save(uint8_t *d)
{
        memcpy(d, m, sz_mgr);
        d += sz_mgr;
        memcpy(d, m->hmac_sha_512_ooo, sz_h);
        d += sz_h;
        memcpy(d, m->aes128_ooo, sz_a);
        d += sz_a;
        memcpy(d, &B, sizeof B);
        d += sizeof B;
        memcpy(d, &R, sizeof R);
}
static void
restore(const uint8_t *s)
{
        memcpy(m, s, sz_mgr);
        s += sz_mgr;
        memcpy(m->hmac_sha_512_ooo, s, sz_h);
        s += sz_h;
        memcpy(m->aes128_ooo, s, sz_a);
        s += sz_a;
        memcpy(&B, s, sizeof B);
        s += sizeof B;
        memcpy(&R, s, sizeof R);
}
static uint64_t
key_fn(void)
{
        uint64_t h = hash_bytes(&m->earliest_job, sizeof m->earliest_job, 1);
        h = hash_bytes(&m->next_job, sizeof m->next_job, h);
        h = hash_bytes(&R.count, sizeof R.count, h);
        for (int i = 0; i < R.count; i++) {
                int s = R.slot[i];
                uint32_t x[3] = { (uint32_t) s, R.kind[i], (uint32_t) m->jobs[s].status };
                h = hash_bytes(x, sizeof x, h);
                h = hash_bytes(B.tag[s], 32, h);
                h = hash_bytes(B.dst[s], 32, h);
        }
        h = hash_bytes(m->hmac_sha_512_ooo, offsetof(MB_MGR_HMAC_SHA_512_OOO, road_block), h);
        h = hash_bytes(m->aes128_ooo, offsetof(MB_MGR_AES_OOO, road_block), h);
        return h;
}

static void
solo_expect(void)
{
        for (int k = 0; k < NK; k++) {
                if (k == K_X)
                        continue;
                IMB_JOB *j = IMB_GET_NEXT_JOB(m);
                int slot = (int) (j - m->jobs);
                fill(j, k, slot, 0);
                IMB_JOB *r = IMB_SUBMIT_JOB(m);
                if (!r)
                        r = IMB_FLUSH_JOB(m);
                if (!r || r->status != IMB_STATUS_COMPLETED)
                        DIE("solo job of kind %c failed", KCH[k]);
                memcpy(exp_tag[k], B.tag[slot], 32);
                memcpy(exp_dst[k], B.dst[slot], 32);
        }
}

static void
build_ops(const char *kinds)
{
        for (int k = 0; k < NK; k++)
                kind_on[k] = strchr(kinds, KCH[k]) != NULL;
        njobops = 0;
        for (int k = 0; k < NK; k++)
                if (kind_on[k])
                        jobops[njobops++] = k;
        for (int k = 0; k < NK; k++)
                if (kind_on[k] && k != K_X)
                        jobops[njobops++] = NK + k;
        jobops[njobops++] = 2 * NK;
        jobops[njobops++] = 2 * NK + 1;
        /* burst ops */
        int ak[NK], na = 0;
        for (int k = 0; k < NK; k++)
                if (kind_on[k] && k != K_X)
                        ak[na++] = k;
        size_t cap = 1 << 16;
        BOPS = calloc(cap, sizeof *BOPS);
        NBOPS = 0;
        if (RING <= 16) {
                /* every kind tuple for every burst size 0..MAXB, checked and no-check */
                for (int n = 0; n <= MAXB; n++) {
                        long tot = 1;
                        for (int i = 0; i < n; i++)
                                tot *= na;
                        for (long t = 0; t < tot; t++)
                                for (int nc = 0; nc < 2; nc++) {
                                        if (n == 0 && nc)
                                                continue;
                                        bop_t *b = &BOPS[NBOPS++];
                                        b->n = (uint8_t) n;
                                        b->nocheck = (uint8_t) nc;
                                        long x = t;
                                        for (int i = 0; i < n; i++) {
                                                b->kinds[i] = (uint8_t) ak[x % na];
                                                x /= na;
                                        }
                                }
                        if (kind_on[K_X])
                                for (int p = 0; p < n; p++) { /* invalid job at position p */
                                        bop_t *b = &BOPS[NBOPS++];
                                        b->n = (uint8_t) n;
                                        for (int i = 0; i < n; i++)
                                                b->kinds[i] = (uint8_t) (i == p ? K_X : ak[(i + p) % na]);
                                }
                }
        } else {
                /* true ring: burst sizes chosen to straddle the ring end and hit the size/space limits */
                static const int ns[] = { 0, 1, 2, 3, 15, 16, 17, 126, 127, 128 };
                static const char *pats[] = { "I", "L", "SL", "LSI", "PC", "LIIS" };
                for (unsigned a = 0; a < sizeof ns / sizeof ns[0]; a++)
                        for (unsigned p = 0; p < sizeof pats / sizeof pats[0]; p++)
                                for (int nc = 0; nc < 2; nc++) {
                                        int n = ns[a];
                                        if (n == 0 && (p || nc))
                                                continue;
                                        int ok = 1;
                                        for (const char *c = pats[p]; *c; c++)
                                                if (!strchr(kinds, *c))
                                                        ok = 0;
                                        if (!ok)
                                                continue;
                                        bop_t *b = &BOPS[NBOPS++];
                                        b->n = (uint8_t) n;
                                        b->nocheck = (uint8_t) nc;
                                        size_t pl = strlen(pats[p]);
                                        for (int i = 0; i < n; i++)
                                                b->kinds[i] =
                                                        (uint8_t) (strchr(KCH, pats[p][(size_t) i % pl]) - KCH);
                                }
                if (kind_on[K_X]) {
                        static const int xn[] = { 1, 3, 128 };
                        for (int a = 0; a < 3; a++)
                                for (int pp = 0; pp < 3; pp++) {
                                        int n = xn[a], p = pp == 0 ? 0 : pp == 1 ? n / 2 : n - 1;
                                        bop_t *b = &BOPS[NBOPS++];
                                        b->n = (uint8_t) n;
                                        for (int i = 0; i < n; i++)
                                                b->kinds[i] = (uint8_t) (i == p ? K_X : K_I);
                                }
                }
        }
        bop_t *b = &BOPS[NBOPS++]; /* oversize request */
        b->n = (uint8_t) (MAXB + 1);
}

/* ---------------- seeded mode (true ring) ---------------- */
typedef struct {
        int rot, fill, pat;
} seed_t;
static seed_t *SEEDS;
static long NSEEDS;
static int seed_depth;
static void
run_seed(long si, void *arg)
{
        (void) arg;
        seed_t s = SEEDS[si];
        mgr_init(m, g_v);
        memset(&B, 0, sizeof B);
        memset(&R, 0, sizeof R);
        /* rotate: job API advances next_job on every immediate job; burst API needs a non-empty queue */
        if (!is_burst) {
                for (int i = 0; i < s.rot; i++)
                        op_submit(K_I, 0);
                for (int i = 0; i < s.fill; i++)
                        op_submit(s.pat == 0 ? (i == 0 ? K_L : K_I) : (i % 3 == 0 ? K_L : i % 3 == 1 ? K_S : K_P),
                                  0);
        } else {
                bop_t b;
                int pos = 0; /* slot index of earliest job */
                if (s.rot > 0) {
                        memset(&b, 0, sizeof b);
                        int n = s.rot + 1 > MAXB ? MAXB : s.rot + 1;
                        b.n = (uint8_t) n;
                        b.kinds[0] = K_L;
                        for (int i = 1; i < n; i++)
                                b.kinds[i] = K_I;
                        op_burst(&b);
                        op_flush_burst(n - 1);
                        pos = n - 1;
                        while (pos < s.rot) {
                                int mm = s.rot - pos > MAXB ? MAXB : s.rot - pos;
                                memset(&b, 0, sizeof b);
                                b.n = (uint8_t) mm;
                                for (int i = 0; i < mm; i++)
                                        b.kinds[i] = K_I;
                                op_burst(&b);
                                pos += mm;
                        }
                }
                int have = R.count, want = s.fill;
                while (have < want) {
                        int mm = want - have > MAXB ? MAXB : want - have;
                        memset(&b, 0, sizeof b);
                        b.n = (uint8_t) mm;
                        for (int i = 0; i < mm; i++)
                                b.kinds[i] = (uint8_t) (s.pat == 0 ? (have + i == 0 ? K_L : (i == 0 ? K_L : K_I))
                                                                   : (i % 3 == 0 ? K_L : i % 3 == 1 ? K_S : K_P));
                        int before = R.count;
                        op_burst(&b);
                        have += mm;
                        if (R.count < before + mm)
                                have = R.count; /* some came back */
                        if (R.count == before)
                                break;
                }
        }
        post_invariants();
        stat_max("max_seed_fill", R.count);
        bfs_model M = { .snap_size = sz_mgr + sz_h + sz_a + sizeof B + sizeof R,
                        .save = save,
                        .restore = restore,
                        .nops = total_ops(),
                        .apply = apply,
                        .key = key_fn,
                        .opname = opname,
                        .maxdepth = seed_depth,
                        .nworkers = 1,
                        .max_states = 1 << 16,
                        .max_frontier = 1 << 13,
                        .selfcheck_n = 0 };
        bfs_result r;
        bfs_run(&M, &r);
        stat_add("states", r.states);
        stat_add("transitions", r.transitions);
        stat_add("seeds", 1);
        stat_max("max_depth", r.maxdepth);
        if (r.capped)
                stat_add("caps_hit", 1);
        if (si == 3) {
                rec_begin("sample");
                rec_s("mode", "seeded true ring");
                rec_i("rotation", s.rot);
                rec_i("fill", s.fill);
                rec_i("states", r.states);
                rec_i("transitions", r.transitions);
                rec_end();
        }
}
static void
seed_crash(long si, int sig, void *arg)
{
        (void) arg;
        rec_begin("viol");
        rec_s("site", sig == 14 ? "hang" : "crash");
        rec_i("signal", sig);
        rec_s("variant", VARIANTS[g_v].name);
        rec_s("api", g_api);
        rec_i("ring", RING);
        rec_i("rotation", SEEDS[si].rot);
        rec_i("fill", SEEDS[si].fill);
        rec_end();
}

int
main(int argc, char **argv)
{
        c14_mode = argc > 4 && !strcmp(argv[4], "C14");
        rec_init(c14_mode ? "C14" : "C05", getenv("VERIF_TIER") ? getenv("VERIF_TIER") : "quick");
        g_api = argc > 1 ? argv[1] : "job";
        is_burst = !strncmp(g_api, "burst", 5);
        is_mixed = strstr(g_api, "+sync") != NULL; /* "job+sync" / "burst+sync": synchronous hash bursts join the alphabet */
        const char *vsel = argc > 2 ? argv[2] : "all";
        const char *kinds = argc > 3 ? argv[3] : "ISLPCX";
        g_kinds = kinds;
        for (int i = 1; i + 1 < argc; i++)
                if (!strcmp(argv[i], "--path"))
                        replay_path = argv[i + 1];
        int thorough = tier_thorough();
        fill_rand(key, 16, 11);
        fill_rand(iv, 16, 12);
        fill_rand(src, sizeof src, 13);
        build_ops(kinds);
        for (int v = 0; v < NVARIANTS; v++) {
                char vtok[8];
                snprintf(vtok, sizeof vtok, ",%d,", v);
                char vlist[64];
                snprintf(vlist, sizeof vlist, ",%s,", vsel);
                if (strcmp(vsel, "all") && !strstr(vlist, vtok))
                        continue;
                if (!variant_usable(v))
                        continue;
                g_v = v;
                g_tcall_ctx = VARIANTS[v].name;
                m = mgr_new(v);
                sz_mgr = sizeof(IMB_MGR);
                sz_h = sizeof(MB_MGR_HMAC_SHA_512_OOO);
                sz_a = sizeof(MB_MGR_AES_OOO);
                IMB_AES_KEYEXP_128(m, key, ek, dk);
                imb_hmac_ipad_opad(m, IMB_AUTH_HMAC_SHA_512, key, 16, ipad, opad);
                solo_expect();
                mgr_init(m, v);
                memset(&B, 0, sizeof B);
                memset(&R, 0, sizeof R);
                if (replay_path) {
                        /* plain replay of one recorded path from the initial state, without the explorer: c05 <api> <v> <kinds> --path "<ops>" */
                        char *copy = strdup(replay_path), *save = NULL;
                        int nrun = 0;
                        for (char *tok = strtok_r(copy, " ", &save); tok; tok = strtok_r(NULL, " ", &save)) {
                                if (!strcmp(tok, "->"))
                                        continue;
                                int op = -1;
                                for (int q = 0; q < total_ops(); q++)
                                        if (!strcmp(opname(q), tok))
                                                op = q;
                                if (op < 0)
                                        DIE("replay: unknown operation '%s' for api %s kinds %s", tok, g_api, kinds);
                                apply(op);
                                nrun++;
                        }
                        printf("replayed %d operations on %s (%s, ring %d)\n", nrun, VARIANTS[v].name, g_api, (int) RING);
                        free(copy);
                        free_mb_mgr(m);
                        continue;
                }
                if (RING <= 16) {
                        const int small_alpha = !strchr(kinds, 'P') && !strchr(kinds, 'C');
                        bfs_model M = { .snap_size = sz_mgr + sz_h + sz_a + sizeof B + sizeof R,
                                        .save = save,
                                        .restore = restore,
                                        .nops = total_ops(),
                                        .apply = apply,
                                        .key = key_fn,
                                        .opname = opname,
                                        .maxdepth = -1,
                                        .nworkers = n_workers(),
                                        .max_states = getenv("VERIF_BFS_STATES") ? strtoul(getenv("VERIF_BFS_STATES"), 0, 0) : (RING <= 4 ? (small_alpha ? (1u << 21) : (1u << 23)) : (1u << 26)),
                                        .max_frontier = getenv("VERIF_BFS_FRONTIER") ? strtoul(getenv("VERIF_BFS_FRONTIER"), 0, 0) : (RING <= 4 ? (small_alpha ? (1u << 19) : (1u << 20)) : (1u << 21)),
                                        .selfcheck_n = 2000 };
                        bfs_result r;
                        bfs_run(&M, &r);
                        stat_add("states", r.states);
                        stat_add("transitions", r.transitions);
                        stat_add("merged_duplicates", r.dups);
                        stat_add("selfcheck_reexpanded", r.selfcheck_reexpanded);
                        stat_add("selfcheck_divergences", r.selfcheck_divergences);
                        stat_add("fixpoints_reached", r.fixpoint);
                        stat_add("explorations", 1);
                        stat_max("max_depth", r.maxdepth);
                        if (r.capped)
                                stat_add("caps_hit", 1);
                        if (r.selfcheck_divergences)
                                DIE("abstraction unsound: %lld successor(s) of merged states unknown",
                                    r.selfcheck_divergences);
                        if (r.crashed) {
                                rec_begin("viol");
                                rec_s("site", "crash");
                                rec_i("signal", r.crashed);
                                rec_s("variant", VARIANTS[v].name);
                                rec_s("api", g_api);
                                rec_i("ring", RING);
                                rec_s("path", r.crash_path);
                                rec_end();
                        }
                        rec_begin("sample");
                        rec_s("mode", "fixpoint on reduced ring");
                        rec_s("variant", VARIANTS[v].name);
                        rec_s("api", g_api);
                        rec_i("ring", RING);
                        rec_s("kinds", kinds);
                        rec_i("states", r.states);
                        rec_i("transitions", r.transitions);
                        rec_i("depth", r.maxdepth);
                        rec_i("fixpoint", r.fixpoint);
                        rec_end();
                } else {
                        static const int rots_q[] = { 0, 1, 127, 128, 254, 255 };
                        static const int fills[] = { 0, 1, 2, 126, 127, 128, 129, 130, 253, 254, 255 };
                        int nrot = thorough ? 256 : 6;
                        seed_depth = thorough ? (is_burst ? 3 : 5) : (is_burst ? 2 : 4);
                        SEEDS = calloc((size_t) nrot * 11 * 2, sizeof *SEEDS);
                        NSEEDS = 0;
                        for (int a = 0; a < nrot; a++)
                                for (int f = 0; f < 11; f++)
                                        for (int p = 0; p < 2; p++) {
                                                int rot = thorough ? a : rots_q[a];
                                                if (thorough && is_burst && (a % 4) && a > 2 && a < 253 &&
                                                    (a < 125 || a > 131))
                                                        continue;
                                                SEEDS[NSEEDS++] = (seed_t){ rot, fills[f], p };
                                        }
                        par_run(NSEEDS, n_workers(), run_seed, seed_crash, NULL, 300);
                        free(SEEDS);
                }
                free_mb_mgr(m);
        }
        rec_begin("meta");
        rec_s("rule",
              "state = bytes of the real manager (ring header, queued descriptors' kind/status, OOO lane managers, "
              "output buffers) + FIFO reference; transition = one real API call (job API: get_next+submit checked/"
              "no-check per job kind, flush, get_completed; burst API: get_next_burst+submit_burst checked/no-check "
              "for every kind tuple and size 0..max+1, flush_burst with 6 limits); kinds I=immediate S/L=HMAC-SHA-512 "
              "short/long (out-of-order completion) P=AES-CBC (8/16 lanes) C=chained CBC+HMAC X=rejected; oracle = "
              "FIFO reference + solo outputs + queue_size + get_next slot freshness after every call");
        rec_end();
        stats_emit();
        return 0;
}
