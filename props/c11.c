/* C11 - key-preparation helpers produce exactly the standard key material (M-shape, DESIGN.md 4/C11).
 * (a) values with a documented layout are compared with the reference: AES-128/192/256 encryption schedules
 *     (FIPS-197 key expansion), CMAC sub-keys K1/K2, XCBC K1 (expanded) / K2 / K3, HMAC ipad/opad states for EVERY key
 *     length 0..2*block+17 of the 7 hashes (HMAC-MD5 keys longer than one block must be refused with the key-length
 *     error), the six 3GPP IV generators over boundary COUNT/BEARER/DIRECTION/FRESH values;
 * (b) library-private layouts (AES decrypt schedules, DES schedules, GCM/GHASH tables, SM4 round keys, KASUMI and
 *     SNOW3G schedules) are decided by consumption: a job using the helper's output equals the reference, over the
 *     key alphabet {all-zero, all-one, every single-bit key, byte patterns, the 16 weak/semi-weak DES keys, 32
 *     seed-derived keys};
 * (c) material whose format is common to all variants must be byte-identical across the 7 variants.        */
#include "algs.h"
#include "ref_modes.h"
#include "ref_3gpp.h"

static int g_v;
static IMB_MGR *m;
static void
viol(const char *helper, const char *site, const char *detail, long x, long y)
{
        char sig[200];
        snprintf(sig, sizeof sig, "C11|%s|%s|%s", helper, site, VARIANTS[g_v].name);
        if (!rec_sig_ok(sig, 3))
                return;
        rec_begin("viol");
        rec_s("site", site);
        rec_s("alg", helper);
        rec_s("detail", detail);
        rec_s("variant", VARIANTS[g_v].name);
        rec_i("x", x);
        rec_i("y", y);
        rec_end();
}

/* FIPS-197 key expansion written out (S-box derived algebraically: inverse in GF(2^8) + affine map) */
static uint8_t SBOX[256];
static uint8_t
gmul(uint8_t a, uint8_t b)
{
        uint8_t p = 0;
        for (int i = 0; i < 8; i++) {
                if (b & 1)
                        p ^= a;
                uint8_t hi = a & 0x80;
                a = (uint8_t) (a << 1);
                if (hi)
                        a ^= 0x1b;
                b >>= 1;
        }
        return p;
}
static void
mk_sbox(void)
{
        for (int x = 0; x < 256; x++) {
                uint8_t inv = 0;
                if (x)
                        for (int y = 1; y < 256; y++)
                                if (gmul((uint8_t) x, (uint8_t) y) == 1) {
                                        inv = (uint8_t) y;
                                        break;
                                }
                uint8_t s = inv, r = inv;
                for (int i = 0; i < 4; i++) {
                        r = (uint8_t) ((r << 1) | (r >> 7));
                        s ^= r;
                }
                SBOX[x] = s ^ 0x63;
        }
}
static void
ref_aes_keyexp(const uint8_t *key, int klen, uint8_t *out /* (rounds+1)*16 */)
{
        int nk = klen / 4, nr = nk + 6, nw = 4 * (nr + 1);
        uint8_t rcon = 1;
        memcpy(out, key, (size_t) klen);
        for (int i = nk; i < nw; i++) {
                uint8_t t[4];
                memcpy(t, out + 4 * (i - 1), 4);
                if (i % nk == 0) {
                        uint8_t x = t[0];
                        t[0] = SBOX[t[1]] ^ rcon;
                        t[1] = SBOX[t[2]];
                        t[2] = SBOX[t[3]];
                        t[3] = SBOX[x];
                        rcon = gmul(rcon, 2);
                } else if (nk > 6 && i % nk == 4)
                        for (int q = 0; q < 4; q++)
                                t[q] = SBOX[t[q]];
                for (int q = 0; q < 4; q++)
                        out[4 * i + q] = out[4 * (i - nk) + q] ^ t[q];
        }
}

static long long n_eval;
static uint8_t ALLV[NVARIANTS][4096]; /* digest of common-format outputs per variant (filled by variant workers through a file?) */

static void
key_bytes(int keyid, uint8_t raw[64])
{
        /* same derivation as the catalogue's keysets */
        IMB_MGR *t = m;
        keyset_t *k = keyset_new(t, keyid);
        memcpy(raw, keyset_raw(k), 64);
        keyset_free(k);
}

static int KEYIDS[512];
static int NKEYS;

static void
layout_checks(void)
{
        uint8_t raw[64];
        for (int ki = 0; ki < NKEYS; ki++) {
                key_bytes(KEYIDS[ki], raw);
                DECLARE_ALIGNED(uint8_t e[256], 64);
                DECLARE_ALIGNED(uint8_t d[256], 64);
                uint8_t r[256];
                static const int KL[3] = { 16, 24, 32 };
                for (int q = 0; q < 3; q++) { /* GCM_PRECOMP on already expanded keys = GCM_PRE from the raw key */
                        static struct gcm_key_data g1 __attribute__((aligned(64))), g2 __attribute__((aligned(64)));
                        DECLARE_ALIGNED(uint8_t dd[256], 64);
                        memset(&g1, 0, sizeof g1);
                        memset(&g2, 0, sizeof g2);
                        if (q == 0) {
                                IMB_AES128_GCM_PRE(m, raw, &g1);
                                IMB_AES_KEYEXP_128(m, raw, g2.expanded_keys, dd);
                                IMB_AES128_GCM_PRECOMP(m, &g2);
                        } else if (q == 1) {
                                IMB_AES192_GCM_PRE(m, raw, &g1);
                                IMB_AES_KEYEXP_192(m, raw, g2.expanded_keys, dd);
                                IMB_AES192_GCM_PRECOMP(m, &g2);
                        } else {
                                IMB_AES256_GCM_PRE(m, raw, &g1);
                                IMB_AES_KEYEXP_256(m, raw, g2.expanded_keys, dd);
                                IMB_AES256_GCM_PRECOMP(m, &g2);
                        }
                        n_eval++;
                        if (memcmp(&g1, &g2, sizeof g1))
                                viol(q == 0 ? "gcm128-precomp" : q == 1 ? "gcm192-precomp" : "gcm256-precomp", "key-data",
                                     "GCM_PRECOMP over expanded keys gives other key data than GCM_PRE from the raw key", KEYIDS[ki], 0);
                }
                for (int q = 0; q < 3; q++) {
                        memset(e, 0xEE, sizeof e);
                        memset(d, 0xDD, sizeof d);
                        if (q == 0)
                                IMB_AES_KEYEXP_128(m, raw, e, d);
                        else if (q == 1)
                                IMB_AES_KEYEXP_192(m, raw, e, d);
                        else
                                IMB_AES_KEYEXP_256(m, raw, e, d);
                        int nr = KL[q] / 4 + 6;
                        ref_aes_keyexp(raw, KL[q], r);
                        n_eval++;
                        if (memcmp(e, r, (size_t) (nr + 1) * 16))
                                viol(q == 0 ? "aes-keyexp-128" : q == 1 ? "aes-keyexp-192" : "aes-keyexp-256", "enc-schedule",
                                     "encryption key schedule differs from FIPS-197 key expansion", KEYIDS[ki], 0);
                        if (e[(nr + 1) * 16] != 0xEE || d[(nr + 1) * 16] != 0xDD)
                                viol("aes-keyexp", "overrun", "key expansion wrote past (rounds+1)*16 bytes", KEYIDS[ki], q);
                        /* decrypt schedule: first and last round keys are the encryption ones swapped (equivalent inverse cipher) */
                        if (memcmp(d, r + nr * 16, 16) || memcmp(d + nr * 16, r, 16))
                                viol("aes-keyexp", "dec-schedule-ends", "decrypt schedule does not start/end with the last/first round key",
                                     KEYIDS[ki], q);
                }
                /* CMAC sub-keys */
                for (int q = 0; q < 2; q++) {
                        DECLARE_ALIGNED(uint8_t s1[16], 16);
                        DECLARE_ALIGNED(uint8_t s2[16], 16);
                        uint8_t r1[16], r2[16];
                        if (q == 0) {
                                IMB_AES_KEYEXP_128(m, raw, e, d);
                                IMB_AES_CMAC_SUBKEY_GEN_128(m, e, s1, s2);
                        } else {
                                IMB_AES_KEYEXP_256(m, raw, e, d);
                                IMB_AES_CMAC_SUBKEY_GEN_256(m, e, s1, s2);
                        }
                        ref_aes_cmac_subkeys(raw, q ? 32 : 16, r1, r2);
                        n_eval++;
                        if (memcmp(s1, r1, 16) || memcmp(s2, r2, 16))
                                viol(q ? "cmac-subkey-gen-256" : "cmac-subkey-gen-128", "subkeys", "CMAC sub-keys K1/K2 differ from SP 800-38B",
                                     KEYIDS[ki], 0);
                }
                /* XCBC */
                {
                        DECLARE_ALIGNED(uint8_t k1e[11 * 16 + 16], 16);
                        DECLARE_ALIGNED(uint8_t k2[16], 16);
                        DECLARE_ALIGNED(uint8_t k3[16], 16);
                        uint8_t r1[16], r2[16], r3[16];
                        memset(k1e, 0xEE, sizeof k1e);
                        IMB_AES_XCBC_KEYEXP(m, raw, k1e, k2, k3);
                        ref_aes_xcbc_keys(raw, r1, r2, r3);
                        ref_aes_keyexp(r1, 16, r);
                        n_eval++;
                        if (memcmp(k1e, r, 176) || memcmp(k2, r2, 16) || memcmp(k3, r3, 16))
                                viol("xcbc-keyexp", "keys", "XCBC K1 schedule / K2 / K3 differ from RFC 3566", KEYIDS[ki], 0);
                        if (k1e[176] != 0xEE)
                                viol("xcbc-keyexp", "overrun", "XCBC key expansion wrote past 176 bytes of K1", KEYIDS[ki], 0);
                }
        }
        /* HMAC ipad/opad: every key length */
        static const struct {
                IMB_HASH_ALG h;
                int ref, state, block;
                const char *n;
        } H[7] = { { IMB_AUTH_HMAC_SHA_1, REF_SHA1, 20, 64, "hmac-ipad-opad-sha1" },     { IMB_AUTH_HMAC_SHA_224, REF_SHA224, 32, 64, "hmac-ipad-opad-sha224" },
                   { IMB_AUTH_HMAC_SHA_256, REF_SHA256, 32, 64, "hmac-ipad-opad-sha256" }, { IMB_AUTH_HMAC_SHA_384, REF_SHA384, 64, 128, "hmac-ipad-opad-sha384" },
                   { IMB_AUTH_HMAC_SHA_512, REF_SHA512, 64, 128, "hmac-ipad-opad-sha512" }, { IMB_AUTH_MD5, REF_MD5, 16, 64, "hmac-ipad-opad-md5" },
                   { IMB_AUTH_HMAC_SM3, REF_SM3, 32, 64, "hmac-ipad-opad-sm3" } };
        uint8_t key[300];
        for (int hi = 0; hi < 7; hi++)
                for (int kl = 0; kl <= 2 * H[hi].block + 17; kl++)
                        for (int kv = 0; kv < 3; kv++) {
                                if (kv == 0)
                                        fill_rand(key, sizeof key, 300 + (uint64_t) kl);
                                else
                                        memset(key, kv == 1 ? 0x00 : 0xff, sizeof key);
                                DECLARE_ALIGNED(uint8_t ip[160], 64);
                                DECLARE_ALIGNED(uint8_t op[160], 64);
                                uint8_t rip[128], rop[128];
                                memset(ip, 0xCC, sizeof ip);
                                memset(op, 0xCC, sizeof op);
                                imb_hmac_ipad_opad(m, H[hi].h, key, (size_t) kl, ip, op);
                                int e = imb_get_errno(m);
                                n_eval++;
                                if (H[hi].ref == REF_MD5 && kl > 64) {
                                        if (e != IMB_ERR_KEY_LEN)
                                                viol(H[hi].n, "md5-long-key", "HMAC-MD5 key longer than one block not refused with the key-length error", kl, e);
                                        continue;
                                }
                                if (e) {
                                        viol(H[hi].n, "errno", "helper refused a key length it must accept", kl, e);
                                        continue;
                                }
                                memset(rip, 0, sizeof rip);
                                memset(rop, 0, sizeof rop);
                                ref_hmac_ipad_opad(H[hi].ref, key, (size_t) kl, rip, rop);
                                if (memcmp(ip, rip, (size_t) H[hi].state) || memcmp(op, rop, (size_t) H[hi].state))
                                        viol(H[hi].n, "state", "ipad/opad chaining values differ from RFC 2104 derivation (x = key length)", kl, kv);
                                if (ip[H[hi].state] != 0xCC || op[H[hi].state] != 0xCC)
                                        viol(H[hi].n, "overrun", "helper wrote past the state size", kl, 0);
                        }
        /* 3GPP IV generators */
        static const uint32_t CNT[] = { 0, 1, 0x7FFFFFFF, 0x80000000, 0xFFFFFFFE, 0xFFFFFFFF, 0x12345678, 0x00FF00FF };
        for (unsigned c = 0; c < 8; c++)
                for (unsigned b = 0; b < 32; b++)
                        for (unsigned dr = 0; dr < 2; dr++) {
                                uint8_t a[32], r2[32];
                                n_eval += 6;
                                memset(a, 0, 32);
                                memset(r2, 0, 32);
                                zuc_eea3_iv_gen(CNT[c], (uint8_t) b, (uint8_t) dr, a);
                                ref_zuc_eea3_iv_gen(CNT[c], (uint8_t) b, (uint8_t) dr, r2);
                                if (memcmp(a, r2, 16))
                                        viol("zuc-eea3-iv-gen", "iv", "IV differs from the 128-EEA3 specification", c, b * 2 + dr);
                                zuc_eia3_iv_gen(CNT[c], (uint8_t) b, (uint8_t) dr, a);
                                ref_zuc_eia3_iv_gen(CNT[c], (uint8_t) b, (uint8_t) dr, r2);
                                if (memcmp(a, r2, 16))
                                        viol("zuc-eia3-iv-gen", "iv", "IV differs from the 128-EIA3 specification", c, b * 2 + dr);
                                snow3g_f8_iv_gen(CNT[c], (uint8_t) b, (uint8_t) dr, a);
                                ref_snow3g_f8_iv_gen(CNT[c], (uint8_t) b, (uint8_t) dr, r2);
                                if (memcmp(a, r2, 16))
                                        viol("snow3g-f8-iv-gen", "iv", "IV differs from the UEA2 specification", c, b * 2 + dr);
                                snow3g_f9_iv_gen(CNT[c], CNT[(c + b) % 8], (uint8_t) dr, a);
                                ref_snow3g_f9_iv_gen(CNT[c], CNT[(c + b) % 8], (uint8_t) dr, r2);
                                if (memcmp(a, r2, 16))
                                        viol("snow3g-f9-iv-gen", "iv", "IV differs from the UIA2 specification", c, b * 2 + dr);
                                kasumi_f8_iv_gen(CNT[c], (uint8_t) b, (uint8_t) dr, a);
                                ref_kasumi_f8_iv_gen(CNT[c], (uint8_t) b, (uint8_t) dr, r2);
                                if (memcmp(a, r2, 8))
                                        viol("kasumi-f8-iv-gen", "iv", "IV differs from the UEA1 specification", c, b * 2 + dr);
                                kasumi_f9_iv_gen(CNT[c], CNT[(c + b) % 8], a);
                                ref_kasumi_f9_iv_gen(CNT[c], CNT[(c + b) % 8], r2);
                                if (memcmp(a, r2, 8))
                                        viol("kasumi-f9-iv-gen", "iv", "IV differs from the UIA1 specification", c, b);
                        }
}

/* (b) consumption: one job per helper family over the key alphabet */
static const char *CONSUME[] = { "aes-cbc-128", "aes-cbc-192", "aes-cbc-256", "aes-ecb-128", "aes-ecb-256", "aes-ctr-192", "des-cbc", "3des-cbc",
                                 "docsis-des", "aes-cmac-128", "aes-cmac-256", "aes-xcbc", "hmac-sha1", "hmac-sha224", "hmac-sha256", "hmac-sha384",
                                 "hmac-sha512", "hmac-md5", "hmac-sm3", "aes-gcm-128", "aes-gcm-192", "aes-gcm-256", "aes-gmac-128", "ghash",
                                 "sm4-ecb", "sm4-cbc", "sm4-ctr", "sm4-gcm", "kasumi-f8", "kasumi-f9", "snow3g-uea2", "snow3g-uia2", "aes-ccm-128",
                                 "aes-ccm-256", "aes-cfb-128", "docsis-aes-256" };
#define NCONS ((int) (sizeof CONSUME / sizeof CONSUME[0]))
static void
consumption(void)
{
        uint8_t src[160], dst[160], tag[80], iv[32], aad[32], ed[160], et[80], niv[32], eniv[16];
        for (int ki = 0; ki < NKEYS; ki++) {
                keyset_t *ks = keyset_new(m, KEYIDS[ki]);
                for (int c = 0; c < NCONS; c++) {
                        int a = alg_id(CONSUME[c]);
                        const alg_t *A = &ALGS[a];
                        for (int dir = (A->kind == AK_HASH ? 1 : 0); dir < 2; dir++) {
                                fill_rand(src, sizeof src, 17);
                                fill_rand(iv, sizeof iv, 18);
                                fill_rand(aad, sizeof aad, 19);
                                memset(dst, 0, sizeof dst);
                                memset(tag, 0, sizeof tag);
                                item_t it = { 0 };
                                it.alg = a;
                                it.dir = dir;
                                it.len = A->bitlen ? 77 * 8 + (A->family == F_KASUMI || A->family == F_SNOW3G ? 3 : 0) : 80;
                                while (!alg_len_ok(a, it.len))
                                        it.len++;
                                it.ks = ks;
                                it.src = src;
                                it.dst = A->kind == AK_HASH ? NULL : dst;
                                it.iv = iv;
                                it.aad = aad;
                                it.aadlen = A->kind == AK_AEAD ? 12 : 0;
                                it.tag = tag;
                                it.next_iv = niv;
                                IMB_JOB *j = X_GET_NEXT(m);
                                alg_fill(m, j, &it);
                                IMB_JOB *r = X_SUBMIT(m);
                                if (!r)
                                        r = X_FLUSH(m);
                                n_eval++;
                                if (!r || r->status != IMB_STATUS_COMPLETED) {
                                        viol(A->name, "consumption-job-failed", "job using helper output not completed (x = key id)", KEYIDS[ki], dir);
                                        continue;
                                }
                                uint8_t prev[160] = { 0 };
                                int mask = alg_ref(&it, prev, ed, et, eniv);
                                if ((mask & 1) && alg_cmp_dst(&it, dst, ed))
                                        viol(A->name, "consumption-output", "job using the helper's key material differs from the reference (x = key id)",
                                             KEYIDS[ki], dir);
                                if ((mask & 2) && memcmp(tag, et, (size_t) item_taglen(&it)))
                                        viol(A->name, "consumption-tag", "tag using the helper's key material differs from the reference (x = key id)",
                                             KEYIDS[ki], dir);
                        }
                }
                keyset_free(ks);
        }
}

/* (c) common formats byte-identical across variants: each worker hashes its outputs; the parent compares */
static uint64_t
common_digest(void)
{
        uint64_t h = 5;
        uint8_t raw[64];
        for (int ki = 0; ki < NKEYS; ki += 7) {
                key_bytes(KEYIDS[ki], raw);
                DECLARE_ALIGNED(uint8_t e[256], 64);
                DECLARE_ALIGNED(uint8_t d[256], 64);
                memset(e, 0, sizeof e);
                memset(d, 0, sizeof d);
                IMB_AES_KEYEXP_128(m, raw, e, d);
                h = hash_bytes(e, 176, h);
                h = hash_bytes(d, 176, h);
                IMB_AES_KEYEXP_192(m, raw, e, d);
                h = hash_bytes(e, 208, h);
                h = hash_bytes(d, 208, h);
                IMB_AES_KEYEXP_256(m, raw, e, d);
                h = hash_bytes(e, 240, h);
                h = hash_bytes(d, 240, h);
                DECLARE_ALIGNED(uint64_t ds[16], 16);
                IMB_DES_KEYSCHED(m, ds, raw);
                h = hash_bytes(ds, sizeof ds, h);
                DECLARE_ALIGNED(uint32_t se[32], 16);
                DECLARE_ALIGNED(uint32_t sd[32], 16);
                IMB_SM4_KEYEXP(m, raw, se, sd);
                h = hash_bytes(se, sizeof se, h);
                h = hash_bytes(sd, sizeof sd, h);
                snow3g_key_schedule_t sk;
                memset(&sk, 0, sizeof sk);
                IMB_SNOW3G_INIT_KEY_SCHED(m, raw, &sk);
                h = hash_bytes(&sk, sizeof sk, h);
                kasumi_key_sched_t k8, k9;
                memset(&k8, 0, sizeof k8);
                memset(&k9, 0, sizeof k9);
                IMB_KASUMI_INIT_F8_KEY_SCHED(m, raw, &k8);
                IMB_KASUMI_INIT_F9_KEY_SCHED(m, raw, &k9);
                h = hash_bytes(&k8, sizeof k8, h);
                h = hash_bytes(&k9, sizeof k9, h);
        }
        return h;
}

static uint64_t *DIG; /* shared */
static void
run_variant(long v, void *arg)
{
        (void) arg;
        g_v = (int) v;
        if (!variant_usable(g_v))
                return;
        m = mgr_new(g_v);
        g_tcall_ctx = VARIANTS[g_v].name;
        layout_checks();
        consumption();
        DIG[v] = common_digest();
        stat_add("evaluations", n_eval);
        stat_add("distinct_nontrivial", n_eval);
        stat_add("variants_run", 1);
        free_mb_mgr(m);
}
static void
crashed(long v, int sig, void *arg)
{
        (void) arg;
        rec_begin("viol");
        rec_s("site", sig == 14 ? "hang" : "crash");
        rec_i("signal", sig);
        rec_s("alg", "key-helper");
        rec_s("variant", VARIANTS[v].name);
        rec_end();
}
#include <sys/mman.h>
int
main(void)
{
        rec_init("C11", getenv("VERIF_TIER") ? getenv("VERIF_TIER") : "quick");
        (void) ALLV;
        mk_sbox();
        region_t R = region_new(1);
        alg_set_poison(R.base - 2048);
        KEYIDS[NKEYS++] = 1000;
        KEYIDS[NKEYS++] = 1001;
        for (int b = 0; b < 256; b++)
                KEYIDS[NKEYS++] = 1002 + b;
        for (int p = 0; p < 32; p++)
                KEYIDS[NKEYS++] = 1258 + p;
        for (int w = 0; w < 16; w++)
                KEYIDS[NKEYS++] = 2000 + w;
        int nr = tier_thorough() ? 128 : 32;
        for (int r = 0; r < nr; r++)
                KEYIDS[NKEYS++] = 100 + r;
        DIG = mmap(0, 4096, PROT_READ | PROT_WRITE, MAP_SHARED | MAP_ANONYMOUS, -1, 0);
        par_run(NVARIANTS, n_workers(), run_variant, crashed, NULL, 1800);
        int first = -1;
        for (int v = 0; v < NVARIANTS; v++) {
                if (!DIG[v])
                        continue;
                if (first < 0)
                        first = v;
                else if (DIG[v] != DIG[first]) {
                        g_v = v;
                        viol("common-format-material", "cross-variant", "AES/DES/SM4/SNOW3G/KASUMI key material differs between variants (x = other variant)",
                             first, 0);
                }
        }
        rec_begin("sample");
        rec_s("helper", "imb_hmac_ipad_opad(HMAC-SHA-1)");
        rec_s("case", "key length 64 (= block size), random key: ipad/opad states vs RFC 2104 reference; key lengths 0..145 all enumerated");
        rec_i("keys_in_alphabet", NKEYS);
        rec_end();
        rec_begin("meta");
        rec_s("rule", "case = (helper, variant, key from the alphabet / key length); documented layouts compared with the reference, "
                      "private layouts decided by consumption in a job, common formats compared across variants");
        rec_end();
        stats_emit();
        return 0;
}
