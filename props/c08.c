/* C08 - all implementation variants give bit-identical results; protected data is recovered by any other variant;
 * automatic selection equals the explicit one; a variant whose CPU features are missing fails cleanly.
 * Part A (M-shape): every algorithm row x direction x length of the sweep (dense small lengths, every SIMD stride
 *   boundary +-1, the long-message region where 8-block counter fast paths wrap) x 3 IV classes is run on all 7
 *   variants: destination, tag, next_iv, status and error code must be identical on all of them (pairwise equality
 *   through the first variant). The ciphertext+tag of the first variant is then decrypted on every variant:
 *   plaintext (out-of-place rows) and tag must come back, identical everywhere - with equality of the ciphertexts
 *   this is every one of the 49 (protecting, recovering) pairs. A set of invalid jobs per row must be refused with
 *   the same status and error code on every variant.
 * Part B: init_mb_mgr_auto for the flag sets {0, SHANI_OFF, GFNI_OFF, both} binds exactly what the explicit init of
 *   the architecture it reports binds (whole handler table, features, arch, type).
 * Part C (M-fault): for every init function x every single CPU feature bit of its required set cleared in
 *   mgr->features (what a CPU lacking it produces) x prior state (fresh from alloc / initialised as each variant):
 *   in a forked child the init call must not fault, must report IMB_ERR_MISSING_CPUFLAGS_INIT_MGR (auto: fall back
 *   to the best remaining architecture) and must leave previously bound handlers untouched; init(NULL) must not
 *   fault. */
#include "algs.h"
#include <sys/wait.h>
#include <unistd.h>

#define MAXL 16640
typedef struct {
        uint8_t src[MAXL + 64], dst[MAXL + 64], iv[96], aad[32], tag[64], niv[16];
} wb_t;
static wb_t *W, *Wd;
static IMB_MGR *M[NVARIANTS];
static keyset_t *K[NVARIANTS];
static const alg_t *A;
static int g_a, g_dir;
static long long n_eval, n_cmp, n_dec;
static const char *g_geom; /* set while a DOCSIS frame geometry other than the canonical one is exercised */
static uint32_t g_coff, g_short; /* ... its cipher offset and by how many bytes the cipher range ends before the CRC field */

static void
viol(const char *site, int v, uint32_t len, int ivc, const char *detail, long x)
{
        char sig[220];
        /* the record cap is per class: geometry classes that are known findings must not use up the quota of their neighbours */
        snprintf(sig, sizeof sig, "C08|%s|%s|%s|%d|%u|%d|%d", site, A ? A->name : "-", v >= 0 ? VARIANTS[v].name : "-", g_dir, g_geom ? g_coff : 0,
                 g_geom ? g_short != 0 : 0, g_geom ? len <= 4 : 0);
        if (!rec_sig_ok(sig, 2))
                return;
        rec_begin("viol");
        rec_s("site", site);
        rec_s("alg", A ? A->name : "-");
        rec_s("variant", v >= 0 ? VARIANTS[v].name : "-");
        rec_s("detail", detail);
        rec_i("dir", g_dir);
        rec_i("len", len);
        rec_i("iv_class", ivc);
        rec_i("x", x);
        if (g_geom) {
                rec_s("geometry", g_geom);
                rec_i("cipher_off", g_coff);
                rec_i("cipher_ends_before_crc_by", g_short);
        }
        rec_end();
}
static void
mk(item_t *it, wb_t *b, int v, int dir, uint32_t len)
{
        memset(it, 0, sizeof *it);
        it->alg = g_a;
        it->dir = dir;
        it->len = len;
        it->ks = K[v];
        it->src = b->src;
        it->dst = A->inplace_only ? b->src : b->dst;
        it->iv = b->iv;
        it->aad = b->aad;
        it->aadlen = A->kind == AK_AEAD ? 13 : 0;
        it->tag = b->tag;
        it->next_iv = b->niv;
        if (A->family == F_DOCSISCRC) {
                it->hash_off = 0;
                it->hash_len = len + 8;
                it->cipher_off = 12;
        }
}
static void
inputs(wb_t *b, uint32_t nb, int ivc, uint32_t len)
{
        fill_rand(b->src, nb + 64, 4000 + nb);
        fill_rand(b->iv, sizeof b->iv, 4100 + (uint64_t) ivc);
        fill_rand(b->aad, 32, 4200);
        if (ivc == 1) /* counter about to carry out of the low byte / low word */
                memset(b->iv + 8, 0xff, 8);
        if (ivc == 2)
                memset(b->iv, 0, 32);
        for (int q = 17; q < 25; q++)
                b->iv[q] &= 0x3f;
        if (A->family == F_PON) {
                uint32_t pli = len > 8 ? len - 8 : 0;
                b->src[0] = (uint8_t) (pli >> 6);
                b->src[1] = (uint8_t) (pli << 2);
        }
        memset(b->dst, 0, nb + 64);
        memset(b->tag, 0, sizeof b->tag);
        memset(b->niv, 0, sizeof b->niv);
}
/* run one job on variant v; returns status, *e = error code */
static int
run(int v, const item_t *it, int *e, int mutate)
{
        IMB_MGR *m = M[v];
        IMB_JOB *j = X_GET_NEXT(m);
        alg_fill(m, j, it);
        switch (mutate) {
        case 1: j->src = NULL; break;
        case 2: j->key_len_in_bytes = 17; break;
        case 3: j->auth_tag_output_len_in_bytes = 0; break;
        case 4: j->iv_len_in_bytes = 5; break;
        case 5: j->msg_len_to_cipher_in_bytes = 0, j->msg_len_to_hash_in_bytes = 0; break;
        case 6: j->cipher_direction = (IMB_CIPHER_DIRECTION) 7; break;
        case 7: j->hash_alg = (IMB_HASH_ALG) 0; break;
        case 8: j->dst = NULL, j->auth_tag_output = NULL; break;
        default: break;
        }
        IMB_JOB *r = X_SUBMIT(m);
        *e = imb_get_errno(m);
        if (!r)
                r = X_FLUSH(m);
        int st = r ? (int) r->status : -1;
        while (X_FLUSH(m))
                ;
        return st;
}
static size_t
span(uint32_t len)
{
        uint32_t nb = A->bitlen ? (len + 7) / 8 : len;
        if (A->family == F_DOCSISCRC)
                nb = len + 12;
        return nb;
}

/* DOCSIS-SEC + CRC32 frame geometries the job check accepts besides the canonical one (cipher range from hash start + 12
 * to the end of the CRC field): a later cipher start and / or a cipher range that ends before the CRC field. */
static void
docsis_geometry(void)
{
        /* header lengths (cipher offset - hash offset): the canonical 12, 14, 16 with early-ending cipher ranges as well, and longer
         * headers around the 16-byte folding steps of the CRC kernels with the cipher range running to the end of the CRC field */
        static const uint32_t COFFS[] = { 12, 14, 16, 17, 20, 24, 28, 31, 32, 33, 40, 47, 48, 49, 63, 64, 65, 80 };
        g_geom = "non-canonical";
        for (g_dir = 1; g_dir >= 0; g_dir--)
                for (uint32_t hl = 14; hl <= (tier_thorough() ? 300u : 90u); hl++)
                        for (unsigned ci = 0; ci < sizeof COFFS / sizeof COFFS[0]; ci++)
                                for (uint32_t short_by = 0; short_by <= (COFFS[ci] <= 16 ? 20u : 0u); short_by += (COFFS[ci] == 12 && short_by == 0) ? 1 : 3) {
                                        const uint32_t coff = COFFS[ci];
                                        g_coff = coff;
                                        g_short = short_by;
                                        if (coff == 12 && short_by == 0)
                                                continue; /* canonical: covered by the main sweep */
                                        if (hl < 8 + (coff - 12) + short_by)
                                                continue;
                                        uint32_t clen = hl - 8 - (coff - 12) - short_by;
                                        size_t nb = hl + 32;
                                        int st0 = 0, e0 = 0, first = -1;
                                        for (int v = 0; v < NVARIANTS; v++) {
                                                if (!M[v])
                                                        continue;
                                                wb_t *b = first < 0 ? &W[0] : &W[1];
                                                inputs(b, (uint32_t) nb, 0, clen);
                                                item_t it;
                                                mk(&it, b, v, g_dir, clen);
                                                it.hash_off = 0;
                                                it.hash_len = hl;
                                                it.cipher_off = coff;
                                                int e, st = run(v, &it, &e, 0);
                                                n_eval++;
                                                if (first < 0) {
                                                        first = v;
                                                        st0 = st;
                                                        e0 = e;
                                                        continue;
                                                }
                                                n_cmp++;
                                                if (st != st0 || e != e0)
                                                        viol("status-differs", v, clen, (int) coff, "status / error code differs from the first variant (x = hash length)", hl);
                                                else if (st == IMB_STATUS_COMPLETED && memcmp(W[0].src, W[1].src, nb + 64))
                                                        viol("output-differs", v, clen, (int) coff, "frame bytes differ from the first variant's (x = hash length, iv_class = cipher offset)", hl);
                                                else if (st == IMB_STATUS_COMPLETED && memcmp(W[0].tag, W[1].tag, 4))
                                                        viol("tag-differs", v, clen, (int) coff, "CRC32 tag differs from the first variant's (x = hash length, iv_class = cipher offset)", hl);
                                        }
                                }
        g_geom = NULL;
}
/* co-scheduled batches: the same n jobs of unequal lengths (different numbers of full blocks, partial last blocks) are submitted
 * together and flushed on every variant; each job's destination, tag, next_iv and status must equal what the first variant
 * produced for it - the multi-buffer schedulers of the variants have 1/4/8/16 lanes, so the same batch is cut into lane sets
 * differently on each of them */
#define BN 17
#define BLMAX 300
typedef struct {
        uint8_t dst[BLMAX + 96], tag[64], niv[16];
        int st;
} bsave_t;
static void
batch_equal(void)
{
        static wb_t *BB;
        static bsave_t SV[BN], CUR[BN];
        static const uint32_t BLENS[20] = { 11, 19, 8, 64, 33, 1, 16, 100, 7, 255, 17, 129, 9, 48, 65, 15, 31, 5, 24, 77 };
        static const int NS[4] = { 2, 5, 9, 17 };
        if (!BB)
                BB = malloc(sizeof(wb_t) * BN);
        const uint32_t unit = A->bitlen ? 8 : 1;
        const int nrot = tier_thorough() ? 20 : 4;
        for (g_dir = 1; g_dir >= (A->kind == AK_HASH ? 1 : 0); g_dir--)
                for (int q = 0; q < 4; q++)
                        for (int rot = 0; rot < nrot; rot++) {
                                const int n = NS[q];
                                uint32_t len[BN];
                                int okb = 1;
                                for (int i = 0; i < n; i++) {
                                        uint32_t l = BLENS[(i * 7 + rot * 3) % 20] * unit;
                                        if (l < A->minlen)
                                                l = A->minlen;
                                        while (!alg_len_ok(g_a, l) && l < A->maxlen)
                                                l++;
                                        if (!alg_len_ok(g_a, l) || span(l) > BLMAX)
                                                okb = 0;
                                        len[i] = l;
                                }
                                if (!okb)
                                        continue;
                                int first = 1;
                                for (int v = 0; v < NVARIANTS; v++) {
                                        if (!variant_usable(v))
                                                continue;
                                        IMB_MGR *m = M[v];
                                        int got = 0;
                                        for (int i = 0; i < n; i++) {
                                                inputs(&BB[i], (uint32_t) span(len[i]), (i + rot) % 3, len[i]);
                                                BB[i].src[2] ^= (uint8_t) (i * 29); /* jobs of equal length still differ */
                                                item_t it;
                                                mk(&it, &BB[i], v, g_dir, len[i]);
                                                IMB_JOB *j = X_GET_NEXT(m);
                                                alg_fill(m, j, &it);
                                                j->user_data = (void *) (uintptr_t) (i + 1);
                                                IMB_JOB *r = X_SUBMIT(m);
                                                while (r) {
                                                        const int k = (int) (uintptr_t) r->user_data - 1;
                                                        if (k >= 0 && k < n)
                                                                CUR[k].st = (int) r->status, got++;
                                                        r = X_GET_COMPLETED(m);
                                                }
                                        }
                                        IMB_JOB *r;
                                        while ((r = X_FLUSH(m)) != NULL) {
                                                const int k = (int) (uintptr_t) r->user_data - 1;
                                                if (k >= 0 && k < n)
                                                        CUR[k].st = (int) r->status, got++;
                                        }
                                        if (got != n)
                                                viol("batch-not-exactly-once", v, len[0], n, "jobs handed back != jobs submitted (x = handed back)", got);
                                        for (int i = 0; i < n; i++) {
                                                const size_t nb = span(len[i]);
                                                const uint8_t *d = A->inplace_only ? BB[i].src : BB[i].dst;
                                                memcpy(CUR[i].dst, d, nb + 64);
                                                memcpy(CUR[i].tag, BB[i].tag, 64);
                                                memcpy(CUR[i].niv, BB[i].niv, 16);
                                                n_eval++;
                                                if (first) {
                                                        SV[i] = CUR[i];
                                                        continue;
                                                }
                                                n_cmp++;
                                                if (CUR[i].st != SV[i].st)
                                                        viol("batch-status-differs", v, len[i], n, "co-scheduled job: status differs from the first variant (x = job index)", i);
                                                else if (A->kind != AK_HASH && memcmp(CUR[i].dst, SV[i].dst, nb + 64))
                                                        viol("batch-output-differs", v, len[i], n, "co-scheduled job: output differs from the first variant (iv_class = jobs in the batch, x = job index)", i);
                                                else if (memcmp(CUR[i].tag, SV[i].tag, 64) || memcmp(CUR[i].niv, SV[i].niv, 16))
                                                        viol("batch-tag-differs", v, len[i], n, "co-scheduled job: tag / next_iv differs from the first variant (x = job index)", i);
                                        }
                                        first = 0;
                                }
                        }
}
static void
sweep_row(long item, void *arg)
{
        (void) arg;
        g_a = (int) item;
        A = &ALGS[g_a];
        if (A->family == F_NULLC)
                return;
        if (!W) {
                W = malloc(sizeof(wb_t) * 2);
                Wd = malloc(sizeof(wb_t));
                for (int v = 0; v < NVARIANTS; v++)
                        if (variant_usable(v)) {
                                M[v] = mgr_new(v);
                                K[v] = keyset_new(M[v], 70);
                        }
        }
        static uint32_t LENS[4096];
        int nl = 0;
        uint32_t dense = tier_thorough() ? 1100 : 80;
        for (uint32_t l = 0; l <= dense; l++)
                LENS[nl++] = l;
        static const uint32_t BND[] = { 127, 255, 383, 511, 767, 1023, 1535, 2047, 3071, 4095, 8191 };
        for (unsigned q = 0; q < sizeof BND / sizeof BND[0]; q++)
                for (uint32_t d = 0; d < 3; d++)
                        LENS[nl++] = BND[q] + d;
        /* long-message region: the 8/16/32/48-block counter fast paths wrap their low counter byte here (12-byte IV) */
        for (uint32_t l = 4040; l <= (tier_thorough() ? 4360u : 4100u); l++)
                LENS[nl++] = l;
        if (tier_thorough())
                for (uint32_t l = 16300; l <= 16400; l++)
                        LENS[nl++] = l;
        for (g_dir = 1; g_dir >= (A->kind == AK_HASH ? 1 : 0); g_dir--)
                for (int li = 0; li < nl; li++) {
                        uint32_t len = LENS[li] * (A->bitlen ? 8u : 1u);
                        if (A->bitlen && (li & 1))
                                len -= 3; /* non byte-aligned bit lengths too */
                        if (!alg_len_ok(g_a, len) || span(len) > MAXL)
                                continue;
                        size_t nb = span(len);
                        for (int ivc = 0; ivc < 5; ivc++) { /* 3, 4: GCM with a 16- / 60-byte IV (J0 derived by GHASH: arbitrary counter start) */
                                if (ivc && (!A->ivlens[0] || li % 7))
                                        continue;
                                if (ivc >= 3 && A->family != F_GCM)
                                        continue;
                                int st0 = 0, e0 = 0, first = -1;
                                for (int v = 0; v < NVARIANTS; v++) {
                                        if (!M[v])
                                                continue;
                                        wb_t *b = first < 0 ? &W[0] : &W[1];
                                        inputs(b, (uint32_t) nb, ivc, len);
                                        item_t it;
                                        mk(&it, b, v, g_dir, len);
                                        it.ivlen = ivc == 3 ? 16 : ivc == 4 ? 60 : 0;
                                        int e, st = run(v, &it, &e, 0);
                                        n_eval++;
                                        if (first < 0) {
                                                first = v;
                                                st0 = st;
                                                e0 = e;
                                                if (st != IMB_STATUS_COMPLETED)
                                                        viol("valid-job-not-completed", v, len, ivc, "catalogue job not completed (x = status*10000 + errno)", st * 10000L + e);
                                                continue;
                                        }
                                        n_cmp++;
                                        if (st != st0 || e != e0)
                                                viol("status-differs", v, len, ivc, "status / error code differs from the first variant (x = status*10000+errno)", st * 10000L + e);
                                        else if (memcmp(W[0].src, W[1].src, nb + 64) || memcmp(W[0].dst, W[1].dst, nb + 64))
                                                viol("output-differs", v, len, ivc, "destination bytes differ from the first variant's", 0);
                                        else if (memcmp(W[0].tag, W[1].tag, sizeof W[0].tag) || memcmp(W[0].niv, W[1].niv, 16))
                                                viol("tag-differs", v, len, ivc, "tag / next_iv differs from the first variant's", 0);
                                }
                                /* recovery: what the first variant protected is opened by every variant */
                                if (g_dir != 1 || A->kind == AK_HASH || first < 0 || st0 != IMB_STATUS_COMPLETED)
                                        continue;
                                uint8_t ref_pt[64], ref_tag[64];
                                int have = 0;
                                for (int v = 0; v < NVARIANTS; v++) {
                                        if (!M[v])
                                                continue;
                                        wb_t *d = Wd;
                                        memcpy(d->iv, W[0].iv, sizeof d->iv);
                                        memcpy(d->aad, W[0].aad, 32);
                                        memcpy(d->src, A->inplace_only ? W[0].src : W[0].dst, nb + 64);
                                        memset(d->dst, 0, nb + 64);
                                        memset(d->tag, 0, sizeof d->tag);
                                        memset(d->niv, 0, 16);
                                        item_t it;
                                        mk(&it, d, v, 0, len);
                                        it.ivlen = ivc == 3 ? 16 : ivc == 4 ? 60 : 0;
                                        int e, st = run(v, &it, &e, 0);
                                        n_dec++;
                                        if (st != IMB_STATUS_COMPLETED) {
                                                viol("recovery-failed", v, len, ivc, "decrypt job for data protected by another variant not completed (x = errno)", e);
                                                continue;
                                        }
                                        const uint8_t *pt = A->inplace_only ? d->src : d->dst;
                                        if (!A->inplace_only) {
                                                inputs(&W[1], (uint32_t) nb, ivc, len); /* regenerates the plaintext */
                                                int bad = 0;
                                                if (A->bitlen) { /* whole bytes + the leading bits of the last byte (tail bits of dst are preserved) */
                                                        bad = memcmp(pt, W[1].src, len / 8) != 0;
                                                        if (len % 8)
                                                                bad |= ((pt[len / 8] ^ W[1].src[len / 8]) & (uint8_t) (0xff00 >> (len % 8))) != 0;
                                                } else if (A->family != F_CBCS)
                                                        bad = memcmp(pt, W[1].src, nb) != 0;
                                                if (bad)
                                                        viol("recovery-differs", v, len, ivc, "plaintext not recovered from the other variant's ciphertext", 0);
                                                if (A->kind == AK_AEAD && memcmp(d->tag, W[0].tag, (size_t) item_taglen(&it)))
                                                        viol("recovery-tag-differs", v, len, ivc, "tag computed while opening differs from the tag of the protecting variant", 0);
                                        }
                                        if (!have) {
                                                memcpy(ref_pt, pt, 64 < nb ? 64 : nb);
                                                memcpy(ref_tag, d->tag, 64);
                                                have = 1;
                                        } else {
                                                if (memcmp(ref_pt, pt, 64 < nb ? 64 : nb))
                                                        viol("recovery-differs", v, len, ivc, "opened data differs between recovering variants", 0);
                                                if (memcmp(ref_tag, d->tag, 64))
                                                        viol("recovery-tag-differs", v, len, ivc, "tag computed while opening differs between recovering variants", 0);
                                        }
                                }
                        }
                }
        /* refused jobs: same status and error code everywhere */
        for (g_dir = 1; g_dir >= (A->kind == AK_HASH ? 1 : 0); g_dir--)
                for (int mu = 1; mu <= 8; mu++) {
                        uint32_t len = 64 * (A->bitlen ? 8u : 1u);
                        while (!alg_len_ok(g_a, len) && len < A->maxlen)
                                len++;
                        if (!alg_len_ok(g_a, len))
                                len = A->minlen;
                        int st0 = 0, e0 = 0, first = -1;
                        for (int v = 0; v < NVARIANTS; v++) {
                                if (!M[v])
                                        continue;
                                inputs(&W[0], (uint32_t) span(len), 0, len);
                                item_t it;
                                mk(&it, &W[0], v, g_dir, len);
                                int e, st = run(v, &it, &e, mu);
                                n_eval++;
                                if (first < 0) {
                                        first = v;
                                        st0 = st;
                                        e0 = e;
                                } else if (st != st0 || e != e0)
                                        viol("refusal-differs", v, len, mu, "status / error code for the same altered job differs from the first variant (x = status*10000+errno, iv_class = alteration)",
                                             st * 10000L + e);
                        }
                }
        if (A->family == F_DOCSISCRC)
                docsis_geometry();
        if (A->family != F_PON)
                batch_equal();
        stat_add("evaluations", n_eval);
        stat_add("cross_variant_comparisons", n_cmp);
        stat_add("recovery_jobs", n_dec);
        stat_add("distinct_nontrivial", n_eval);
        n_eval = n_cmp = n_dec = 0;
}
static void
crashed(long item, int sig, void *arg)
{
        rec_begin("viol");
        rec_s("site", sig == 14 ? "hang" : "crash");
        rec_i("signal", sig);
        rec_s("alg", arg ? (const char *) arg : ALGS[item].name);
        rec_i("item", item);
        rec_end();
}

/* ---------------- part B: automatic selection ---------------- */
typedef void (*init_fn)(IMB_MGR *);
static void
init_auto(IMB_MGR *m)
{
        init_mb_mgr_auto(m, NULL);
}
static void
part_b(void)
{
        A = NULL;
        static const uint64_t FL[4] = { 0, IMB_FLAG_SHANI_OFF, IMB_FLAG_GFNI_OFF, IMB_FLAG_SHANI_OFF | IMB_FLAG_GFNI_OFF };
        for (int f = 0; f < 4; f++) {
                IMB_MGR *a = alloc_mb_mgr(FL[f]), *b = alloc_mb_mgr(FL[f]);
                IMB_ARCH arch = IMB_ARCH_NONE;
                init_mb_mgr_auto(a, &arch);
                int ea = imb_get_errno(a);
                if (arch == IMB_ARCH_AVX512)
                        init_mb_mgr_avx512(b);
                else if (arch == IMB_ARCH_AVX2)
                        init_mb_mgr_avx2(b);
                else if (arch == IMB_ARCH_SSE)
                        init_mb_mgr_sse(b);
                stat_add("evaluations", 1);
                if (ea || arch == IMB_ARCH_NONE || a->used_arch != (uint32_t) arch)
                        viol("auto-init-failed", -1, 0, f, "init_mb_mgr_auto did not select an architecture on this host (x = errno)", ea);
                else if (memcmp(a, b, offsetof(IMB_MGR, earliest_job)))
                        viol("auto-differs-from-explicit", -1, 0, f, "handler table / features / arch bound by init_mb_mgr_auto differ from the explicit init of the reported architecture (iv_class = flag set)", 0);
                free_mb_mgr(a);
                free_mb_mgr(b);
        }
}

/* ---------------- part C: missing CPU features ---------------- */
static const struct {
        const char *name;
        init_fn fn;
        uint64_t need;
} INITS[4] = { { "init_mb_mgr_sse", init_mb_mgr_sse, IMB_CPUFLAGS_SSE },
               { "init_mb_mgr_avx2", init_mb_mgr_avx2, IMB_CPUFLAGS_AVX2 },
               { "init_mb_mgr_avx512", init_mb_mgr_avx512, IMB_CPUFLAGS_AVX512 },
               { "init_mb_mgr_auto", init_auto, IMB_CPUFLAGS_AVX512 } };
/* child: 0 ok, 10.. = oracle failures */
static int
fault_case(int ii, int bit, int prior)
{
        IMB_MGR *m = alloc_mb_mgr(prior >= 0 ? VARIANTS[prior].flags : 0);
        if (!m)
                return 3;
        if (prior >= 0) {
                VARIANTS[prior].init(m);
                if (imb_get_errno(m))
                        return 3;
        }
        size_t hs = offsetof(IMB_MGR, earliest_job);
        uint8_t *before = malloc(hs);
        uint64_t full = m->features;
        m->features &= ~(1ULL << bit);
        memcpy(before, m, hs);
        INITS[ii].fn(m);
        int e = m->imb_errno;
        if (ii < 3) {
                if (e != IMB_ERR_MISSING_CPUFLAGS_INIT_MGR)
                        return 10; /* wrong / no error code */
                if (imb_get_errno(m) != IMB_ERR_MISSING_CPUFLAGS_INIT_MGR)
                        return 11;
                ((IMB_MGR *) (void *) before)->imb_errno = e;
                if (memcmp(before, m, hs))
                        return 12; /* handlers / arch / features changed by a failed init */
        } else {
                /* auto: best architecture whose full requirement is still present */
                uint64_t f = full & ~(1ULL << bit);
                uint32_t want = (f & IMB_CPUFLAGS_AVX512) == IMB_CPUFLAGS_AVX512 ? IMB_ARCH_AVX512
                                : (f & IMB_CPUFLAGS_AVX2) == IMB_CPUFLAGS_AVX2   ? IMB_ARCH_AVX2
                                : (f & IMB_CPUFLAGS_SSE) == IMB_CPUFLAGS_SSE     ? IMB_ARCH_SSE
                                                                                 : IMB_ARCH_NONE;
                if (want == IMB_ARCH_NONE) {
                        if (e != IMB_ERR_MISSING_CPUFLAGS_INIT_MGR)
                                return 13;
                } else if (e != 0 || m->used_arch != want)
                        return 14;
        }
        if (prior >= 0 && ii < 3) { /* the previously initialised manager is still what it was and works */
                IMB_JOB *j = IMB_GET_NEXT_JOB(m);
                static uint8_t buf[64], out[64], dg[32];
                memset(j, 0, sizeof *j);
                j->cipher_mode = IMB_CIPHER_NULL;
                j->hash_alg = IMB_AUTH_SHA_256;
                j->chain_order = IMB_ORDER_HASH_CIPHER;
                j->cipher_direction = IMB_DIR_ENCRYPT;
                j->src = buf;
                j->dst = out;
                j->msg_len_to_hash_in_bytes = 64;
                j->auth_tag_output = dg;
                j->auth_tag_output_len_in_bytes = 32;
                j = IMB_SUBMIT_JOB(m);
                if (!j)
                        j = IMB_FLUSH_JOB(m);
                if (!j || j->status != IMB_STATUS_COMPLETED)
                        return 15;
        }
        return 0;
}
static void
part_c(void)
{
        A = NULL;
        long long cases = 0;
        for (int ii = 0; ii < 4; ii++)
                for (int bit = 0; bit < 64; bit++) {
                        if (!(INITS[ii].need >> bit & 1))
                                continue;
                        for (int prior = -1; prior < NVARIANTS; prior++) {
                                if (prior >= 0 && !variant_usable(prior))
                                        continue;
                                cases++;
                                fflush(NULL);
                                pid_t p = fork();
                                if (p == 0) {
                                        alarm(60);
                                        _exit(fault_case(ii, bit, prior));
                                }
                                int st = 0;
                                waitpid(p, &st, 0);
                                int code = WIFSIGNALED(st) ? -WTERMSIG(st) : WEXITSTATUS(st);
                                if (code == 0)
                                        continue;
                                char sig[200];
                                snprintf(sig, sizeof sig, "C08|missing|%s|%d|%d", INITS[ii].name, code, prior >= 0);
                                if (!rec_sig_ok(sig, 2))
                                        continue;
                                rec_begin("viol");
                                rec_s("site", code < 0 ? "init-missing-cpuflags-fault" : code == 3 ? "setup" : "init-missing-cpuflags-wrong-outcome");
                                rec_s("alg", INITS[ii].name);
                                rec_s("variant", prior >= 0 ? VARIANTS[prior].name : "fresh");
                                rec_i("feature_bit", bit);
                                rec_i("x", code);
                                rec_s("detail", code < 0 ? "init call with a required CPU feature bit missing faulted (x = -signal)"
                                                         : "10/11: error code is not IMB_ERR_MISSING_CPUFLAGS_INIT_MGR; 12: handlers/arch/features of the manager changed; 13/14: auto "
                                                           "selection did not fall back to the best remaining architecture; 15: previously initialised manager no longer works");
                                rec_end();
                        }
                }
        /* NULL manager */
        for (int ii = 0; ii < 4; ii++) {
                cases++;
                fflush(NULL);
                pid_t p = fork();
                if (p == 0) {
                        alarm(60);
                        INITS[ii].fn(NULL);
                        _exit(imb_get_errno(NULL) == IMB_ERR_NULL_MBMGR ? 0 : 10);
                }
                int st = 0;
                waitpid(p, &st, 0);
                if (WIFSIGNALED(st) || WEXITSTATUS(st)) {
                        rec_begin("viol");
                        rec_s("site", WIFSIGNALED(st) ? "init-null-mgr-fault" : "init-null-mgr-no-error");
                        rec_s("alg", INITS[ii].name);
                        rec_s("variant", "-");
                        rec_i("x", WIFSIGNALED(st) ? -WTERMSIG(st) : WEXITSTATUS(st));
                        rec_s("detail", "init function given a NULL manager faulted or did not report IMB_ERR_NULL_MBMGR");
                        rec_end();
                }
        }
        stat_add("evaluations", cases);
        stat_add("fault_cases", cases);
}

int
main(void)
{
        rec_init("C08", getenv("VERIF_TIER") ? getenv("VERIF_TIER") : "quick");
        part_b();
        part_c();
        par_run(NALGS, n_workers(), sweep_row, crashed, NULL, 1800);
        rec_begin("sample");
        rec_s("case", "aes-gcm-256 encrypt, 4072 bytes, 12-byte IV: 7 variants produce identical ciphertext+tag; sse_t1's output opened by all 7");
        rec_end();
        rec_begin("meta");
        rec_s("rule", "case = (algorithm row, direction, length, IV class) run on all 7 variants; oracle = byte equality of destination/tag/next_iv/status/errno "
                      "across variants + recovery on every variant of what the first variant protected; fault cases = init function x single missing "
                      "feature bit x prior manager state, each in a forked child");
        rec_end();
        stats_emit();
        return 0;
}
