/* C09 (part 1) - every job-level entry point yields the same result for the same work item (M-shape).
 * Per algorithm row x direction x variant, 9 work items of unequal lengths (2 keys, distinct IVs and data) are
 * pushed through: job API checked and no-check; asynchronous burst checked and no-check with burst sizes
 * {1,2,3,7,8,9,15,16,17,33,127,128} (items repeated cyclically so every position class is reached); and, where
 * the header documents them, the synchronous cipher / hash / AEAD burst calls (checked and no-check) with the
 * same sizes. Every job's destination and tag must equal the reference result of its work item, its status must
 * be COMPLETED and the burst calls must return the documented counts. Direct functions: props/c09d.c.   */
#include "algs.h"
#include "ref_modes.h"

#define NIT 9
#define MAXN 128
#define MAXL 340
typedef struct {
        uint8_t src[MAXL + 48], dst[MAXL + 48], tag[80], iv[32], aad[32], niv[32];
} wb_t;
static wb_t *WB;                       /* MAXN job buffers */
static uint8_t IT_SRC[NIT][MAXL + 48]; /* pristine item inputs */
static uint8_t IT_IV[NIT][32], IT_AAD[NIT][32];
static uint32_t IT_LEN[NIT];
static uint8_t EXP_DST[NIT][MAXL + 48], EXP_TAG[NIT][80], EXP_NIV[NIT][16];
static int EXP_MASK[NIT];
static IMB_MGR *m;
static keyset_t *KS[2];
static int g_a, g_v, g_dir;
static const alg_t *A;
static const uint32_t WANT[NIT] = { 64, 1, 17, 100, 16, 256, 300, 33, 80 };
static const int NS[] = { 1, 2, 3, 7, 8, 9, 15, 16, 17, 33, 127, 128 };
#define NNS 12

static uint32_t
pick_len(int a, uint32_t want)
{
        const alg_t *Al = &ALGS[a];
        uint32_t l = want * (Al->bitlen ? 8u : 1u);
        if (l < Al->minlen)
                l = Al->minlen;
        while (!alg_len_ok(a, l) && l < Al->maxlen)
                l++;
        return l;
}
static void
mk(item_t *it, int slot, int item)
{
        wb_t *b = &WB[slot];
        memset(it, 0, sizeof *it);
        it->alg = g_a;
        it->dir = g_dir;
        it->len = IT_LEN[item];
        it->ks = KS[item & 1];
        it->src = b->src;
        it->dst = A->inplace_only ? b->src : (item & 2 ? b->src : b->dst); /* alternate in-place / out-of-place */
        if (A->kind == AK_HASH)
                it->dst = NULL;
        it->iv = b->iv;
        it->aad = b->aad;
        it->aadlen = A->kind == AK_AEAD ? 13 : 0;
        it->tag = b->tag;
        it->next_iv = b->niv;
        if (A->family == F_DOCSISCRC) {
                it->hash_len = it->len + 8;
                it->cipher_off = 12;
        }
}
static void
load(int slot, int item)
{
        wb_t *b = &WB[slot];
        memcpy(b->src, IT_SRC[item], sizeof b->src);
        memcpy(b->iv, IT_IV[item], 32);
        memcpy(b->aad, IT_AAD[item], 32);
        memset(b->dst, 0, sizeof b->dst);
        memset(b->tag, 0, sizeof b->tag);
        memset(b->niv, 0, sizeof b->niv);
}
static void
viol(const char *api, int n, int pos, const char *site, const char *detail, long x)
{
        char sig[220];
        snprintf(sig, sizeof sig, "C09|%s|%s|%s|%s|%d", site, api, A->name, VARIANTS[g_v].name, g_dir);
        if (!rec_sig_ok(sig, 3))
                return;
        rec_begin("viol");
        rec_s("site", site);
        rec_s("detail", detail);
        rec_s("api", api);
        rec_s("alg", A->name);
        rec_s("variant", VARIANTS[g_v].name);
        rec_i("dir", g_dir);
        rec_i("burst_size", n);
        rec_i("position", pos);
        rec_i("len", pos >= 0 ? IT_LEN[pos % NIT] : 0);
        rec_i("x", x);
        rec_end();
}
static long long n_jobs_checked;
static IMB_JOB SNAP[MAXN + 4]; /* descriptor as filled, per slot (C14: handed back unaltered) */
static void
check_slot(const char *api, int n, int slot, const IMB_JOB *j)
{
        int item = slot % NIT;
        item_t it;
        mk(&it, slot, item);
        n_jobs_checked++;
        if (!j || j->status != IMB_STATUS_COMPLETED) {
                viol(api, n, slot, "not-completed", "job not COMPLETED through this entry point", j ? (long) j->status : -1);
                return;
        }
        { /* C14: caller-owned descriptor fields unchanged through every entry point */
                IMB_JOB a = *j, b = SNAP[slot];
                a.status = b.status = 0;
                int ha = a.hash_alg;
                if (ha == IMB_AUTH_AES_CMAC || ha == IMB_AUTH_AES_CMAC_256 || ha == IMB_AUTH_AES_CMAC_BITLEN)
                        a.msg_len_to_hash_in_bytes = b.msg_len_to_hash_in_bytes = 0; /* documented bytes->bits rewrite */
                if (a.cipher_mode == IMB_CIPHER_SNOW_V_AEAD)
                        a.u.SNOW_V_AEAD.reserved = b.u.SNOW_V_AEAD.reserved = NULL;
                if (memcmp(&a, &b, sizeof a)) {
                        size_t k = 0;
                        while (((uint8_t *) &a)[k] == ((uint8_t *) &b)[k])
                                k++;
                        const char *save = g_property;
                        g_property = "C14";
                        viol(api, n, slot, "descriptor-modified", "job descriptor changed between submission and hand-back (x = byte offset)", (long) k);
                        g_property = save;
                }
        }
        if (EXP_MASK[item] & 1) {
                const uint8_t *got = it.dst;
                if (A->family == F_DOCSISCRC || A->family == F_PON) {
                        if (memcmp(WB[slot].src, EXP_DST[item], IT_LEN[item] + (A->family == F_DOCSISCRC ? 12u : 0u)))
                                viol(api, n, slot, "output-differs", "frame differs from the work item's reference result", 0);
                } else if (alg_cmp_dst(&it, got, EXP_DST[item]))
                        viol(api, n, slot, "output-differs", "destination differs from the work item's reference result", 0);
        }
        if ((EXP_MASK[item] & 2) && !(A->family == F_PON) && memcmp(WB[slot].tag, EXP_TAG[item], (size_t) item_taglen(&it)))
                viol(api, n, slot, "tag-differs", "tag differs from the work item's reference result", 0);
        if (A->family == F_CBCS && memcmp(WB[slot].niv, EXP_NIV[item], 16))
                viol(api, n, slot, "next-iv-differs", "CBCS next_iv differs", 0);
}

static void
run_job_api(int nocheck)
{
        const char *api = nocheck ? "job-nocheck" : "job";
        int done[NIT] = { 0 };
        for (int i = 0; i < NIT; i++) {
                load(i, i);
                IMB_JOB *j = X_GET_NEXT(m);
                item_t it;
                mk(&it, i, i);
                alg_fill(m, j, &it);
                j->user_data = (void *) (long) (i + 1);
                SNAP[i] = *j;
                IMB_JOB *r = nocheck ? X_SUBMIT_NOCHECK(m) : X_SUBMIT(m);
                while (r) {
                        int s = (int) (long) r->user_data - 1;
                        if (s >= 0 && s < NIT && !done[s]++)
                                check_slot(api, NIT, s, r);
                        r = X_GET_COMPLETED(m);
                }
        }
        IMB_JOB *r;
        while ((r = X_FLUSH(m))) {
                int s = (int) (long) r->user_data - 1;
                if (s >= 0 && s < NIT && !done[s]++)
                        check_slot(api, NIT, s, r);
        }
        for (int i = 0; i < NIT; i++)
                if (done[i] != 1)
                        viol(api, NIT, i, "not-returned-once", "job not handed back exactly once", done[i]);
}
static void
run_async_burst(int n, int nocheck)
{
        const char *api = nocheck ? "burst-nocheck" : "burst";
        IMB_JOB *jobs[MAXN + 4];
        int done[MAXN] = { 0 };
        uint32_t k = X_GET_NEXT_BURST(m, (uint32_t) n, jobs);
        if (k != (uint32_t) n) {
                viol(api, n, -1, "burst-slots", "get_next_burst on an empty manager returned fewer slots than requested", k);
                return;
        }
        for (int i = 0; i < n; i++) {
                load(i, i % NIT);
                item_t it;
                mk(&it, i, i % NIT);
                alg_fill(m, jobs[i], &it);
                jobs[i]->user_data = (void *) (long) (i + 1);
                imb_set_session(m, jobs[i]);
                SNAP[i] = *jobs[i];
        }
        uint32_t r = nocheck ? X_SUBMIT_BURST_NOCHECK(m, (uint32_t) n, jobs) : X_SUBMIT_BURST(m, (uint32_t) n, jobs);
        if (imb_get_errno(m))
                viol(api, n, -1, "burst-errno", "valid burst set an error code", imb_get_errno(m));
        int total = 0;
        for (;;) {
                for (uint32_t q = 0; q < r; q++) {
                        int s = (int) (long) jobs[q]->user_data - 1;
                        if (s != total)
                                viol(api, n, s, "burst-order", "burst jobs handed back out of order", total);
                        if (s >= 0 && s < n && !done[s]++)
                                check_slot(api, n, s, jobs[q]);
                        total++;
                }
                if (total >= n)
                        break;
                r = X_FLUSH_BURST(m, (uint32_t) n, jobs);
                if (r == 0)
                        break;
        }
        if (total != n)
                viol(api, n, -1, "burst-count", "burst did not hand back all its jobs", total);
        while (X_FLUSH(m))
                ;
}
static int
sync_kind(void)
{
        if (A->kind == AK_CIPHER && A->family == F_AES &&
            (A->cm == IMB_CIPHER_CBC || A->cm == IMB_CIPHER_CNTR || A->cm == IMB_CIPHER_ECB || A->cm == IMB_CIPHER_CFB))
                return 1;
        if (A->kind == AK_HASH && ((A->family == F_HMAC && A->sub <= REF_SHA512) || A->family == F_SHA || A->family == F_CMAC))
                return 2;
        if (A->family == F_CCM)
                return 3;
        return 0;
}
static void
run_sync_burst(int n, int nocheck)
{
        static IMB_JOB JA[MAXN];
        int kind = sync_kind();
        const char *api = kind == 1 ? (nocheck ? "cipher-burst-nocheck" : "cipher-burst")
                        : kind == 2 ? (nocheck ? "hash-burst-nocheck" : "hash-burst")
                                    : (nocheck ? "aead-burst-nocheck" : "aead-burst");
        for (int i = 0; i < n; i++) {
                load(i, i % NIT);
                item_t it;
                mk(&it, i, i % NIT);
                alg_fill(m, &JA[i], &it);
                JA[i].user_data = (void *) (long) (i + 1);
                SNAP[i] = JA[i];
        }
        uint32_t r;
        IMB_CIPHER_DIRECTION d = g_dir ? IMB_DIR_ENCRYPT : IMB_DIR_DECRYPT;
        if (kind == 1)
                r = nocheck ? IMB_SUBMIT_CIPHER_BURST_NOCHECK(m, JA, (uint32_t) n, (IMB_CIPHER_MODE) A->cm, d, (IMB_KEY_SIZE_BYTES) A->klen)
                            : IMB_SUBMIT_CIPHER_BURST(m, JA, (uint32_t) n, (IMB_CIPHER_MODE) A->cm, d, (IMB_KEY_SIZE_BYTES) A->klen);
        else if (kind == 2)
                r = nocheck ? IMB_SUBMIT_HASH_BURST_NOCHECK(m, JA, (uint32_t) n, (IMB_HASH_ALG) A->ha)
                            : IMB_SUBMIT_HASH_BURST(m, JA, (uint32_t) n, (IMB_HASH_ALG) A->ha);
        else
                r = nocheck ? IMB_SUBMIT_AEAD_BURST_NOCHECK(m, JA, (uint32_t) n, (IMB_CIPHER_MODE) A->cm, d, (IMB_KEY_SIZE_BYTES) A->klen)
                            : IMB_SUBMIT_AEAD_BURST(m, JA, (uint32_t) n, (IMB_CIPHER_MODE) A->cm, d, (IMB_KEY_SIZE_BYTES) A->klen);
        if (r != (uint32_t) n)
                viol(api, n, -1, "sync-burst-count", "synchronous burst did not report all its jobs completed (x = returned, errno in detail)",
                     (long) r * 100000 + imb_get_errno(m));
        for (int i = 0; i < n; i++)
                check_slot(api, n, i, &JA[i]);
}

static void
run_alg_variant(long item, void *arg)
{
        (void) arg;
        g_a = (int) (item / NVARIANTS);
        g_v = (int) (item % NVARIANTS);
        A = &ALGS[g_a];
        if (!variant_usable(g_v) || A->family == F_NULLC)
                return;
        m = mgr_new(g_v);
        KS[0] = keyset_new(m, 60);
        KS[1] = keyset_new(m, 61);
        static char ctx[96];
        snprintf(ctx, sizeof ctx, "%s/%s", VARIANTS[g_v].name, A->name);
        g_tcall_ctx = ctx;
        for (g_dir = (A->kind == AK_HASH ? 1 : 0); g_dir < 2; g_dir++) {
                for (int i = 0; i < NIT; i++) {
                        IT_LEN[i] = pick_len(g_a, WANT[i]);
                        if (A->family == F_DOCSISCRC && IT_LEN[i] < 6)
                                IT_LEN[i] = 6 + (uint32_t) i;
                        fill_rand(IT_SRC[i], sizeof IT_SRC[i], 8000 + (uint64_t) i);
                        if (A->family == F_PON) {
                                uint32_t pli = IT_LEN[i] - 8;
                                IT_SRC[i][0] = (uint8_t) (pli >> 6);
                                IT_SRC[i][1] = (uint8_t) (pli << 2);
                        }
                        fill_rand(IT_IV[i], 32, 8100 + (uint64_t) i);
                        for (int q = 17; q < 25; q++)
                                IT_IV[i][q] &= 0x3f;
                        fill_rand(IT_AAD[i], 32, 8200 + (uint64_t) i);
                        /* reference */
                        load(0, i);
                        item_t it;
                        mk(&it, 0, i);
                        uint8_t scratch[MAXL + 48];
                        memcpy(scratch, IT_SRC[i], sizeof scratch);
                        it.src = scratch;
                        if (it.dst)
                                it.dst = scratch;
                        uint8_t prev[MAXL + 48] = { 0 };
                        EXP_MASK[i] = alg_ref(&it, prev, EXP_DST[i], EXP_TAG[i], EXP_NIV[i]);
                }
                run_job_api(0);
                run_job_api(1);
                for (int q = 0; q < NNS; q++)
                        for (int nc = 0; nc < 2; nc++) {
                                run_async_burst(NS[q], nc);
                                if (sync_kind())
                                        run_sync_burst(NS[q], nc);
                        }
        }
        stat_add("evaluations", n_jobs_checked);
        stat_add("distinct_nontrivial", n_jobs_checked);
        stat_add("alg_variant_cells", 1);
        if (g_v == 6 && g_a % 13 == 2) {
                rec_begin("sample");
                rec_s("alg", A->name);
                rec_s("variant", VARIANTS[g_v].name);
                rec_s("case", "work item #3 (len 100) at position 12 of a 17-job no-check asynchronous burst vs its reference result");
                rec_i("job_results_compared_for_this_cell", n_jobs_checked);
                rec_end();
        }
        n_jobs_checked = 0;
        keyset_free(KS[0]);
        keyset_free(KS[1]);
        free_mb_mgr(m);
}
static void
crashed(long item, int sig, void *arg)
{
        (void) arg;
        rec_begin("viol");
        rec_s("site", sig == 14 ? "hang" : "crash");
        rec_i("signal", sig);
        rec_s("alg", ALGS[item / NVARIANTS].name);
        rec_s("variant", VARIANTS[item % NVARIANTS].name);
        rec_s("api", "?");
        rec_end();
}

int
main(void)
{
        rec_init("C09", getenv("VERIF_TIER") ? getenv("VERIF_TIER") : "quick");
        region_t R = region_new(1);
        alg_set_poison(R.base - 2048);
        WB = calloc(MAXN, sizeof *WB);
        par_run((long) NALGS * NVARIANTS, n_workers(), run_alg_variant, crashed, NULL, 900);
        rec_begin("meta");
        rec_s("rule", "case = (algorithm row, direction, variant, entry point, burst size, position): job API checked/no-check, async "
                      "burst checked/no-check (12 sizes 1..128), synchronous cipher/hash/AEAD bursts checked/no-check (12 sizes); every "
                      "job compared with the reference result of its work item (9 items of unequal lengths, 2 keys)");
        rec_end();
        stats_emit();
        return 0;
}
