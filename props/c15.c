/* C15 - re-initialising a manager restores the pristine empty state (M-dev over re-init points, DESIGN.md 4/C15).
 * For every ordered pair (old variant u, new variant v): a dirtying history that parks up to 15 jobs of different
 * lengths in every out-of-order lane manager u uses (after some ring traffic); a re-init to v is injected after
 * EVERY call of the history (every prefix); then the manager must report empty (queue size 0, nothing to flush
 * or collect) and a probe - 1,2,3,5,8,9,16,17 jobs of unequal lengths into every lane manager, each batch
 * flushed - must return, in the same order, exactly what the same probe returns on a freshly allocated and
 * initialised manager of variant v (lock-step differential).                                            */
#include "algs.h"

#define MAXL 320
#define NBUF 18
typedef struct {
        uint8_t src[MAXL + 64], dst[MAXL + 64], tag[80], iv[32], aad[32], niv[32];
} wb_t;
static wb_t *WB; /* NBUF work buffers */

typedef struct {
        int a, dir;
} unit_t;
static unit_t UNITS[128];
static int NUNITS;

static uint32_t
pick_len(int a, uint32_t want)
{
        const alg_t *A = &ALGS[a];
        uint32_t l = want * (A->bitlen ? 8u : 1u);
        if (l < A->minlen)
                l = A->minlen;
        while (!alg_len_ok(a, l) && l < A->maxlen)
                l++;
        return l;
}
static const uint32_t WANT[4] = { 64, 1, 80, 304 };
static void
mk(item_t *it, const unit_t *u, int bi, int lc, const keyset_t *ks)
{
        wb_t *b = &WB[bi];
        memset(it, 0, sizeof *it);
        it->alg = u->a;
        it->dir = u->dir;
        it->len = pick_len(u->a, WANT[lc]);
        it->ks = ks;
        it->src = b->src;
        it->dst = ALGS[u->a].inplace_only ? b->src : b->dst;
        it->iv = b->iv;
        it->aad = b->aad;
        it->aadlen = ALGS[u->a].kind == AK_AEAD ? 13 : 0;
        it->tag = b->tag;
        it->next_iv = b->niv;
        if (ALGS[u->a].family == F_DOCSISCRC) {
                it->hash_off = 0;
                it->hash_len = it->len + 8;
                it->cipher_off = 12;
        }
}
static void
inputs(int bi, uint64_t serial)
{
        wb_t *b = &WB[bi];
        fill_rand(b->src, sizeof b->src, 9000 + serial);
        fill_rand(b->iv, 32, 9100 + serial);
        fill_rand(b->aad, 32, 9200 + serial);
        for (int q = 17; q < 25; q++)
                b->iv[q] &= 0x3f;
        memset(b->dst, 0, sizeof b->dst);
        memset(b->tag, 0, sizeof b->tag);
        memset(b->niv, 0, sizeof b->niv);
}
static uint64_t
out_hash(int bi, IMB_JOB *r)
{
        wb_t *b = &WB[bi];
        uint64_t h = hash_bytes(b->dst, sizeof b->dst, 1);
        h = hash_bytes(b->src, sizeof b->src, h); /* in-place algorithms write the source buffer */
        h = hash_bytes(b->tag, sizeof b->tag, h);
        h = hash_bytes(b->niv, sizeof b->niv, h);
        uint32_t st = (uint32_t) r->status;
        return hash_bytes(&st, 4, h);
}

/* ---- probe: deterministic sequence of batches; returns outputs into res[] ---- */
static int BATCH[8] = { 1, 2, 3, 5, 8, 9, 16, 17 };
static int NBATCH = 8;
#define MAXRES (128 * 64)
static int
probe(IMB_MGR *m, const keyset_t *ks, uint64_t *res, int *order_ok)
{
        int nres = 0;
        *order_ok = 1;
        for (int ui = 0; ui < NUNITS; ui++)
                for (int bq = 0; bq < NBATCH; bq++) {
                        int cnt = BATCH[bq], next = 0;
                        IMB_JOB *r;
                        for (int i = 0; i < cnt; i++) {
                                inputs(i, (uint64_t) (ui * 100 + bq * 20 + i));
                                IMB_JOB *j = X_GET_NEXT(m);
                                item_t it;
                                mk(&it, &UNITS[ui], i, (i + bq) & 3, ks);
                                alg_fill(m, j, &it);
                                j->user_data = (void *) (long) (i + 1);
                                r = X_SUBMIT(m);
                                while (r) {
                                        long k = (long) r->user_data - 1;
                                        if (k != next)
                                                *order_ok = 0;
                                        next++;
                                        if (k >= 0 && k < NBUF && nres < MAXRES)
                                                res[nres++] = out_hash((int) k, r);
                                        r = X_GET_COMPLETED(m);
                                }
                        }
                        while ((r = X_FLUSH(m))) {
                                long k = (long) r->user_data - 1;
                                if (k != next)
                                        *order_ok = 0;
                                next++;
                                if (k >= 0 && k < NBUF && nres < MAXRES)
                                        res[nres++] = out_hash((int) k, r);
                        }
                        if (next != cnt)
                                *order_ok = 0;
                }
        return nres;
}

/* ---- dirtying history ---- */
typedef struct {
        uint8_t kind; /* 0 = immediate NULL job (ring traffic), 1 = unit job */
        uint8_t unit, lc;
} hop_t;
static hop_t H[4096];
static int NH;
static void
build_history(int rr)
{
        NH = 0;
        for (int i = 0; i < 5; i++)
                H[NH++] = (hop_t){ 0, 0, 0 };
        if (rr) { /* second history: round-robin over the units - every lane manager partially occupied at the same time */
                for (int i = 0; i < 15; i++)
                        for (int ui = 0; ui < NUNITS; ui++) {
                                H[NH++] = (hop_t){ 1, (uint8_t) ui, (uint8_t) ((i * 5 + ui * 3) & 3) };
                                if ((i * NUNITS + ui) % 37 == 36)
                                        H[NH++] = (hop_t){ 0, 0, 0 };
                        }
                return;
        }
        for (int ui = 0; ui < NUNITS; ui++) {
                for (int i = 0; i < 15; i++)
                        H[NH++] = (hop_t){ 1, (uint8_t) ui, (uint8_t) ((i * 7 + ui) & 3) };
                if (ui % 6 == 5)
                        H[NH++] = (hop_t){ 0, 0, 0 };
        }
}
static wb_t *HB; /* history buffers: one per history op would be large; reuse a pool of 64 (outputs are irrelevant) */
static void
run_history_op(IMB_MGR *m, int p, const keyset_t *ks)
{
        IMB_JOB *j = X_GET_NEXT(m);
        if (H[p].kind == 0) {
                memset(j, 0, sizeof *j);
                j->cipher_mode = IMB_CIPHER_NULL;
                j->hash_alg = IMB_AUTH_NULL;
                j->chain_order = IMB_ORDER_CIPHER_HASH;
                j->cipher_direction = IMB_DIR_ENCRYPT;
        } else {
                item_t it;
                wb_t *save = WB;
                WB = HB;
                inputs(p % 64, (uint64_t) p + 50000);
                mk(&it, &UNITS[H[p].unit], p % 64, H[p].lc, ks);
                WB = save;
                alg_fill(m, j, &it);
        }
        IMB_JOB *r = X_SUBMIT(m);
        while (r)
                r = X_GET_COMPLETED(m);
}

static int thorough;
static void
viol(int u, int v, int prefix, const char *site, const char *detail, long x)
{
        char sig[160];
        snprintf(sig, sizeof sig, "C15|%s|%s|%s", site, VARIANTS[u].name, VARIANTS[v].name);
        if (!rec_sig_ok(sig, 3))
                return;
        rec_begin("viol");
        rec_s("site", site);
        rec_s("detail", detail);
        rec_s("old_variant", VARIANTS[u].name);
        rec_s("variant", VARIANTS[v].name);
        rec_i("reinit_after_call", prefix);
        if (prefix > 0 && H[prefix - 1].kind)
                rec_s("last_history_alg", ALGS[UNITS[H[prefix - 1].unit].a].name);
        rec_i("x", x);
        rec_end();
}

static void
run_pair(long item, void *arg)
{
        (void) arg;
        int u = (int) (item / NVARIANTS), v = (int) (item % NVARIANTS);
        if (!variant_usable(u) || !variant_usable(v))
                return;
        static char ctx[64];
        snprintf(ctx, sizeof ctx, "%s->%s", VARIANTS[u].name, VARIANTS[v].name);
        g_tcall_ctx = ctx;
        size_t sz = imb_get_mb_mgr_size();
        uint8_t *blk = aligned_alloc(64, (sz + 63) & ~(size_t) 63);
        WB = calloc(NBUF, sizeof *WB);
        HB = calloc(64, sizeof *HB);
        /* reference: freshly allocated + initialised manager of variant v */
        IMB_MGR *fresh = mgr_new(v);
        keyset_t *ksv = keyset_new(fresh, 5);
        uint64_t *exp = malloc(MAXRES * 8), *got = malloc(MAXRES * 8);
        int ok;
        int nexp = probe(fresh, ksv, exp, &ok);
        if (!ok)
                viol(u, v, -1, "fresh-probe-order", "probe on a fresh manager returned jobs out of order/incomplete", 0);
        /* keys for the history on variant u */
        IMB_MGR *mu = mgr_new(u);
        keyset_t *ksu = keyset_new(mu, 6);
        free_mb_mgr(mu);
        long long nprefix = 0, npark = 0;
        int step = thorough ? 1 : 4;
        uint8_t *save = malloc(sz);
        IMB_MGR *m = imb_set_pointers_mb_mgr(blk, VARIANTS[u].flags, 1);
        mgr_init(m, u);
        for (int p = 0; p <= NH && !deadline_reached(); p++) {
                /* the history advances one call per iteration; the block is snapshotted, re-initialised and probed,
                 * then restored (same address, so self-pointers stay valid) and the history continues */
                if (p > 0)
                        run_history_op(m, p - 1, ksu);
                /* quick: every 4th prefix plus the points where a manager holds 4,5,8,9 or 15 jobs */
                if (!thorough && p % step && p != NH) {
                        int k = p > 0 ? (p - 5) % 15 : 0;
                        if (!(k == 4 || k == 5 || k == 8 || k == 9 || k == 14 || k == 0))
                                continue;
                }
                memcpy(save, blk, sz);
                npark += X_QUEUE_SIZE(m);
                /* re-initialise as v (flags changed through the public re-attach call when they differ) */
                if (VARIANTS[u].flags != VARIANTS[v].flags)
                        m = imb_set_pointers_mb_mgr(blk, VARIANTS[v].flags, 0);
                VARIANTS[v].init(m);
                nprefix++;
                if (imb_get_errno(m) != 0) {
                        viol(u, v, p, "reinit-errno", "re-initialisation reported an error", imb_get_errno(m));
                        goto restore;
                }
                if (m->used_arch != (uint32_t) VARIANTS[v].arch || m->used_arch_type != (uint32_t) VARIANTS[v].type)
                        viol(u, v, p, "variant", "manager does not report the new variant", m->used_arch * 10 + m->used_arch_type);
                if (X_QUEUE_SIZE(m) != 0)
                        viol(u, v, p, "queue-not-empty", "queue size non-zero after re-init", X_QUEUE_SIZE(m));
                if (X_GET_COMPLETED(m) != NULL)
                        viol(u, v, p, "collect-after-reinit", "get_completed_job returned a job after re-init", 0);
                if (X_FLUSH(m) != NULL)
                        viol(u, v, p, "flush-after-reinit", "flush_job returned a job after re-init", 0);
                int ngot = probe(m, ksv, got, &ok);
                if (!ok)
                        viol(u, v, p, "probe-order", "probe jobs returned out of order / not exactly once after re-init", 0);
                if (ngot != nexp)
                        viol(u, v, p, "probe-count", "number of probe jobs handed back differs from the fresh manager", ngot);
                else
                        for (int i = 0; i < nexp; i++)
                                if (got[i] != exp[i]) {
                                        viol(u, v, p, "probe-differs-from-fresh",
                                             "probe job result differs from the same job on a fresh manager (x = probe job index)", i);
                                        break;
                                }
        restore:
                memcpy(blk, save, sz);
                m = (IMB_MGR *) blk;
        }
        free(save);
        if (deadline_reached())
                stat_add("caps_hit", 1);
        stat_add("evaluations", nprefix);
        stat_add("states", nprefix);
        stat_add("probe_jobs_compared", nprefix * nexp);
        stat_add("jobs_in_flight_at_reinit_total", npark);
        stat_add("distinct_nontrivial", nprefix);
        stat_add("variant_pairs", 1);
        if (item == 44) {
                rec_begin("sample");
                rec_s("old_variant", VARIANTS[u].name);
                rec_s("new_variant", VARIANTS[v].name);
                rec_i("history_calls", NH);
                rec_i("reinit_points", nprefix);
                rec_i("probe_jobs_per_point", nexp);
                rec_end();
        }
        keyset_free(ksv);
        keyset_free(ksu);
        free_mb_mgr(fresh);
        free(exp);
        free(got);
        free(WB);
        free(HB);
        free(blk);
}
static void
crashed(long item, int sig, void *arg)
{
        (void) arg;
        rec_begin("viol");
        rec_s("site", sig == 14 ? "hang" : "crash");
        rec_i("signal", sig);
        rec_s("old_variant", VARIANTS[item / NVARIANTS].name);
        rec_s("variant", VARIANTS[item % NVARIANTS].name);
        rec_end();
}

int
main(int argc, char **argv)
{
        rec_init("C15", getenv("VERIF_TIER") ? getenv("VERIF_TIER") : "quick");
        thorough = tier_thorough();
        if (!thorough) { /* quick: 3 batch sizes */
                BATCH[0] = 2;
                BATCH[1] = 5;
                BATCH[2] = 17;
                NBATCH = 3;
        }
        region_t R = region_new(1);
        alg_set_poison(R.base - 2048);
        for (int a = 1; a < NALGS; a++) {
                if (ALGS[a].lane == LM_NONE)
                        continue;
                UNITS[NUNITS++] = (unit_t){ a, 1 };
                if (ALGS[a].kind != AK_HASH && !ALGS[a].lane_enc_only)
                        UNITS[NUNITS++] = (unit_t){ a, 0 };
        }
        build_history(argc > 1 && !strcmp(argv[1], "h1"));
        par_run(NVARIANTS * NVARIANTS, n_workers(), run_pair, crashed, NULL, 1800);
        rec_begin("meta");
        rec_s("rule", "case = (old variant, new variant, re-init point = prefix of the dirtying history); history parks up to 15 "
                      "jobs of unequal lengths in every lane manager; oracle = empty-state observations + lock-step "
                      "differential of an 8-batch probe per lane manager against a freshly allocated manager");
        rec_i("history_calls", NH);
        rec_i("lane_manager_units", NUNITS);
        rec_end();
        stats_emit();
        return 0;
}
