/* C17 - distinct managers are independent.
 * Step 1 (M-state, interleavings at call granularity): two managers (all 49 ordered variant pairs, incl. the same
 *   variant twice), each running one of NPROG (10) six-call histories (jobs that complete at submit, jobs that park in
 *   out-of-order lanes, a rejected job, flush / get_completed / queue_size, direct-API calls); ALL C(12,6) = 924
 *   interleavings of the two histories in one thread, each from the pristine images. Oracle: every call of each
 *   manager observes exactly what it observes in the solo run (returned job, status, per-manager error code,
 *   output bytes). Thorough: also three managers (3 variants) with 3-call prefixes, all 1680 interleavings.
 * Step 2 (footprint independence - what makes step 1 cover thread interleavings): the library is a shared
 *   object; its only writable pages (.data/.bss past RELRO) are PROT_NONE while a library call runs; a
 *   SIGSEGV + single-step handler logs every access (symbol, read/write) and lets it proceed. Invariant over every
 *   call of the solo runs, of a sweep over every algorithm row x direction x variant (3 jobs + flush), of the
 *   direct API and of the key helpers: accesses are confined to the process-wide error mirror `imb_errno`
 *   (documented), the session counter (only inside imb_set_session) and the CPUID cache (only inside init).
 *   Two calls on distinct managers whose library-global footprints meet only there commute, so every thread
 *   schedule is equivalent to one of the call interleavings of step 1.
 * Step 3 (free-running race pass on real threads, thread sanitizer): props/c17t.c. */
#include "algs.h"
#include <link.h>
#include <signal.h>
#include <sys/mman.h>
#include <ucontext.h>

/* ------------------------------------------------------------------ footprint monitor ------------------------------------------------------------------ */
static uint8_t *mon_lo, *mon_hi;
static uintptr_t so_base;
static char so_path[512];
static struct sym {
        uintptr_t a;
        size_t n;
        char name[56];
} SY[4096];
static int NSY;
static volatile int mon_armed;
static const char *mon_label = "";
#define MAXACC 64
static struct {
        int sym, wr;
        uintptr_t addr, rip;
} ACC[MAXACC];
static volatile int NACC, ACC_OVER;
static long long n_traps, n_monitored_calls, n_adversary_writes;
static volatile int mon_adversary;
static volatile int *errno_addr;

static int
sym_of(uintptr_t a)
{
        for (int i = 0; i < NSY; i++)
                if (a >= SY[i].a && a < SY[i].a + (SY[i].n ? SY[i].n : 1))
                        return i;
        return -1;
}
static void
on_segv(int s, siginfo_t *si, void *u)
{
        ucontext_t *uc = u;
        uint8_t *a = si->si_addr;
        (void) s;
        if (!mon_armed || a < mon_lo || a >= mon_hi) {
                signal(SIGSEGV, SIG_DFL); /* a real fault: let it kill the worker (reported as crash) */
                return;
        }
        int wr = (uc->uc_mcontext.gregs[REG_ERR] & 2) != 0;
        int sy = sym_of((uintptr_t) a);
        int dup = 0;
        for (int i = 0; i < NACC; i++)
                dup |= ACC[i].sym == sy && ACC[i].wr == wr && (sy >= 0 || ACC[i].addr == (uintptr_t) a);
        if (!dup) {
                if (NACC < MAXACC) {
                        ACC[NACC].sym = sy;
                        ACC[NACC].wr = wr;
                        ACC[NACC].addr = (uintptr_t) a;
                        ACC[NACC].rip = (uintptr_t) uc->uc_mcontext.gregs[REG_RIP];
                        NACC++;
                } else
                        ACC_OVER = 1;
        }
        n_traps++;
        mprotect(mon_lo, (size_t) (mon_hi - mon_lo), PROT_READ | PROT_WRITE);
        if (mon_adversary && !wr && errno_addr && a >= (uint8_t *) errno_addr && a < (uint8_t *) errno_addr + 4) {
                /* adversarial mirror: just before the library reads the process-wide error mirror, "another thread's manager"
                 * stores an error there - a write that may happen at any time in a multi-threaded process */
                *errno_addr = IMB_ERR_JOB_NULL_SRC;
                n_adversary_writes++;
        }
        uc->uc_mcontext.gregs[REG_EFL] |= 0x100; /* single-step the faulting instruction */
}
static void
on_trap(int s, siginfo_t *si, void *u)
{
        ucontext_t *uc = u;
        (void) s;
        (void) si;
        uc->uc_mcontext.gregs[REG_EFL] &= ~0x100LL;
        if (mon_armed)
                mprotect(mon_lo, (size_t) (mon_hi - mon_lo), PROT_NONE);
}
static int
phdr_cb(struct dl_phdr_info *info, size_t sz, void *data)
{
        (void) sz;
        (void) data;
        if (!info->dlpi_name || !strstr(info->dlpi_name, "libIPSec_MB"))
                return 0;
        snprintf(so_path, sizeof so_path, "%s", info->dlpi_name);
        so_base = info->dlpi_addr;
        uintptr_t rw_lo = 0, rw_hi = 0, relro_hi = 0;
        for (int i = 0; i < info->dlpi_phnum; i++) {
                const ElfW(Phdr) *p = &info->dlpi_phdr[i];
                if (p->p_type == PT_LOAD && (p->p_flags & PF_W)) {
                        rw_lo = so_base + p->p_vaddr;
                        rw_hi = so_base + p->p_vaddr + p->p_memsz;
                }
                if (p->p_type == PT_GNU_RELRO)
                        relro_hi = so_base + p->p_vaddr + p->p_memsz;
        }
        if (!rw_hi)
                DIE("no writable segment in %s", so_path);
        uintptr_t lo = relro_hi > rw_lo ? relro_hi : rw_lo;
        lo = (lo + 4095) & ~(uintptr_t) 4095; /* RELRO end is page aligned by the linker; everything before it is read-only */
        if (relro_hi & 4095)
                DIE("RELRO end not page aligned");
        mon_lo = (uint8_t *) lo;
        mon_hi = (uint8_t *) ((rw_hi + 4095) & ~(uintptr_t) 4095);
        return 1;
}
static void
mon_init(void)
{
        if (!dl_iterate_phdr(phdr_cb, NULL))
                DIE("library is not a shared object in this build (driver must be built with cfg so)");
        if (mon_hi <= mon_lo)
                DIE("library has no writable page past RELRO"); /* then there is nothing to share at all */
        char cmd[700], line[400];
        snprintf(cmd, sizeof cmd, "nm -S --defined-only %s", so_path);
        FILE *p = popen(cmd, "r");
        if (!p)
                DIE("nm");
        while (fgets(line, sizeof line, p)) {
                unsigned long a, n;
                char t, name[200];
                if (sscanf(line, "%lx %lx %c %199s", &a, &n, &t, name) != 4)
                        continue;
                if (!strchr("bBdDcC", t))
                        continue;
                uintptr_t va = so_base + a;
                if (va + n <= (uintptr_t) mon_lo || va >= (uintptr_t) mon_hi)
                        continue;
                if (NSY == 4096)
                        DIE("too many symbols");
                SY[NSY].a = va;
                SY[NSY].n = n;
                snprintf(SY[NSY].name, sizeof SY[NSY].name, "%.55s", name);
                NSY++;
        }
        pclose(p);
        if (!NSY)
                DIE("no symbols in the monitored range");
        for (int i = 0; i < NSY; i++)
                if (!strcmp(SY[i].name, "imb_errno"))
                        errno_addr = (volatile int *) SY[i].a;
        if (!errno_addr)
                DIE("imb_errno not found among the library's writable symbols");
        struct sigaction sa;
        memset(&sa, 0, sizeof sa);
        sa.sa_flags = SA_SIGINFO | SA_NODEFER;
        sa.sa_sigaction = on_segv;
        sigaction(SIGSEGV, &sa, NULL);
        sa.sa_sigaction = on_trap;
        sigaction(SIGTRAP, &sa, NULL);
}
static int monitor_on; /* arm the monitor around calls */
static inline void
mon_arm(const char *label)
{
        if (!monitor_on)
                return;
        mon_label = label;
        NACC = 0;
        mon_armed = 1;
        mprotect(mon_lo, (size_t) (mon_hi - mon_lo), PROT_NONE);
}
static int g_v;
static const char *g_ctx = "";
static void
mon_disarm(void)
{
        if (!monitor_on)
                return;
        mon_armed = 0;
        mprotect(mon_lo, (size_t) (mon_hi - mon_lo), PROT_READ | PROT_WRITE);
        n_monitored_calls++;
        for (int i = 0; i < NACC; i++) {
                const char *nm = ACC[i].sym >= 0 ? SY[ACC[i].sym].name : "(no symbol)";
                int ok = !strcmp(nm, "imb_errno"); /* reads of the mirror are judged by the adversarial-mirror pass below */
                ok |= !strncmp(nm, "cpuid_", 6) && (!strcmp(mon_label, "init") || !strcmp(mon_label, "alloc"));
                ok |= !strncmp(nm, "counter.", 8) && !strcmp(mon_label, "set_session");
                ok |= !strcmp(nm, "imb_version_str") && !ACC[i].wr;
                char st[96];
                snprintf(st, sizeof st, "fp_%s_%s", ACC[i].wr ? "write" : "read", nm);
                stat_add(st, 1);
                if (ok)
                        continue;
                char sig[256];
                snprintf(sig, sizeof sig, "C17|fp|%s|%s|%d", nm, g_ctx, ACC[i].wr);
                if (!rec_sig_ok(sig, 2))
                        continue;
                rec_begin("viol");
                rec_s("site", "shared-state-footprint");
                rec_s("alg", g_ctx);
                rec_s("call", mon_label);
                rec_s("variant", VARIANTS[g_v].name);
                rec_s("symbol", nm);
                rec_s("access", ACC[i].wr ? "write" : "read");
                rec_i("lib_offset_of_instruction", (long long) (ACC[i].rip - so_base));
                rec_s("detail", "a library call touched writable library-global memory outside the documented process-wide error mirror / session counter / CPUID cache: "
                                "calls on distinct managers are not independent");
                rec_end();
        }
}
#define MON(label, stmt)                                                                           \
        do {                                                                                       \
                mon_arm(label);                                                                    \
                stmt;                                                                              \
                mon_disarm();                                                                      \
        } while (0)

#define C17_SET_V(v) (g_v = (v))
#include "c17_prog.h"

static mctx_t *CTX[NVARIANTS][3]; /* up to three managers per variant */
static uint64_t SOLO[NVARIANTS][NPROG][PLEN];
static mctx_t *
ctx_new(int v)
{
        mctx_t *c = aligned_alloc(64, (sizeof *c + 63) & ~(size_t) 63);
        memset(c, 0, sizeof *c);
        c->v = v;
        g_v = v;
        MON("alloc", c->m = alloc_mb_mgr(VARIANTS[v].flags));
        MON("init", VARIANTS[v].init(c->m));
        if (imb_get_errno(c->m) || c->m->used_arch_type != (uint32_t) VARIANTS[v].type)
                DIE("variant %s not selected", VARIANTS[v].name);
        c->pristine = malloc(mgr_sz);
        memcpy(c->pristine, c->m, mgr_sz);
        g_ctx = "key-helpers";
        MON("key-helpers", c->ks = keyset_new(c->m, 3));
        MON("gcm128_pre", IMB_AES128_GCM_PRE(c->m, keyset_raw(c->ks), &c->gk));
        return c;
}
static void
viol_il(int va, int vb, int pa, int pb, unsigned mask, int who, int stepi)
{
        char sig[200], ctx[100];
        snprintf(ctx, sizeof ctx, "prog%d(%s)+prog%d(%s)", pa, VARIANTS[va].name, pb, VARIANTS[vb].name);
        snprintf(sig, sizeof sig, "C17|il|%s", ctx);
        if (!rec_sig_ok(sig, 1))
                return;
        rec_begin("viol");
        rec_s("site", "interleaving-changes-result");
        rec_s("alg", ctx);
        rec_s("variant", VARIANTS[who ? vb : va].name);
        rec_i("interleaving_mask", mask);
        rec_i("manager", who);
        rec_i("step", stepi);
        rec_s("detail", "a call observed something different from the solo run of its manager (returned job, status, per-manager error code or output bytes)");
        rec_end();
}

/* item = ordered variant pair; all program pairs x all interleavings */
static void
run_pair(long item, void *arg)
{
        (void) arg;
        int va = (int) (item / NVARIANTS), vb = (int) (item % NVARIANTS);
        if (!variant_usable(va) || !variant_usable(vb))
                return;
        mctx_t *A = CTX[va][0], *B = CTX[vb][va == vb ? 1 : 0];
        long long runs = 0, calls = 0;
        monitor_on = 0;
        for (int pa = 0; pa < NPROG; pa++)
                for (int pb = 0; pb < NPROG; pb++)
                        for (unsigned mask = 0; mask < (1u << (2 * PLEN)); mask++) {
                                if (__builtin_popcount(mask) != PLEN)
                                        continue;
                                ctx_reset(A);
                                ctx_reset(B);
                                int ia = 0, ib = 0, bad = 0;
                                for (int s = 0; s < 2 * PLEN && !bad; s++) {
                                        if (mask >> s & 1) {
                                                if (step(A, &PROG[pa][ia]) != SOLO[va][pa][ia]) {
                                                        viol_il(va, vb, pa, pb, mask, 0, ia);
                                                        bad = 1;
                                                }
                                                ia++;
                                        } else {
                                                if (step(B, &PROG[pb][ib]) != SOLO[vb][pb][ib]) {
                                                        viol_il(va, vb, pa, pb, mask, 1, ib);
                                                        bad = 1;
                                                }
                                                ib++;
                                        }
                                        calls++;
                                }
                                runs++;
                        }
        stat_add("interleavings_run", runs);
        stat_add("evaluations", calls);
        stat_add("variant_pairs", 1);
}
/* three managers, first 3 calls of each history, all 9!/(3!)^3 = 1680 interleavings */
static const int TRI[3] = { 2, 4, 6 }; /* sse_t3, avx2_t2, avx512_t2 */
static void
run_triple(long item, void *arg)
{
        (void) arg;
        int p[3] = { (int) (item % NPROG), (int) (item / NPROG % NPROG), (int) (item / NPROG / NPROG) };
        for (int i = 0; i < 3; i++)
                if (!variant_usable(TRI[i]))
                        return;
        mctx_t *C[3] = { CTX[TRI[0]][0], CTX[TRI[1]][0], CTX[TRI[2]][0] };
        long long runs = 0, calls = 0;
        monitor_on = 0;
        int seq[9];
        /* enumerate sequences over {0,1,2} with three of each */
        for (int code = 0; code < 19683; code++) {
                int cnt[3] = { 0, 0, 0 }, x = code;
                for (int s = 0; s < 9; s++) {
                        seq[s] = x % 3;
                        cnt[seq[s]]++;
                        x /= 3;
                }
                if (cnt[0] != 3 || cnt[1] != 3 || cnt[2] != 3)
                        continue;
                for (int i = 0; i < 3; i++)
                        ctx_reset(C[i]);
                int idx[3] = { 0, 0, 0 };
                for (int s = 0; s < 9; s++) {
                        int w = seq[s];
                        if (step(C[w], &PROG[p[w]][idx[w]]) != SOLO[TRI[w]][p[w]][idx[w]]) {
                                viol_il(TRI[w], TRI[(w + 1) % 3], p[w], p[(w + 1) % 3], (unsigned) code, w, idx[w]);
                                break;
                        }
                        idx[w]++;
                        calls++;
                }
                runs++;
        }
        stat_add("interleavings_run", runs);
        stat_add("evaluations", calls);
}

/* footprint sweep: every algorithm row x direction, 3 jobs + flush, all calls monitored */
static void
run_sweep(long v, void *arg)
{
        (void) arg;
        if (!variant_usable((int) v))
                return;
        mctx_t *c = CTX[v][0];
        monitor_on = 1;
        g_v = (int) v;
        long long n = 0;
        static const uint32_t WANT[3] = { 64, 1, 304 };
        for (int a = 0; a < NALGS; a++)
                for (int dir = 0; dir < 2; dir++) {
                        if (ALGS[a].kind == AK_HASH && dir == 0)
                                continue;
                        ctx_reset(c);
                        g_ctx = ALGS[a].name;
                        for (int i = 0; i < 3; i++) {
                                uint32_t l = WANT[i] * (ALGS[a].bitlen ? 8u : 1u);
                                if (l < ALGS[a].minlen)
                                        l = ALGS[a].minlen;
                                while (!alg_len_ok(a, l) && l < ALGS[a].maxlen)
                                        l++;
                                IMB_JOB *j = NULL, *r = NULL;
                                MON("get_next_job", j = X_GET_NEXT(c->m));
                                item_t it;
                                mk_item(&it, c, a, dir, l, i);
                                alg_fill(c->m, j, &it);
                                MON("submit_job", r = X_SUBMIT(c->m));
                                if (c->m->imb_errno) {
                                        rec_begin("viol");
                                        rec_s("site", "sweep-job-rejected");
                                        rec_s("alg", g_ctx);
                                        rec_s("variant", VARIANTS[v].name);
                                        rec_i("errno", c->m->imb_errno);
                                        rec_end();
                                }
                                (void) r;
                                n += 2;
                        }
                        IMB_JOB *r;
                        do {
                                MON("flush_job", r = X_FLUSH(c->m));
                                n++;
                        } while (r);
                        /* burst API on the same row */
                        IMB_JOB *jobs[4];
                        uint32_t nb = 0;
                        MON("get_next_burst", nb = X_GET_NEXT_BURST(c->m, 3, jobs));
                        if (nb == 3) {
                                for (int i = 0; i < 3; i++) {
                                        item_t it;
                                        mk_item(&it, c, a, dir, ALGS[a].minlen > 32 * (ALGS[a].bitlen ? 8u : 1u) ? ALGS[a].minlen : 32 * (ALGS[a].bitlen ? 8u : 1u), i);
                                        while (!alg_len_ok(a, it.len) && it.len < ALGS[a].maxlen)
                                                it.len++;
                                        alg_fill(c->m, jobs[i], &it);
                                }
                                MON("submit_burst", nb = X_SUBMIT_BURST(c->m, 3, jobs));
                                MON("flush_burst", nb = X_FLUSH_BURST(c->m, 4, jobs));
                                n += 3;
                        }
                }
        /* direct API + misc */
        g_ctx = "direct-api";
        ctx_reset(c);
        for (int k = K_D_GCM; k <= K_D_QUIC; k++) {
                op_t o = { k, NULL, 1, 80, 0 };
                step(c, &o);
                n++;
        }
        {
                IMB_JOB *j = X_GET_NEXT(c->m);
                uint32_t id = 0;
                item_t it;
                mk_item(&it, c, alg_id("aes-cbc-128"), 1, 64, 0);
                alg_fill(c->m, j, &it);
                MON("set_session", id = imb_set_session(c->m, j));
                (void) id;
                const char *s = NULL;
                MON("get_strerror", s = imb_get_strerror(IMB_ERR_JOB_NULL_SRC));
                MON("get_errno", id = (uint32_t) imb_get_errno(c->m));
                MON("get_version_str", s = imb_get_version_str());
                MON("get_version", id = imb_get_version());
                (void) s;
                static kasumi_key_sched_t kk;
                MON("kasumi_init_f8_key_sched", IMB_KASUMI_INIT_F8_KEY_SCHED(c->m, keyset_raw(c->ks), &kk));
                MON("kasumi_f8_1_buffer", IMB_KASUMI_F8_1_BUFFER(c->m, &kk, 5, c->wb[0].src, c->wb[0].dst, 40));
                MON("chacha20_poly1305_init", IMB_CHACHA20_POLY1305_INIT(c->m, keyset_raw(c->ks), (struct chacha20_poly1305_context_data *) (void *) c->wb[1].dst, c->wb[0].iv, c->wb[0].aad, 13));
                n += 8;
                /* the rest of the direct / helper surface (one call each is enough for a footprint) */
                IMB_MGR *mm = c->m;
                wb_t *b0 = &c->wb[0], *b1 = &c->wb[1], *b2 = &c->wb[2], *b3 = &c->wb[3];
                static struct gcm_context_data gctx;
                static struct chacha20_poly1305_context_data cctx;
                static kasumi_key_sched_t k9;
                static uint64_t dks[16];
                DECLARE_ALIGNED(uint32_t ek[60], 16);
                DECLARE_ALIGNED(uint32_t dk[60], 16);
                const void *kp[4] = { keyset_raw(c->ks), keyset_raw(c->ks), keyset_raw(c->ks), keyset_raw(c->ks) };
                const void *ivp[4] = { b0->iv, b1->iv, b2->iv, b3->iv }, *inp[4] = { b0->src, b1->src, b2->src, b3->src };
                void *outp[4] = { b0->dst, b1->dst, b2->dst, b3->dst };
                uint32_t *tgp[4] = { (uint32_t *) (void *) b0->tag, (uint32_t *) (void *) b1->tag, (uint32_t *) (void *) b2->tag, (uint32_t *) (void *) b3->tag };
                uint32_t l4[4] = { 40, 17, 64, 33 };
                uint64_t kiv[4] = { 1, 2, 3, 4 };
                const snow3g_key_schedule_t *skp[4] = { &c->sk, &c->sk, &c->sk, &c->sk };
                MON("snow3g_init_key_sched", IMB_SNOW3G_INIT_KEY_SCHED(mm, keyset_raw(c->ks), &c->sk));
                MON("gcm128_init", IMB_AES128_GCM_INIT(mm, &c->gk, &gctx, b0->iv, b0->aad, 13));
                MON("gcm128_enc_update", IMB_AES128_GCM_ENC_UPDATE(mm, &c->gk, &gctx, b0->dst, b0->src, 37));
                MON("gcm128_enc_finalize", IMB_AES128_GCM_ENC_FINALIZE(mm, &c->gk, &gctx, b0->tag, 16));
                MON("gcm128_dec", IMB_AES128_GCM_DEC(mm, &c->gk, &gctx, b1->dst, b0->dst, 37, b0->iv, b0->aad, 13, b1->tag, 16));
                MON("gmac128_init", IMB_AES128_GMAC_INIT(mm, &c->gk, &gctx, b0->iv, 12));
                MON("gmac128_update", IMB_AES128_GMAC_UPDATE(mm, &c->gk, &gctx, b0->src, 37));
                MON("gmac128_finalize", IMB_AES128_GMAC_FINALIZE(mm, &c->gk, &gctx, b0->tag, 16));
                MON("ghash", IMB_GHASH(mm, &c->gk, b0->src, 40, b0->tag, 16));
                MON("chacha20_poly1305_init", IMB_CHACHA20_POLY1305_INIT(mm, keyset_raw(c->ks), &cctx, b0->iv, b0->aad, 13));
                MON("chacha20_poly1305_enc_update", IMB_CHACHA20_POLY1305_ENC_UPDATE(mm, keyset_raw(c->ks), &cctx, b0->dst, b0->src, 70));
                MON("chacha20_poly1305_finalize", IMB_CHACHA20_POLY1305_ENC_FINALIZE(mm, &cctx, b0->tag, 16));
                MON("sha1", IMB_SHA1(mm, b0->src, 70, b0->tag));
                MON("sha224", IMB_SHA224(mm, b0->src, 70, b0->tag));
                MON("sha384", IMB_SHA384(mm, b0->src, 70, b0->tag));
                MON("sha512", IMB_SHA512(mm, b0->src, 70, b0->tag));
                MON("sha1_one_block", IMB_SHA1_ONE_BLOCK(mm, b0->src, b0->tag));
                MON("sha256_one_block", IMB_SHA256_ONE_BLOCK(mm, b0->src, b0->tag));
                MON("sha512_one_block", IMB_SHA512_ONE_BLOCK(mm, b0->src, b0->tag));
                MON("md5_one_block", IMB_MD5_ONE_BLOCK(mm, b0->src, b0->tag));
                MON("aes_keyexp_128", IMB_AES_KEYEXP_128(mm, keyset_raw(c->ks), ek, dk));
                MON("aes128_cfb_one", IMB_AES128_CFB_ONE(mm, b0->dst, b0->src, b0->iv, ek, 11));
                MON("des_keysched", IMB_DES_KEYSCHED(mm, dks, keyset_raw(c->ks)));
                MON("des_cfb_one", des_cfb_one(b0->dst, b0->src, (const uint64_t *) (const void *) b0->iv, dks, 5));
                MON("zuc_eea3_4_buffer", IMB_ZUC_EEA3_4_BUFFER(mm, kp, ivp, inp, outp, l4));
                MON("zuc_eea3_n_buffer", IMB_ZUC_EEA3_N_BUFFER(mm, kp, ivp, inp, outp, l4, 3));
                MON("zuc_eia3_1_buffer", IMB_ZUC_EIA3_1_BUFFER(mm, keyset_raw(c->ks), b0->iv, b0->src, 333, tgp[0]));
                MON("zuc_eia3_n_buffer", IMB_ZUC_EIA3_N_BUFFER(mm, kp, ivp, inp, l4, tgp, 4));
                MON("snow3g_f8_2_buffer", IMB_SNOW3G_F8_2_BUFFER(mm, &c->sk, b0->iv, b1->iv, b0->src, b0->dst, 40, b1->src, b1->dst, 17));
                MON("snow3g_f8_n_buffer", IMB_SNOW3G_F8_N_BUFFER(mm, &c->sk, ivp, inp, outp, l4, 4));
                MON("snow3g_f8_n_buffer_multikey", IMB_SNOW3G_F8_N_BUFFER_MULTIKEY(mm, skp, ivp, inp, outp, l4, 3));
                MON("snow3g_f8_1_buffer_bit", IMB_SNOW3G_F8_1_BUFFER_BIT(mm, &c->sk, b0->iv, b0->src, b0->dst, 301, 3));
                MON("snow3g_f9_1_buffer", IMB_SNOW3G_F9_1_BUFFER(mm, &c->sk, b0->iv, b0->src, 301, b0->tag));
                MON("kasumi_f8_2_buffer", IMB_KASUMI_F8_2_BUFFER(mm, &kk, kiv[0], kiv[1], b0->src, b0->dst, 40, b1->src, b1->dst, 17));
                MON("kasumi_f8_n_buffer", IMB_KASUMI_F8_N_BUFFER(mm, &kk, kiv, inp, outp, l4, 4));
                MON("kasumi_f8_1_buffer_bit", IMB_KASUMI_F8_1_BUFFER_BIT(mm, &kk, kiv[0], b0->src, b0->dst, 301, 3));
                MON("kasumi_init_f9_key_sched", IMB_KASUMI_INIT_F9_KEY_SCHED(mm, keyset_raw(c->ks), &k9));
                MON("kasumi_f9_1_buffer", IMB_KASUMI_F9_1_BUFFER(mm, &k9, b0->src, 40, b0->tag));
                MON("kasumi_f9_1_buffer_user", IMB_KASUMI_F9_1_BUFFER_USER(mm, &k9, kiv[0], b0->src, 301, b0->tag, 1));
                MON("hec_32", id = IMB_HEC_32(mm, b0->src));
                MON("hec_64", kiv[0] = IMB_HEC_64(mm, b0->src));
                MON("crc16_x25", id = IMB_CRC16_X25(mm, b0->src, 40));
                MON("crc24_lte_a", id = IMB_CRC24_LTE_A(mm, b0->src, 40));
                MON("hmac_ipad_opad", imb_hmac_ipad_opad(mm, IMB_AUTH_HMAC_SHA_256, keyset_raw(c->ks), 32, b0->dst, b1->dst));
                {
                        void *dst[2] = { b0->dst, b1->dst }, *tg[2] = { b0->tag, b1->tag };
                        const void *src[2] = { b0->src, b1->src }, *ivs[2] = { b0->iv, b1->iv }, *aads[2] = { b0->aad, b1->aad };
                        uint64_t lens[2] = { 40, 17 };
                        MON("quic_chacha20_poly1305", imb_quic_chacha20_poly1305(mm, keyset_raw(c->ks), IMB_DIR_ENCRYPT, dst, src, lens, ivs, aads, 8, tg, 2));
                        MON("quic_hp_aes_ecb", imb_quic_hp_aes_ecb(mm, ek, dst, src, 2, IMB_KEY_128_BYTES));
                }
                n += 50;
        }
        /* re-initialisation of an existing manager */
        MON("init", VARIANTS[v].init(c->m));
        memcpy(c->m, c->pristine, mgr_sz);
        monitor_on = 0;
        stat_add("monitored_calls", n_monitored_calls);
        stat_add("monitor_traps", n_traps);
        stat_add("evaluations", n);
        n_monitored_calls = 0;
        n_traps = 0;
}
static void
crashed(long item, int sig, void *arg)
{
        rec_begin("viol");
        rec_s("site", sig == 14 ? "hang" : "crash");
        rec_i("signal", sig);
        rec_s("alg", (const char *) arg);
        rec_i("item", item);
        rec_end();
}

int
main(void)
{
        rec_init("C17", getenv("VERIF_TIER") ? getenv("VERIF_TIER") : "quick");
        mon_init();
        mgr_sz = imb_get_mb_mgr_size();
        /* managers, pristine images and solo observations (monitored) */
        monitor_on = 1;
        for (int v = 0; v < NVARIANTS; v++) {
                if (!variant_usable(v))
                        continue;
                for (int k = 0; k < 2; k++)
                        CTX[v][k] = ctx_new(v);
                for (int p = 0; p < NPROG; p++) {
                        char cx[32];
                        snprintf(cx, sizeof cx, "solo-prog%d", p);
                        g_ctx = cx;
                        for (int k = 0; k < 2; k++) { /* both manager instances must agree with each other */
                                ctx_reset(CTX[v][k]);
                                for (int s = 0; s < PLEN; s++) {
                                        uint64_t o = step(CTX[v][k], &PROG[p][s]);
                                        /* non-vacuity: every job of a history except the deliberately invalid one must be accepted */
                                        if (PROG[p][s].kind == K_SUBMIT && CTX[v][k]->m->imb_errno && !(s > 0 && PROG[p][s - 1].bad))
                                                DIE("history %d step %d: job rejected on %s (errno %d)", p, s, VARIANTS[v].name, CTX[v][k]->m->imb_errno);
                                        if (k == 0)
                                                SOLO[v][p][s] = o;
                                        else if (o != SOLO[v][p][s])
                                                DIE("solo run not deterministic (variant %s prog %d step %d)", VARIANTS[v].name, p, s);
                                }
                        }
                }
        }
        /* adversarial-mirror pass: the same solo histories and a re-initialisation, with a foreign error code stored into the
         * process-wide mirror immediately before every read the library makes of it. What the manager's owner observes
         * (returned jobs, statuses, per-manager error code, outputs; after init: the whole manager image) must not change. */
        mon_adversary = 1;
        for (int v = 0; v < NVARIANTS; v++) {
                if (!CTX[v][0])
                        continue;
                mctx_t *c = CTX[v][0];
                g_v = v;
                for (int p = 0; p < NPROG; p++) {
                        ctx_reset(c);
                        g_ctx = "adversarial-mirror";
                        for (int s = 0; s < PLEN; s++)
                                if (step(c, &PROG[p][s]) != SOLO[v][p][s]) {
                                        rec_begin("viol");
                                        rec_s("site", "foreign-error-code-changes-result");
                                        rec_s("alg", "history");
                                        rec_s("variant", VARIANTS[v].name);
                                        rec_i("program", p);
                                        rec_i("step", s);
                                        rec_s("detail", "a store to the process-wide error mirror by another manager (emulated right before the library reads the mirror) changed what this manager's owner observes");
                                        rec_end();
                                        break;
                                }
                }
                ctx_reset(c);
                MON("init", VARIANTS[v].init(c->m));
                if (c->m->imb_errno || memcmp(c->m, c->pristine, offsetof(IMB_MGR, earliest_job))) {
                        rec_begin("viol");
                        rec_s("site", "foreign-error-code-changes-result");
                        rec_s("alg", "init");
                        rec_s("call", "init");
                        rec_s("variant", VARIANTS[v].name);
                        rec_i("errno", c->m->imb_errno);
                        rec_s("detail", "initialising a manager while another manager's error sits in the process-wide mirror (emulated store right before the library reads the mirror) failed or bound something else");
                        rec_end();
                }
                memcpy(c->m, c->pristine, mgr_sz);
        }
        mon_adversary = 0;
        *errno_addr = 0;
        stat_add("adversarial_mirror_writes", n_adversary_writes);
        stat_add("monitored_calls", n_monitored_calls);
        stat_add("monitor_traps", n_traps);
        n_monitored_calls = n_traps = 0;
        monitor_on = 0;
        /* non-vacuity: the programs must really differ in what they observe */
        hset_t *hs = hset_new(1 << 12);
        for (int v = 0; v < NVARIANTS; v++)
                for (int p = 0; p < NPROG; p++)
                        for (int s = 0; s < PLEN; s++)
                                hset_add(hs, SOLO[v][p][s]);
        stat_add("distinct_nontrivial", (long long) hset_count(hs));
        par_run(NVARIANTS * NVARIANTS, n_workers(), run_pair, crashed, "interleavings", 1800);
        if (tier_thorough())
                par_run(NPROG * NPROG * NPROG, n_workers(), run_triple, crashed, "triples", 1800);
        par_run(NVARIANTS, n_workers(), run_sweep, crashed, "footprint-sweep", 1800);
        stat_add("monitored_symbols", NSY);
        stat_add("monitored_bytes", (long long) (mon_hi - mon_lo));
        rec_begin("sample");
        rec_s("pair", "prog1 (aes-cbc-128 + hmac-sha1 parked, flushed) on sse_t3 with prog2 (rejected aes-ctr job) on avx512_t2");
        rec_s("case", "all 924 interleavings of the two 6-call histories from the pristine images; every call's observation equals its solo run");
        rec_end();
        rec_begin("meta");
        rec_s("rule", "states = executions (variant pair, program pair, interleaving); oracle = per-call observation (returned job, status, per-manager errno, "
                      "all work-buffer bytes) equals the solo run; footprint invariant: accesses to the library's writable pages (PROT_NONE + single-step "
                      "monitor) are confined to imb_errno / session counter in imb_set_session / CPUID cache in init");
        rec_end();
        stats_emit();
        return 0;
}
