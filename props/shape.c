/* C01 / C02 / C03 - outputs equal the published algorithm for every input SHAPE (M-shape, DESIGN.md 4).
 * Bounded-exhaustive enumeration of (algorithm row x direction x length x IV form x tag length x AAD length x
 * offset x in/out-of-place x variant), every job completed (a) alone and (b) inside a batch of jobs of
 * different lengths in flight, each compared with the independent reference model (ref/).
 * usage: shape <C01|C02|C03>                                                                  */
#include "algs.h"

#define NSLOT 24
#define MAXLEN 70000
typedef struct {
        uint32_t len;
        uint8_t dir, ivlen, ivclass, taglen, inplace, noctr, geom;
        uint16_t aadlen, off;
        uint32_t hash_off, hash_len, cipher_off;
} shape_t;
typedef struct {
        shape_t *v;
        size_t n, cap;
} shapes_t;
static void
push(shapes_t *s, shape_t x)
{
        if (s->n == s->cap) {
                s->cap = s->cap ? s->cap * 2 : 1024;
                s->v = realloc(s->v, s->cap * sizeof *s->v);
        }
        s->v[s->n++] = x;
}

static const char *PROP;
static int want_kind;
static int thorough;

static const uint16_t LATE_W[] = { 16, 17, 31, 32, 33, 48, 64, 100, 128, 200, 255, /* full 32-bit wrap at block w */
                                   16, 17, 32, 48, 64,                            /* low-byte carry at block w */
                                   16, 32, 64 };                                  /* 16-bit carry at block w */
#define N_LATE ((int) (sizeof LATE_W / sizeof LATE_W[0]))
static const uint32_t PONC_D[] = { 1, 2, 3, 4, 5, 6, 7, 8, 9, 12, 13, 16, 17 };
#define N_PONC ((int) (sizeof PONC_D / sizeof PONC_D[0]))
static uint32_t
late_w(int cls)
{
        return LATE_W[cls - 11];
}
/* length sweep (in the algorithm's unit) */
static void
len_sweep(int a, uint32_t **out, size_t *n)
{
        const alg_t *A = &ALGS[a];
        uint32_t dense = thorough ? 1100 : 300;
        if (A->bitlen)
                dense = thorough ? 1100 : 520;
        size_t cap = 4096, k = 0;
        uint32_t *v = malloc(cap * sizeof *v);
        for (uint32_t l = A->minlen; l <= dense && l <= A->maxlen; l++)
                if (alg_len_ok(a, l))
                        v[k++] = l;
        /* stripes: counter low byte / word carries, 16-bit length limits, per-mode maximum */
        static const uint32_t centres[] = { 4080, 4096, 8176, 16368, 32752, 65520 };
        int w = thorough ? 33 : 2;
        uint32_t unit = A->bitlen ? 8 : 1;
        for (unsigned c = 0; c < sizeof centres / sizeof centres[0]; c++) {
                if (!thorough && (c == 2 || c == 3 || c == 4))
                        continue;
                for (int d = -w; d <= w; d++) {
                        int64_t l = (int64_t) centres[c] * unit + d;
                        if (l > (int64_t) dense && l <= (int64_t) A->maxlen && alg_len_ok(a, (uint32_t) l) &&
                            l <= MAXLEN * (int64_t) unit - 64)
                                v[k++] = (uint32_t) l;
                }
        }
        if (A->maxlen <= (MAXLEN - 64) * unit && A->maxlen > dense) {
                for (int d = -(thorough ? 20 : 2) * (int) A->gran; d <= 0; d += (int) A->gran)
                        if ((int64_t) A->maxlen + d > (int64_t) dense && alg_len_ok(a, A->maxlen + d))
                                v[k++] = A->maxlen + (uint32_t) d;
        }
        *out = v;
        *n = k;
}

static void
build_shapes(int a, shapes_t *S)
{
        const alg_t *A = &ALGS[a];
        uint32_t *lens;
        size_t nl;
        len_sweep(a, &lens, &nl);
        int ndir = A->kind == AK_HASH ? 1 : 2;
        static const uint16_t offs_q[] = { 0, 1, 15 };
        int noff = thorough ? 16 : 3;
        const int is_ctr = A->cm == IMB_CIPHER_CNTR || A->cm == IMB_CIPHER_CNTR_BITLEN || A->cm == IMB_CIPHER_SM4_CNTR;
        for (size_t i = 0; i < nl; i++)
                for (int d = 0; d < ndir; d++) {
                        shape_t s = { .len = lens[i], .dir = (uint8_t) (ndir == 1 ? 1 : d) };
                        if (A->family == F_DOCSISCRC || A->family == F_PON)
                                break;
                        /* default IV/tag, alternating in/out of place, rotating offset */
                        s.inplace = (uint8_t) ((i + (size_t) d) & 1);
                        s.off = (A->inplace_only || A->family == F_SNOW3G || A->family == F_KASUMI) ? 0 : (thorough ? (uint16_t) (i % 16) : offs_q[i % 3]);
                        if (A->kind == AK_AEAD)
                                s.aadlen = (uint16_t) (A->family == F_CCM ? 13 : 20);
                        push(S, s);
                        if (lens[i] <= 64 * (A->bitlen ? 8u : 1u)) { /* both placements, all offsets for short messages */
                                for (int o = 0; o < noff; o++) {
                                        shape_t t = s;
                                        t.inplace = (uint8_t) !s.inplace;
                                        t.off = thorough ? (uint16_t) o : offs_q[o];
                                        if (A->family == F_SNOW3G || A->family == F_KASUMI)
                                                t.off = 0; /* offset conventions of the 3GPP bit modes differ between byte and bit paths: offset 0 only */
                                        push(S, t);
                                }
                        }
                        /* alternative IV lengths */
                        for (int q = 1; q < 3 && A->ivlens[q]; q++) {
                                shape_t t = s;
                                t.ivlen = (uint8_t) A->ivlens[q];
                                push(S, t);
                        }
                        /* counter classes (16-byte counter block forms): early carries/wraps (classes 1-10) and carries /
                         * wraps that happen at block w >= 16, i.e. inside the unrolled main loops (classes 11..) */
                        if (is_ctr) {
                                uint32_t nbytes = A->bitlen ? (lens[i] + 7) / 8 : lens[i];
                                for (int c = 1; c <= 10; c++) {
                                        if (!thorough && nbytes > 80 && (lens[i] % 7) && nbytes < 4000)
                                                continue;
                                        shape_t t = s;
                                        t.ivlen = 16;
                                        t.ivclass = (uint8_t) c;
                                        push(S, t);
                                }
                                for (int c = 11; c < 11 + N_LATE; c++) {
                                        uint32_t w = late_w(c);
                                        if (w * 16 >= nbytes)
                                                continue; /* the carry would not be reached */
                                        if (!thorough && nbytes > 320 && nbytes < 4000)
                                                continue;
                                        shape_t t = s;
                                        t.ivlen = 16;
                                        t.ivclass = (uint8_t) c;
                                        push(S, t);
                                }
                        }
                        /* other permitted tag lengths */
                        if (A->kind != AK_CIPHER) {
                                for (int q = 1; q < 4 && A->taglens[q]; q++) {
                                        shape_t t = s;
                                        t.taglen = (uint8_t) A->taglens[q];
                                        push(S, t);
                                }
                                if (A->tag_any_hi && (lens[i] < 40 || lens[i] % 64 == 1))
                                        for (int tl = A->tag_any_lo; tl <= A->tag_any_hi; tl += A->tag_step) {
                                                shape_t t = s;
                                                t.taglen = (uint8_t) tl;
                                                push(S, t);
                                        }
                        }
                }
        /* AEAD: AAD / IV-length / nonce dimensions around boundary plaintext lengths */
        if (A->family == F_GCM || A->family == F_SM4GCM || A->family == F_CCM || A->family == F_CHAPOLY ||
            A->family == F_SNOWVAEAD || A->family == F_GMAC) {
                static const uint32_t bl[] = { 0, 1, 15, 16, 17, 64, 255, 256, 257 };
                int maxaad = A->family == F_CCM ? 46 : (thorough ? 300 : 130);
                for (unsigned b = 0; b < sizeof bl / sizeof bl[0]; b++)
                        for (int d = 0; d < ndir; d++) {
                                if (!alg_len_ok(a, bl[b]))
                                        continue;
                                shape_t s = { .len = bl[b], .dir = (uint8_t) (ndir == 1 ? 1 : d), .inplace = (uint8_t) (b & 1) };
                                if (A->family != F_GMAC)
                                        for (int aad = 0; aad <= maxaad; aad++) {
                                                shape_t t = s;
                                                t.aadlen = (uint16_t) aad;
                                                push(S, t);
                                        }
                                if (A->family != F_GMAC && A->family != F_CCM) {
                                        static const uint16_t big[] = { 255, 256, 257, 1024 };
                                        for (int q = 0; q < 4; q++) {
                                                shape_t t = s;
                                                t.aadlen = big[q];
                                                push(S, t);
                                        }
                                }
                                if (A->family == F_GCM || A->family == F_GMAC) {
                                        for (int ivl = 1; ivl <= 34; ivl++) {
                                                shape_t t = s;
                                                t.aadlen = 11;
                                                t.ivlen = (uint8_t) ivl;
                                                push(S, t);
                                        }
                                        static const uint8_t bigiv[] = { 60, 64, 128 };
                                        for (int q = 0; q < 3; q++) {
                                                shape_t t = s;
                                                t.aadlen = 5;
                                                t.ivlen = bigiv[q];
                                                push(S, t);
                                        }
                                }
                                if (A->family == F_CCM)
                                        for (int nl2 = 7; nl2 <= 13; nl2++)
                                                for (int tl = 4; tl <= 16; tl += 2)
                                                        for (int aad = 0; aad <= 46; aad += (nl2 == 13 || tl == 8) ? 1 : 23) {
                                                                shape_t t = s;
                                                                t.ivlen = (uint8_t) nl2;
                                                                t.taglen = (uint8_t) tl;
                                                                t.aadlen = (uint16_t) aad;
                                                                push(S, t);
                                                        }
                        }
        }
        if (A->family == F_GCM) {
                /* long messages x many IVs of a length != 12: J0 comes from GHASH, so the low counter byte at the start
                 * of the stitched main loops takes (with this many IVs) every value; the counter then carries inside
                 * every unrolled loop variant (each shape instance draws its own IV) */
                int nivs = thorough ? 4096 : 1024;
                for (int q = 0; q < nivs; q++) {
                        shape_t t = { .len = (q & 1) ? 4200 : 4137, .dir = (uint8_t) (q & 1), .inplace = (uint8_t) ((q >> 1) & 1) };
                        t.ivlen = (uint8_t) ((q % 3) == 0 ? 16 : (q % 3) == 1 ? 13 : 24);
                        t.aadlen = (uint16_t) (q % 21);
                        push(S, t);
                }
        }
        if (A->family == F_DOCSISCRC) {
                /* canonical geometry: the cipher range starts 12 bytes into the hashed range and runs to the end of
                 * the CRC field (cipher_len = hash_len - 8); plus CRC-only and cipher-only jobs */
                uint32_t maxh = thorough ? 1100 : 300;
                for (uint32_t hl = 14; hl <= maxh; hl++)
                        for (int d = 0; d < 2; d++)
                                for (uint32_t ho = 0; ho <= 6; ho += 6) {
                                        shape_t s = { .dir = (uint8_t) d, .inplace = 1, .geom = 1 };
                                        s.hash_off = ho;
                                        s.hash_len = hl;
                                        s.cipher_off = ho + 12;
                                        s.len = hl - 8;
                                        push(S, s);
                                        if (ho == 0 && hl % 5 == 0) { /* CRC only */
                                                shape_t t = s;
                                                t.len = 0;
                                                t.geom = 2;
                                                push(S, t);
                                        }
                                }
                /* longer headers: the cipher range starts H bytes into the hashed range (H around the 16-byte folding steps of the CRC
                 * kernels) and still runs to the end of the CRC field; cipher length >= 5 (see known findings F33 / F33b for the two
                 * geometry classes that are excluded: cipher range ending early, cipher range starting inside the CRC field) */
                static const uint32_t HDR[] = { 14, 16, 17, 20, 24, 28, 31, 32, 33, 40, 47, 48, 49, 63, 64, 65, 80 };
                for (unsigned hi = 0; hi < sizeof HDR / sizeof HDR[0]; hi++)
                        for (uint32_t hl = HDR[hi] + 1; hl <= maxh; hl += (hl < HDR[hi] + 40 ? 1 : 7))
                                for (int d = 0; d < 2; d++) {
                                        shape_t s = { .dir = (uint8_t) d, .inplace = 1, .geom = 4 };
                                        s.hash_off = 0;
                                        s.hash_len = hl;
                                        s.cipher_off = HDR[hi];
                                        s.len = hl + 4 - HDR[hi];
                                        push(S, s);
                                }
                for (uint32_t cl = 1; cl <= maxh; cl++)
                        for (int d = 0; d < 2; d++) { /* cipher only (no CRC): tag not written */
                                shape_t s = { .dir = (uint8_t) d, .inplace = 1, .geom = 3, .len = cl };
                                s.hash_len = 0;
                                s.cipher_off = 0;
                                push(S, s);
                        }
        }
        if (A->family == F_PON) {
                uint32_t maxf = thorough ? 2048 : 320;
                for (uint32_t fl = 8; fl <= maxf; fl += 4)
                        for (int d = 0; d < 2; d++)
                                for (int nc = 0; nc < 2; nc++)
                                        for (int pad = 0; pad < 4; pad++) {
                                                if (fl - 8 < (uint32_t) pad)
                                                        continue;
                                                shape_t s = { .len = fl, .dir = (uint8_t) d, .inplace = 1, .noctr = (uint8_t) nc };
                                                s.hash_len = fl - 8 - (uint32_t) pad; /* PLI */
                                                push(S, s);
                                        }
                /* counter carries of the 128-bit big-endian PON counter block: low 64 bits = 2^64 - d, so that the carry out of the low
                 * quad word happens at block d (classes 40..: high quad word random; 60..: all ones, the whole block wraps) */
                for (int k = 0; k < N_PONC; k++)
                        for (int hi = 0; hi < 2; hi++)
                                for (uint32_t fl = 72; fl <= 328; fl += 64)
                                        for (int d = 0; d < 2; d++) {
                                                if (PONC_D[k] * 16 + 16 > fl)
                                                        continue;
                                                shape_t s = { .len = fl, .dir = (uint8_t) d, .inplace = 1 };
                                                s.hash_len = fl - 8 - 1;
                                                s.ivclass = (uint8_t) ((hi ? 60 : 40) + k);
                                                push(S, s);
                                        }
                /* small PLI values inside a larger padded frame */
                for (uint32_t pli = 0; pli <= 12; pli++)
                        for (int d = 0; d < 2; d++) {
                                shape_t s = { .len = 8 + ((pli + 3) & ~3u) + 4, .dir = (uint8_t) d, .inplace = 1 };
                                s.hash_len = pli;
                                push(S, s);
                        }
        }
        free(lens);
}

/* one in-flight job */
typedef struct {
        shape_t s;
        item_t it;
        uint8_t *srcbuf, *dstbuf, *iv, *aad, *tagbuf, *niv;
        uint8_t *exp_dst, *exp_tag, *src_copy;
        uint8_t exp_niv[16];
        int refmask, busy;
        uint32_t nbytes, span;
} slot_t;
static slot_t SL[NSLOT];
static region_t R;
static keyset_t *KS[2];
static int g_a, g_v;
static long long n_eval, n_cmp_bytes;
static hset_t *distinct;

static void
counter_iv(uint8_t *iv, int cls, uint64_t seed)
{
        if (cls >= 40) { /* PON: low quad word 2^64 - d */
                int hi = cls >= 60, k = cls - (hi ? 60 : 40);
                uint64_t lo = 0 - (uint64_t) PONC_D[k];
                fill_rand(iv, 16, seed);
                if (hi)
                        memset(iv, 0xff, 8);
                for (int i = 0; i < 8; i++)
                        iv[8 + i] = (uint8_t) (lo >> (56 - 8 * i));
                return;
        }
        if (cls >= 11) {
                int k = cls - 11;
                uint32_t w = LATE_W[k], l;
                fill_rand(iv, 16, seed);
                if (k < 11) {
                        memset(iv, 0xff, 12);
                        l = 0u - w;
                } else if (k < 16)
                        l = 0x5A5A5B00u - w;
                else
                        l = 0x5A5B0000u - w;
                iv[12] = (uint8_t) (l >> 24);
                iv[13] = (uint8_t) (l >> 16);
                iv[14] = (uint8_t) (l >> 8);
                iv[15] = (uint8_t) l;
                return;
        }
        /* 16-byte counter blocks whose low 32 bits carry across 8/16/24/32 bits and wrap; upper 96 bits all ones
         * for the wrap classes so that a carry leaking upward would change the output */
        static const uint32_t low[] = { 0, 0xFD, 0xFF, 0xFFFD, 0xFFFFFD, 0xFFFFFFFD, 0xFFFFFFFE, 0xFFFFFFFF, 0x7FFFFFFF,
                                        0xFFFE };
        fill_rand(iv, 16, seed);
        if (cls >= 5 && cls <= 8)
                memset(iv, 0xff, 12);
        if (cls == 10)
                memset(iv + 8, 0xff, 4);
        uint32_t l = low[cls - 1];
        iv[12] = (uint8_t) (l >> 24);
        iv[13] = (uint8_t) (l >> 16);
        iv[14] = (uint8_t) (l >> 8);
        iv[15] = (uint8_t) l;
}

static void
viol(const slot_t *sl, const char *site, const char *detail, long x)
{
        const alg_t *A = &ALGS[g_a];
        char sig[200];
        snprintf(sig, sizeof sig, "%s|%s|%s|%s|%d", PROP, site, A->name, VARIANTS[g_v].name, sl->s.dir);
        if (!rec_sig_ok(sig, 6))
                return;
        rec_begin("viol");
        rec_s("site", site);
        rec_s("detail", detail);
        rec_s("alg", A->name);
        rec_s("variant", VARIANTS[g_v].name);
        rec_i("dir", sl->s.dir);
        rec_i("len", sl->s.len);
        rec_i("ivlen", item_ivlen(&sl->it));
        rec_i("ivclass", sl->s.ivclass);
        rec_i("taglen", item_taglen(&sl->it));
        rec_i("aadlen", sl->s.aadlen);
        rec_i("off", sl->s.off);
        rec_i("inplace", sl->s.inplace);
        rec_i("x", x);
        rec_i("hash_len", sl->s.hash_len);
        rec_i("noctr", sl->s.noctr);
        rec_end();
}

#define CANARY 0xC7
static void
prep(slot_t *sl, shape_t s, int keyid, uint64_t serial)
{
        const alg_t *A = &ALGS[g_a];
        sl->s = s;
        item_t *it = &sl->it;
        memset(it, 0, sizeof *it);
        it->alg = g_a;
        it->dir = s.dir;
        it->len = s.len;
        it->ivlen = s.ivlen;
        it->taglen = s.taglen;
        it->aadlen = s.aadlen;
        it->off = s.off;
        it->ks = KS[keyid];
        it->minimal = 1;
        uint32_t nb = item_nbytes(it);
        sl->nbytes = nb;
        uint32_t span = nb;
        if (A->family == F_DOCSISCRC) {
                it->hash_off = s.hash_off;
                it->hash_len = s.hash_len;
                it->cipher_off = s.cipher_off;
                span = s.hash_off + s.hash_len + 4;
                if (s.cipher_off + s.len > span)
                        span = s.cipher_off + s.len;
        }
        if (A->family == F_PON)
                it->pon_noctr = s.noctr;
        sl->span = span;
        /* source bytes: function of (alg-independent) serial so batches differ */
        fill_rand(sl->srcbuf, (size_t) s.off + span + 32, 100000 + serial * 7919 + s.len);
        if (A->family == F_PON) { /* XGEM header: PLI in the top 14 bits */
                uint32_t pli = s.hash_len;
                sl->srcbuf[0] = (uint8_t) (pli >> 6);
                sl->srcbuf[1] = (uint8_t) ((pli << 2) | (sl->srcbuf[1] & 3));
        }
        if (A->family == F_KF9 && nb > 0) {
                /* already formatted message is arbitrary bytes for the MAC; keep as is */
        }
        memcpy(sl->src_copy, sl->srcbuf, (size_t) s.off + span + 32);
        it->src = sl->srcbuf;
        memset(sl->dstbuf, CANARY, (size_t) span + 96);
        /* no alignment is documented for src, dst, job->iv, AAD, tag and next_iv: rotate through all 16 phases */
        const unsigned dm = (unsigned) ((serial / 2) % 16), im = (unsigned) ((serial / 3) % 16), tm = (unsigned) ((serial / 5) % 16),
                       am = (unsigned) ((serial / 7) % 16), nm = (unsigned) ((serial / 11) % 16);
        if (s.inplace || A->inplace_only) {
                it->dst = sl->srcbuf + (A->inplace_only ? 0 : s.off);
                /* in place with offset: dst receives output at dst[0] == src[off] */
        } else
                it->dst = sl->dstbuf + 16 + dm;
        if (A->kind == AK_HASH)
                it->dst = NULL;
        int ivl = item_ivlen(it);
        uint8_t *ivp = sl->iv + ((A->kind == AK_HASH) ? 0 : im); /* hash-specific IV fields are documented 16-byte aligned */
        if (s.ivclass)
                counter_iv(ivp, s.ivclass, serial);
        else
                fill_rand(ivp, (size_t) (ivl ? ivl : 16), 555 + serial);
        if (A->family == F_ZUC && A->klen == 32 && ivl == 25)
                for (int i = 17; i < 25; i++)
                        ivp[i] &= 0x3f;
        if (A->family == F_ZUCEIA && A->klen == 32 && ivl == 25)
                for (int i = 17; i < 25; i++)
                        ivp[i] &= 0x3f;
        it->iv = ivl ? ivp : NULL;
        fill_rand(sl->aad + am, (size_t) s.aadlen + 1, 777 + serial);
        it->aad = sl->aad + am;
        memset(sl->tagbuf, CANARY, 160);
        it->tag = sl->tagbuf + 16 + tm;
        it->next_iv = sl->niv + nm;
        memset(sl->niv, CANARY, 64);
        /* expectation */
        const uint8_t *prev = NULL;
        uint8_t prevbuf[8] = { 0 };
        if (A->cm == IMB_CIPHER_CNTR_BITLEN) {
                /* tail bits of the last dst byte are preserved: previous dst content */
                prev = (s.inplace ? it->dst : it->dst);
        }
        (void) prevbuf;
        sl->refmask = alg_ref(it, prev, sl->exp_dst, sl->exp_tag, sl->exp_niv);
}

static void
check(slot_t *sl, IMB_JOB *j)
{
        const alg_t *A = &ALGS[g_a];
        item_t *it = &sl->it;
        n_eval++;
        if (j->status != IMB_STATUS_COMPLETED) {
                viol(sl, "valid-job-not-completed", "status != COMPLETED for a job satisfying all documented constraints",
                     j->status * 100000 + imb_get_errno(NULL));
                return;
        }
        int tl = item_taglen(it);
        if (sl->refmask & 1) {
                const uint8_t *got = it->dst;
                if (A->family == F_DOCSISCRC || A->family == F_PON) {
                        got = it->src;
                        if (memcmp(got, sl->exp_dst, sl->span))
                                viol(sl, "frame-mismatch", "frame after the job differs from the specification", 0);
                } else if (alg_cmp_dst(it, got, sl->exp_dst)) {
                        uint32_t k = 0;
                        while (k < sl->nbytes && got[k] == sl->exp_dst[k])
                                k++;
                        viol(sl, "dst-mismatch", "destination differs from the specification", k);
                }
                n_cmp_bytes += sl->span;
                if (!(sl->s.inplace || A->inplace_only)) {
                        /* bytes around dst untouched, source unchanged */
                        for (int q = 0; q < 16; q++)
                                if (it->dst[-1 - q] != CANARY || it->dst[sl->nbytes + (uint32_t) q] != CANARY) {
                                        if (!(A->bitlen && q == 0)) {
                                                viol(sl, "dst-overwrite", "bytes outside dst[0..len) were written", q);
                                                break;
                                        }
                                }
                        if (memcmp(sl->srcbuf, sl->src_copy, (size_t) sl->s.off + sl->span + 32))
                                viol(sl, "src-modified", "out-of-place job modified its source", 0);
                }
        }
        if (sl->refmask & 2) {
                int skip = 0;
                if (A->family == F_DOCSISCRC && sl->s.hash_len < 14)
                        skip = 1; /* no CRC computed: tag content is not defined */
                int cmp_from = 0, cmp_n = tl;
                if (A->family == F_PON && sl->s.hash_len <= 4)
                        cmp_n = 4; /* CRC half undefined when PLI <= 4 */
                if (!skip && memcmp(it->tag + cmp_from, sl->exp_tag + cmp_from, (size_t) cmp_n))
                        viol(sl, "tag-mismatch", "tag differs from the specification", 0);
                if (A->family == F_PON && sl->s.hash_len <= 4 && (it->tag[4] | it->tag[5] | it->tag[6] | it->tag[7]))
                        viol(sl, "tag-mismatch", "PON: no FCS in the payload but the CRC half of the tag is not zero", 0);
                if (!skip && !(A->family == F_PON && sl->s.hash_len <= 4))
                        for (int q = 0; q < 16; q++)
                                if (it->tag[-1 - q] != CANARY || it->tag[tl + q] != CANARY) {
                                        viol(sl, "tag-overwrite", "bytes outside tag[0..tag_len) were written", q);
                                        break;
                                }
        }
        if (A->family == F_CBCS && memcmp(it->next_iv, sl->exp_niv, 16))
                viol(sl, "next-iv-mismatch", "CBCS next_iv differs", 0);
        if (A->kind == AK_HASH && memcmp(sl->srcbuf, sl->src_copy, (size_t) sl->s.off + sl->span + 32))
                viol(sl, "src-modified", "hash job modified its source", 0);
        uint64_t dk[4] = { (uint64_t) g_a << 32 | (uint64_t) g_v, sl->s.len, (uint64_t) sl->s.dir << 40 | (uint64_t) item_ivlen(it) << 32 | (uint64_t) sl->s.ivclass << 24 | (uint64_t) tl << 16 | sl->s.aadlen,
                           (uint64_t) sl->s.off << 8 | sl->s.inplace | (uint64_t) sl->s.hash_len << 32 };
        hset_add(distinct, hash_bytes(dk, sizeof dk, 3));
}

/* pass 2 - lane patterns: on a pristine manager image, L = 4, 8, 16 jobs are submitted so that job i sits in lane i; all have
 * the same base length except the one at position p (every p), which is shorter or longer by one unit, one AES block or a few
 * blocks; bases are the multiples of 16/32/64 bytes at which the multi-buffer kernels switch between their "all lanes in
 * common" and per-lane tail code. Every job is compared with the reference model as in the other passes. */
static uint32_t
lp_len(int a, long want)
{
        const alg_t *A = &ALGS[a];
        if (want < 1)
                want = 1;
        uint32_t l = (uint32_t) want;
        if (l < A->minlen)
                l = A->minlen;
        while (!alg_len_ok(a, l) && l < A->maxlen)
                l++;
        return alg_len_ok(a, l) ? l : 0;
}
static void
lane_patterns(IMB_MGR *m)
{
        const alg_t *A = &ALGS[g_a];
        if (A->family == F_DOCSISCRC || A->family == F_PON || A->family == F_NULLC)
                return;
        const size_t mgr_sz = imb_get_mb_mgr_size();
        uint8_t *pristine = malloc(mgr_sz);
        memcpy(pristine, m, mgr_sz);
        static const uint32_t BASES[] = { 16, 32, 48, 64, 128, 256 };
        static const int DELTAS[] = { 1, 16, 67, -1, -16, 320 };
        const long unit = A->bitlen ? 8 : 1;
        uint64_t serial = 1u << 20;
        long long npat = 0;
        for (int lanes = 4; lanes <= 16; lanes *= 2)
                for (unsigned bi = 0; bi < sizeof BASES / sizeof BASES[0]; bi++) {
                        const uint32_t lb = lp_len(g_a, (long) BASES[bi] * unit);
                        for (unsigned di = 0; di < sizeof DELTAS / sizeof DELTAS[0]; di++) {
                                const uint32_t lo = lp_len(g_a, ((long) BASES[bi] + DELTAS[di]) * unit);
                                if (!lb || !lo || lo == lb)
                                        continue;
                                if (!thorough && lanes == 16 && (di == 2 || di == 4))
                                        continue;
                                for (int p = 0; p < lanes; p++) {
                                        memcpy(m, pristine, mgr_sz);
                                        int inflight = 0;
                                        for (int i = 0; i <= lanes; i++) {
                                                IMB_JOB *r;
                                                if (i < lanes) {
                                                        shape_t s = { .len = i == p ? lo : lb,
                                                                      .dir = (uint8_t) (A->kind == AK_HASH ? 1 : (bi + di) & 1) };
                                                        if (A->kind == AK_AEAD)
                                                                s.aadlen = (uint16_t) (A->family == F_CCM ? 13 : 20);
                                                        slot_t *sl = &SL[i];
                                                        prep(sl, s, i & 1, serial++);
                                                        IMB_JOB *j = X_GET_NEXT(m);
                                                        alg_fill(m, j, &sl->it);
                                                        j->user_data = sl;
                                                        sl->busy = 1;
                                                        inflight++;
                                                        r = X_SUBMIT(m);
                                                } else
                                                        r = X_FLUSH(m);
                                                while (r) {
                                                        slot_t *sl = r->user_data;
                                                        if (!sl || sl < SL || sl >= SL + NSLOT || !sl->busy) {
                                                                viol(&SL[0], "bogus-job", "returned job has unknown user_data", 0);
                                                                break;
                                                        }
                                                        check(sl, r);
                                                        sl->busy = 0;
                                                        inflight--;
                                                        r = i < lanes ? X_GET_COMPLETED(m) : X_FLUSH(m);
                                                }
                                        }
                                        if (inflight)
                                                viol(&SL[p], "not-exactly-once", "lane pattern: jobs left in the manager after flush", inflight);
                                        for (int i = 0; i < NSLOT; i++)
                                                SL[i].busy = 0;
                                        npat++;
                                }
                        }
                }
        stat_add("lane_patterns", npat);
        memcpy(m, pristine, mgr_sz);
        free(pristine);
}
static void
run_alg_variant(long item, void *arg)
{
        (void) arg;
        g_a = (int) (item / NVARIANTS);
        g_v = (int) (item % NVARIANTS);
        const alg_t *A = &ALGS[g_a];
        if (A->kind != want_kind || !variant_usable(g_v))
                return;
        if (PROP[2] == '1' && A->family == F_NULLC)
                return;
        IMB_MGR *m = mgr_new(g_v);
        static char ctx[96];
        snprintf(ctx, sizeof ctx, "%s/%s", VARIANTS[g_v].name, A->name);
        g_tcall_ctx = ctx;
        KS[0] = keyset_new(m, 1);
        KS[1] = keyset_new(m, 2);
        distinct = hset_new(1 << 16);
        shapes_t S = { 0 };
        build_shapes(g_a, &S);
        for (int pass = 0; pass < 2; pass++) {
                /* pass 0: every job alone (submit, flush); pass 1: NSLOT-1 jobs of different shapes in flight */
                int depth = pass == 0 ? 1 : NSLOT - 1;
                int inflight = 0;
                size_t next = 0;
                uint64_t serial = 0;
                while (next < S.n || inflight) {
                        IMB_JOB *r = NULL;
                        if (next < S.n && inflight < depth) {
                                int si;
                                for (si = 0; si < NSLOT; si++)
                                        if (!SL[si].busy)
                                                break;
                                slot_t *sl = &SL[si];
                                prep(sl, S.v[next], (int) (next & 1), serial++);
                                next++;
                                IMB_JOB *j = X_GET_NEXT(m);
                                alg_fill(m, j, &sl->it);
                                j->user_data = sl;
                                sl->busy = 1;
                                inflight++;
                                r = X_SUBMIT(m);
                                if (!r && imb_get_errno(m))
                                        viol(sl, "submit-errno", "errno set although NULL returned", imb_get_errno(m));
                        } else
                                r = X_FLUSH(m);
                        while (r) {
                                slot_t *sl = r->user_data;
                                if (!sl || sl < SL || sl >= SL + NSLOT || !sl->busy) {
                                        viol(&SL[0], "bogus-job", "returned job has unknown user_data", 0);
                                        break;
                                }
                                check(sl, r);
                                sl->busy = 0;
                                inflight--;
                                r = X_GET_COMPLETED(m);
                        }
                        if (deadline_reached())
                                break;
                }
                if (deadline_reached()) {
                        stat_add("caps_hit", 1);
                        break;
                }
        }
        lane_patterns(m);
        stat_add("evaluations", n_eval);
        stat_add("distinct_nontrivial", (long long) hset_count(distinct));
        stat_add("bytes_compared", n_cmp_bytes);
        stat_add("alg_variant_cells", 1);
        stat_add("shapes_per_cell_total", (long long) S.n);
        if (g_v == 6 && S.n) {
                shape_t s = S.v[S.n / 2];
                rec_begin("sample");
                rec_s("alg", A->name);
                rec_s("variant", VARIANTS[g_v].name);
                rec_i("len", s.len);
                rec_i("dir", s.dir);
                rec_i("ivlen", s.ivlen);
                rec_i("ivclass", s.ivclass);
                rec_i("taglen", s.taglen);
                rec_i("aadlen", s.aadlen);
                rec_i("off", s.off);
                rec_i("inplace", s.inplace);
                rec_i("shapes_for_this_alg", (long long) S.n);
                rec_end();
        }
        n_eval = n_cmp_bytes = 0;
        free(S.v);
        keyset_free(KS[0]);
        keyset_free(KS[1]);
        free_mb_mgr(m);
}
static void
crashed(long item, int sig, void *arg)
{
        (void) arg;
        rec_begin("viol");
        rec_s("site", sig == 14 ? "hang" : "crash");
        rec_i("signal", sig);
        rec_s("alg", ALGS[item / NVARIANTS].name);
        rec_s("variant", VARIANTS[item % NVARIANTS].name);
        rec_s("detail", "library faulted while processing valid jobs of this algorithm (shape sweep)");
        rec_end();
}

int
main(int argc, char **argv)
{
        PROP = argc > 1 ? argv[1] : "C01";
        rec_init(PROP, getenv("VERIF_TIER") ? getenv("VERIF_TIER") : "quick");
        thorough = tier_thorough();
        want_kind = !strcmp(PROP, "C01") ? AK_CIPHER : !strcmp(PROP, "C02") ? AK_HASH : AK_AEAD;
        R = region_new(1);
        alg_set_poison(R.base - 2048);
        for (int i = 0; i < NSLOT; i++) {
                SL[i].srcbuf = malloc(MAXLEN + 256);
                SL[i].dstbuf = malloc(MAXLEN + 256);
                SL[i].exp_dst = malloc(MAXLEN + 256);
                SL[i].src_copy = malloc(MAXLEN + 256);
                SL[i].exp_tag = malloc(128);
                SL[i].iv = aligned_alloc(64, 256);
                SL[i].aad = malloc(2048 + 32);
                SL[i].tagbuf = malloc(256);
                SL[i].niv = malloc(96);
        }
        par_run((long) NALGS * NVARIANTS, n_workers(), run_alg_variant, crashed, NULL, 600);
        rec_begin("meta");
        rec_s("rule",
              "case = (algorithm row, variant, direction, length, IV length/counter class, tag length, AAD length, source "
              "offset, in/out of place, frame geometry); every case is executed twice - alone and with 23 other jobs of "
              "different shapes in flight - as a minimal job (unneeded pointers poisoned) and compared byte for byte "
              "(bit for bit) with the reference model; distinct_nontrivial counts distinct cases whose output was "
              "compared; length sweep = every valid length up to the dense bound plus stripes around 4080/4096/.../65520 "
              "and the per-mode maximum; lane patterns = on a pristine manager image 4/8/16 jobs (job i in lane i) of one base length "
              "(16..256 bytes) except one position p (every p) that is 1 unit / 1 block / several blocks shorter or longer");
        rec_end();
        stats_emit();
        return 0;
}
