/* C04 (synchronous bursts among asynchronous jobs) - a job's result depends only on itself, also when a synchronous
 * cipher / hash / AEAD burst is issued while jobs of the asynchronous API are parked in the SAME out-of-order manager
 * (M-dev: schedule enumeration). The synchronous bursts run through the managers the job API uses; nothing in the
 * documentation forbids mixing the two on one IMB_MGR.
 * Enumerated: every algorithm row a synchronous burst offers (AES-CBC/CFB encrypt x 3 key sizes, HMAC-SHA-1..512,
 * SHA-1..512, AES-CMAC x 3, AES-CCM x 2; CTR/ECB as controls) x asynchronous companions {the same row alone;
 * chained cipher->hash (encrypt); chained hash->cipher (decrypt) sharing the manager} x parked jobs 1..9 x burst
 * size {1, 3, 9, 17} x checked / no-check x 7 variants.
 * Oracle: the burst returns exactly its own number of jobs, all COMPLETED with the outputs each job gives alone;
 * afterwards flush hands back the asynchronous jobs exactly once, in order, COMPLETED with the outputs each gives
 * alone (in particular the plaintext of a hash->cipher job). */
#include "algs.h"
#include "ref_modes.h"

#define MAXL 200
#define NA 9  /* parked asynchronous jobs (max) */
#define NB 17 /* burst jobs (max) */
typedef struct {
        uint8_t src[MAXL + 64], dst[MAXL + 64], iv[32], aad[32], tag[80], niv[16];
} wb_t;
static wb_t WA[NA], WB_[NB], WX;
static IMB_MGR *m;
static keyset_t *KS;
static int g_v, g_a, g_kind;
static const alg_t *A;
static char g_name[96];
static long long n_eval, n_mixed;

static void
viol(const char *site, const char *detail, int npark, int nburst, int comp, long x)
{
        char sig[220];
        snprintf(sig, sizeof sig, "C04s|%s|%s|%s|%d", site, g_name, VARIANTS[g_v].name, comp);
        if (!rec_sig_ok(sig, 2))
                return;
        rec_begin("viol");
        rec_s("site", site);
        rec_s("alg", g_name);
        rec_s("api", "sync-burst-with-parked-async");
        rec_s("variant", VARIANTS[g_v].name);
        rec_s("detail", detail);
        rec_i("parked_async_jobs", npark);
        rec_i("burst_size", nburst);
        rec_i("companion", comp);
        rec_i("x", x);
        rec_end();
}
static int
sync_kind(const alg_t *R)
{
        if (R->kind == AK_CIPHER && R->family == F_AES && (R->cm == IMB_CIPHER_CBC || R->cm == IMB_CIPHER_CNTR || R->cm == IMB_CIPHER_ECB || R->cm == IMB_CIPHER_CFB))
                return 1;
        if (R->kind == AK_HASH && ((R->family == F_HMAC && R->sub <= REF_SHA512) || R->family == F_SHA || R->family == F_CMAC))
                return 2;
        if (R->family == F_CCM)
                return 3;
        return 0;
}
static uint32_t
pick_len(int a, uint32_t want)
{
        const alg_t *R = &ALGS[a];
        uint32_t l = want * (R->bitlen ? 8u : 1u);
        if (l < R->minlen)
                l = R->minlen;
        while (!alg_len_ok(a, l) && l < R->maxlen)
                l++;
        return l;
}
/* companion 0: the row itself; 1: chained cipher->hash (encrypt); 2: chained hash->cipher (decrypt) */
static void
mk(item_t *it, wb_t *b, int comp, int idx, int async)
{
        memset(it, 0, sizeof *it);
        uint32_t want = 16u * (uint32_t) (1 + (idx * 5 + (async ? 3 : 0)) % 7);
        int a = g_a, dir = 1, a2 = 0;
        if (async && comp) {
                if (g_kind == 2) { /* burst row is a hash: companion = AES-CBC-128 chained with that hash */
                        a = alg_id("aes-cbc-128");
                        a2 = g_a;
                } else { /* burst row is a cipher: companion = that cipher chained with HMAC-SHA-256 */
                        a = g_a;
                        a2 = alg_id("hmac-sha256");
                }
                dir = comp == 1 ? 1 : 0;
        }
        it->alg = a;
        it->dir = A->kind == AK_HASH && !a2 ? 1 : dir;
        if (!async && g_kind == 1)
                it->dir = 1; /* the managers are used by the encrypt direction */
        it->len = pick_len(a, want);
        it->ks = KS;
        it->src = b->src;
        it->dst = ALGS[a].inplace_only ? b->src : b->dst;
        it->iv = b->iv;
        it->aad = b->aad;
        it->aadlen = ALGS[a].kind == AK_AEAD ? 13 : 0;
        it->tag = b->tag;
        it->next_iv = b->niv;
        if (a2) {
                it->alg2 = a2;
                it->hoff = 0;
                it->hlen = pick_len(a2, want);
                if (!ALGS[a2].bitlen && it->hlen > it->len)
                        it->hlen = it->len;
        }
}
static void
inputs(wb_t *b, uint64_t s)
{
        fill_rand(b->src, sizeof b->src, 3000 + s);
        fill_rand(b->iv, 32, 3100 + s);
        fill_rand(b->aad, 32, 3200 + s);
        memset(b->dst, 0, sizeof b->dst);
        memset(b->tag, 0, sizeof b->tag);
        memset(b->niv, 0, sizeof b->niv);
}
static uint64_t
wb_hash(const wb_t *b)
{
        return hash_bytes(b, sizeof *b, 5);
}
/* expected buffer contents of a job processed alone on the empty manager */
static uint64_t
alone(int comp, int idx, int async)
{
        inputs(&WX, (uint64_t) (idx + (async ? 100 : 0)));
        item_t it;
        mk(&it, &WX, comp, idx, async);
        IMB_JOB *j = X_GET_NEXT(m);
        alg_fill(m, j, &it);
        IMB_JOB *r = X_SUBMIT(m);
        if (!r)
                r = X_FLUSH(m);
        if (!r || r->status != IMB_STATUS_COMPLETED)
                viol("alone-job-failed", "job of the schedule not completed when processed alone", 0, 0, comp, imb_get_errno(m));
        while (X_FLUSH(m))
                ;
        return wb_hash(&WX);
}
static void
run_case(int comp, int npark, int nburst, int nocheck)
{
        static IMB_JOB SJ[NB];
        uint64_t expA[NA], expB[NB];
        for (int i = 0; i < npark; i++)
                expA[i] = alone(comp, i, 1);
        for (int i = 0; i < nburst; i++)
                expB[i] = alone(0, i, 0);
        /* park the asynchronous jobs */
        int returned[NA] = { 0 }, order = 0, parked = 0;
        for (int i = 0; i < npark; i++) {
                inputs(&WA[i], (uint64_t) (i + 100));
                item_t it;
                mk(&it, &WA[i], comp, i, 1);
                IMB_JOB *j = X_GET_NEXT(m);
                alg_fill(m, j, &it);
                j->user_data = (void *) (uintptr_t) (i + 1);
                IMB_JOB *r = X_SUBMIT(m);
                if (imb_get_errno(m))
                        viol("valid-job-rejected", "asynchronous companion job rejected", npark, nburst, comp, imb_get_errno(m));
                while (r) {
                        int k = (int) (uintptr_t) r->user_data - 1;
                        if (k != order++)
                                viol("async-order", "asynchronous jobs handed back out of order", npark, nburst, comp, k);
                        if (k >= 0 && k < npark)
                                returned[k]++;
                        r = X_GET_COMPLETED(m);
                }
        }
        parked = npark - order;
        if (parked > 0)
                n_mixed++;
        /* the synchronous burst */
        for (int i = 0; i < nburst; i++) {
                inputs(&WB_[i], (uint64_t) i);
                item_t it;
                mk(&it, &WB_[i], 0, i, 0);
                alg_fill(m, &SJ[i], &it);
        }
        IMB_CIPHER_DIRECTION d = IMB_DIR_ENCRYPT;
        uint32_t r;
        if (g_kind == 1)
                r = nocheck ? IMB_SUBMIT_CIPHER_BURST_NOCHECK(m, SJ, (uint32_t) nburst, (IMB_CIPHER_MODE) A->cm, d, (IMB_KEY_SIZE_BYTES) A->klen)
                            : IMB_SUBMIT_CIPHER_BURST(m, SJ, (uint32_t) nburst, (IMB_CIPHER_MODE) A->cm, d, (IMB_KEY_SIZE_BYTES) A->klen);
        else if (g_kind == 2)
                r = nocheck ? IMB_SUBMIT_HASH_BURST_NOCHECK(m, SJ, (uint32_t) nburst, (IMB_HASH_ALG) A->ha) : IMB_SUBMIT_HASH_BURST(m, SJ, (uint32_t) nburst, (IMB_HASH_ALG) A->ha);
        else
                r = nocheck ? IMB_SUBMIT_AEAD_BURST_NOCHECK(m, SJ, (uint32_t) nburst, (IMB_CIPHER_MODE) A->cm, d, (IMB_KEY_SIZE_BYTES) A->klen)
                            : IMB_SUBMIT_AEAD_BURST(m, SJ, (uint32_t) nburst, (IMB_CIPHER_MODE) A->cm, d, (IMB_KEY_SIZE_BYTES) A->klen);
        n_eval++;
        if (r != (uint32_t) nburst)
                viol("sync-burst-count", "synchronous burst did not return exactly its own number of jobs (x = returned*100 + parked)", npark, nburst, comp, (long) r * 100 + parked);
        for (int i = 0; i < nburst; i++) {
                if (SJ[i].status != IMB_STATUS_COMPLETED)
                        viol("sync-burst-job-not-completed", "job of the synchronous burst not COMPLETED", npark, nburst, comp, i);
                else if (wb_hash(&WB_[i]) != expB[i])
                        viol("sync-burst-job-differs-from-alone", "job of the synchronous burst differs from the same job alone", npark, nburst, comp, i);
        }
        /* collect the asynchronous jobs */
        IMB_JOB *j;
        while ((j = X_FLUSH(m)) != NULL) {
                int k = (int) (uintptr_t) j->user_data - 1;
                if (k != order++)
                        viol("async-order", "asynchronous jobs handed back out of order", npark, nburst, comp, k);
                if (k >= 0 && k < npark)
                        returned[k]++;
                if (j->status != IMB_STATUS_COMPLETED)
                        viol("async-job-not-completed", "asynchronous job not COMPLETED", npark, nburst, comp, k);
        }
        for (int i = 0; i < npark; i++) {
                if (returned[i] != 1)
                        viol("async-not-exactly-once", "asynchronous job not handed back exactly once", npark, nburst, comp, i);
                else if (wb_hash(&WA[i]) != expA[i])
                        viol("async-job-differs-from-alone", "asynchronous job that was in flight during a synchronous burst differs from the same job alone (e.g. cipher stage never run)", npark,
                             nburst, comp, i);
        }
}
static void
run_alg_variant(long item, void *arg)
{
        (void) arg;
        g_a = (int) (item / NVARIANTS);
        g_v = (int) (item % NVARIANTS);
        A = &ALGS[g_a];
        g_kind = sync_kind(A);
        if (!g_kind || !variant_usable(g_v))
                return;
        m = mgr_new(g_v);
        KS = keyset_new(m, 44);
        snprintf(g_name, sizeof g_name, "%s", A->name);
        static char ctx[128];
        snprintf(ctx, sizeof ctx, "%s/%s-syncburst", VARIANTS[g_v].name, A->name);
        g_tcall_ctx = ctx;
        static const int NBS[4] = { 1, 3, 9, 17 };
        for (int comp = 0; comp < 3; comp++) {
                if (comp && g_kind == 3)
                        continue; /* CCM cannot be chained */
                for (int npark = 1; npark <= NA; npark++)
                        for (int q = 0; q < 4; q++)
                                for (int nocheck = 0; nocheck < 2; nocheck++)
                                        run_case(comp, npark, NBS[q], nocheck);
        }
        stat_add("evaluations", n_eval);
        stat_add("distinct_nontrivial", n_mixed);
        stat_add("bursts_issued_with_async_jobs_parked", n_mixed);
        n_eval = n_mixed = 0;
        free_mb_mgr(m);
}
static void
crashed(long item, int sig, void *arg)
{
        (void) arg;
        rec_begin("viol");
        rec_s("site", sig == 14 ? "hang" : "crash");
        rec_i("signal", sig);
        rec_s("alg", ALGS[item / NVARIANTS].name);
        rec_s("api", "sync-burst-with-parked-async");
        rec_s("variant", VARIANTS[item % NVARIANTS].name);
        rec_end();
}
int
main(void)
{
        rec_init("C04", getenv("VERIF_TIER") ? getenv("VERIF_TIER") : "quick");
        par_run((long) NALGS * NVARIANTS, n_workers(), run_alg_variant, crashed, NULL, 900);
        rec_begin("meta");
        rec_s("rule_sync_bursts", "schedule = (row offered by a synchronous burst, asynchronous companion kind, 1..9 asynchronous jobs submitted first, one "
                                  "synchronous burst of 1/3/9/17 jobs, flush); oracle = burst returns its own count, every job equals the same job alone, "
                                  "asynchronous jobs handed back once, in order, complete");
        rec_end();
        stats_emit();
        return 0;
}
