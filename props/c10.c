/* C10 - streaming / SGL results do not depend on segmentation (M-state with exact state merging, DESIGN.md 4/C10).
 * An update is a pure function of (context bytes, key, input segment): BFS over states (bytes consumed p, exact
 * context bytes); from every state every segment length of the alphabet is applied; equal states are merged
 * (equal state => equal future), so EVERY ordered partition of the message over the alphabet is covered by
 * polynomially many library calls. Oracle at every transition: the bytes just emitted equal the one-shot
 * reference output at that position; at every final state the tag equals the one-shot tag.
 * Interfaces: direct GCM (12-byte IV init and var-IV init), GMAC, ChaCha20-Poly1305 init/update/finalize;
 * GCM-SGL and ChaCha20-Poly1305-SGL jobs (INIT / UPDATE / COMPLETE); IMB_SGL_ALL jobs with every 1..3-segment
 * array for short messages.                                                                       */
#include "algs.h"
#include "ref_aead.h"
#include "tdirect.h"
#include <signal.h>
#include <setjmp.h>

enum { I_GCM, I_GCM_VARIV, I_GMAC, I_CHAPOLY, I_GCM_SGLJOB, I_CHAPOLY_SGLJOB };
typedef struct {
        int iface, klen, dir;
        char name[48];
} cfg_t;
static cfg_t CFG[64];
static int NCFG;
/* C07 for the streaming interfaces: every source segment handed to an update call ends flush against an unmapped page */
static region_t GIN;
static sigjmp_buf g_jb;
static volatile int g_guarded;
static void
on_fault(int sig, siginfo_t *si, void *u)
{
        (void) si;
        (void) u;
        if (!g_guarded) {
                signal(sig, SIG_DFL);
                return;
        }
        siglongjmp(g_jb, 1);
}

static IMB_MGR *m;
static int c18_only, c07_only; /* label runs: same exploration, only that property's records are kept */
static keyset_t *KS;
static int g_v, thorough;
static const cfg_t *C;
static uint32_t L;
static uint8_t *MSG, *EXP, *OUT, *AAD, *IVB, EXPTAG[16]; /* AAD / IVB: end-flush against unmapped pages (set per configuration) */
static region_t GAAD, GIVR;
static int ivlen, aadlen = 13;
static uint32_t SEG[256];
static int NSEG;

static union ctxu {
        struct gcm_context_data g;
        struct chacha20_poly1305_context_data c;
        uint8_t raw[512];
} CTX __attribute__((aligned(64)));
static size_t ctxsize;

static const void *
gkey(void)
{
        /* keyset internals: rebuild key data through the public helpers */
        static struct gcm_key_data gk[3] __attribute__((aligned(64)));
        static int built_for = -1;
        if (built_for != g_v) {
                IMB_AES128_GCM_PRE(m, keyset_raw(KS), &gk[0]);
                IMB_AES192_GCM_PRE(m, keyset_raw(KS), &gk[1]);
                IMB_AES256_GCM_PRE(m, keyset_raw(KS), &gk[2]);
                built_for = g_v;
        }
        return &gk[C->klen == 16 ? 0 : C->klen == 24 ? 1 : 2];
}

static void
viol(const char *site, const char *detail, uint32_t p, uint32_t s, const char *path)
{
        char sig[200];
        if (c18_only && !(c07_only && !strcmp(site, "fault")))
                return;
        snprintf(sig, sizeof sig, "%s|%s|%s|%s", g_property, site, C->name, VARIANTS[g_v].name);
        if (!rec_sig_ok(sig, 4))
                return;
        rec_begin("viol");
        rec_s("site", site);
        rec_s("detail", detail);
        rec_s("alg", C->name);
        rec_s("variant", VARIANTS[g_v].name);
        rec_i("dir", C->dir);
        rec_i("consumed_before", p);
        rec_i("segment", s);
        rec_i("msg_len", L);
        rec_s("partition_prefix", path);
        rec_end();
}

static IMB_JOB *
sgl_job(int state, const uint8_t *in, uint8_t *out, uint32_t len, uint8_t *tag)
{
        IMB_JOB *j = X_GET_NEXT(m);
        memset(j, 0, sizeof *j);
        j->cipher_direction = C->dir ? IMB_DIR_ENCRYPT : IMB_DIR_DECRYPT;
        j->chain_order = C->dir ? IMB_ORDER_CIPHER_HASH : IMB_ORDER_HASH_CIPHER;
        j->src = in;
        j->dst = out;
        j->msg_len_to_cipher_in_bytes = len;
        j->msg_len_to_hash_in_bytes = len;
        j->iv = IVB;
        j->iv_len_in_bytes = (uint64_t) ivlen;
        static uint8_t dummy_tag[16];
        j->auth_tag_output = tag ? tag : dummy_tag;
        j->auth_tag_output_len_in_bytes = 16;
        j->sgl_state = (IMB_SGL_STATE) state;
        if (C->iface == I_GCM_SGLJOB) {
                j->cipher_mode = IMB_CIPHER_GCM_SGL;
                j->hash_alg = IMB_AUTH_GCM_SGL;
                j->key_len_in_bytes = (uint64_t) C->klen;
                j->enc_keys = gkey();
                j->dec_keys = gkey();
                j->u.GCM.aad = AAD;
                j->u.GCM.aad_len_in_bytes = (uint64_t) aadlen;
                j->u.GCM.ctx = &CTX.g;
        } else {
                j->cipher_mode = IMB_CIPHER_CHACHA20_POLY1305_SGL;
                j->hash_alg = IMB_AUTH_CHACHA20_POLY1305_SGL;
                j->chain_order = IMB_ORDER_HASH_CIPHER;
                j->key_len_in_bytes = 32;
                j->enc_keys = keyset_raw(KS);
                j->dec_keys = keyset_raw(KS);
                j->u.CHACHA20_POLY1305.aad = AAD;
                j->u.CHACHA20_POLY1305.aad_len_in_bytes = (uint64_t) aadlen;
                j->u.CHACHA20_POLY1305.ctx = &CTX.c;
        }
        IMB_JOB *r = X_SUBMIT(m);
        if (!r)
                r = X_FLUSH(m);
        if (!r || r->status != IMB_STATUS_COMPLETED)
                viol("sgl-job-failed", "valid SGL job not completed", 0, len, "");
        return r;
}

/* the three stream operations; `first`: no context yet (only for job interfaces whose INIT carries data) */
static void
op_init(const uint8_t *in, uint8_t *out, uint32_t s)
{
        const void *k = gkey();
        memset(&CTX, 0, sizeof CTX);
        switch (C->iface) {
        case I_GCM:
                if (C->klen == 16)
                        IMB_AES128_GCM_INIT(m, k, &CTX.g, IVB, AAD, (uint64_t) aadlen);
                else if (C->klen == 24)
                        IMB_AES192_GCM_INIT(m, k, &CTX.g, IVB, AAD, (uint64_t) aadlen);
                else
                        IMB_AES256_GCM_INIT(m, k, &CTX.g, IVB, AAD, (uint64_t) aadlen);
                break;
        case I_GCM_VARIV:
                if (C->klen == 16)
                        IMB_AES128_GCM_INIT_VAR_IV(m, k, &CTX.g, IVB, (uint64_t) ivlen, AAD, (uint64_t) aadlen);
                else if (C->klen == 24)
                        IMB_AES192_GCM_INIT_VAR_IV(m, k, &CTX.g, IVB, (uint64_t) ivlen, AAD, (uint64_t) aadlen);
                else
                        IMB_AES256_GCM_INIT_VAR_IV(m, k, &CTX.g, IVB, (uint64_t) ivlen, AAD, (uint64_t) aadlen);
                break;
        case I_GMAC:
                if (C->klen == 16)
                        IMB_AES128_GMAC_INIT(m, k, &CTX.g, IVB, (uint64_t) ivlen);
                else if (C->klen == 24)
                        IMB_AES192_GMAC_INIT(m, k, &CTX.g, IVB, (uint64_t) ivlen);
                else
                        IMB_AES256_GMAC_INIT(m, k, &CTX.g, IVB, (uint64_t) ivlen);
                break;
        case I_CHAPOLY:
                IMB_CHACHA20_POLY1305_INIT(m, keyset_raw(KS), &CTX.c, IVB, AAD, (uint64_t) aadlen);
                break;
        case I_GCM_SGLJOB:
                sgl_job(IMB_SGL_INIT, in, out, 0, NULL);
                break;
        case I_CHAPOLY_SGLJOB:
                sgl_job(IMB_SGL_INIT, in, out, s, NULL); /* INIT carries the first segment */
                break;
        }
}
static void
op_update(const uint8_t *in, uint8_t *out, uint32_t s)
{
        const void *k = gkey();
        switch (C->iface) {
        case I_GCM:
        case I_GCM_VARIV:
                if (C->dir) {
                        if (C->klen == 16)
                                IMB_AES128_GCM_ENC_UPDATE(m, k, &CTX.g, out, in, s);
                        else if (C->klen == 24)
                                IMB_AES192_GCM_ENC_UPDATE(m, k, &CTX.g, out, in, s);
                        else
                                IMB_AES256_GCM_ENC_UPDATE(m, k, &CTX.g, out, in, s);
                } else {
                        if (C->klen == 16)
                                IMB_AES128_GCM_DEC_UPDATE(m, k, &CTX.g, out, in, s);
                        else if (C->klen == 24)
                                IMB_AES192_GCM_DEC_UPDATE(m, k, &CTX.g, out, in, s);
                        else
                                IMB_AES256_GCM_DEC_UPDATE(m, k, &CTX.g, out, in, s);
                }
                break;
        case I_GMAC:
                if (C->klen == 16)
                        IMB_AES128_GMAC_UPDATE(m, k, &CTX.g, in, s);
                else if (C->klen == 24)
                        IMB_AES192_GMAC_UPDATE(m, k, &CTX.g, in, s);
                else
                        IMB_AES256_GMAC_UPDATE(m, k, &CTX.g, in, s);
                break;
        case I_CHAPOLY:
                if (C->dir)
                        IMB_CHACHA20_POLY1305_ENC_UPDATE(m, keyset_raw(KS), &CTX.c, out, in, s);
                else
                        IMB_CHACHA20_POLY1305_DEC_UPDATE(m, keyset_raw(KS), &CTX.c, out, in, s);
                break;
        default:
                sgl_job(IMB_SGL_UPDATE, in, out, s, NULL);
        }
}
static void
op_final(const uint8_t *in, uint8_t *out, uint32_t s, uint8_t *tag, uint64_t tl)
{
        const void *k = gkey();
        switch (C->iface) {
        case I_GCM:
        case I_GCM_VARIV:
                if (C->klen == 16)
                        C->dir ? IMB_AES128_GCM_ENC_FINALIZE(m, k, &CTX.g, tag, tl) : IMB_AES128_GCM_DEC_FINALIZE(m, k, &CTX.g, tag, tl);
                else if (C->klen == 24)
                        C->dir ? IMB_AES192_GCM_ENC_FINALIZE(m, k, &CTX.g, tag, tl) : IMB_AES192_GCM_DEC_FINALIZE(m, k, &CTX.g, tag, tl);
                else
                        C->dir ? IMB_AES256_GCM_ENC_FINALIZE(m, k, &CTX.g, tag, tl) : IMB_AES256_GCM_DEC_FINALIZE(m, k, &CTX.g, tag, tl);
                break;
        case I_GMAC:
                if (C->klen == 16)
                        IMB_AES128_GMAC_FINALIZE(m, k, &CTX.g, tag, tl);
                else if (C->klen == 24)
                        IMB_AES192_GMAC_FINALIZE(m, k, &CTX.g, tag, tl);
                else
                        IMB_AES256_GMAC_FINALIZE(m, k, &CTX.g, tag, tl);
                break;
        case I_CHAPOLY:
                if (C->dir)
                        IMB_CHACHA20_POLY1305_ENC_FINALIZE(m, &CTX.c, tag, tl);
                else
                        IMB_CHACHA20_POLY1305_DEC_FINALIZE(m, &CTX.c, tag, tl);
                break;
        case I_GCM_SGLJOB:
                sgl_job(IMB_SGL_COMPLETE, in, out, 0, tag);
                break;
        case I_CHAPOLY_SGLJOB:
                sgl_job(IMB_SGL_COMPLETE, in, out, s, tag); /* COMPLETE carries the last segment */
                break;
        }
}

/* ---- state store: per consumed-length p a list of distinct contexts (+ one witness path each) ---- */
typedef struct node {
        struct node *next;
        uint16_t npath;
        uint16_t path[14]; /* last segment lengths leading here (witness, truncated) */
        uint8_t ctx[];
} node_t;
static node_t **BYP;
static hset_t *SEEN;
static long long n_states, n_trans, n_final, n_merged;
static long long max_states;
static int capped;

static void
path_str(const node_t *n, uint32_t s, char *buf, size_t len)
{
        size_t o = 0;
        buf[0] = 0;
        if (n)
                for (int i = 0; i < n->npath && i < 14; i++)
                        o += (size_t) snprintf(buf + o, len - o, "%u+", n->path[i]);
        snprintf(buf + o, len - o, "%u", s);
}
static void
add_state(uint32_t p, const node_t *from, uint32_t s)
{
        uint64_t h = hash_bytes(&CTX, ctxsize, p + 1);
        if (!hset_add(SEEN, h)) {
                n_merged++;
                return;
        }
        if (n_states >= max_states) {
                capped = 1;
                return;
        }
        node_t *n = malloc(sizeof *n + ctxsize);
        memcpy(n->ctx, &CTX, ctxsize);
        n->npath = 0;
        if (from) {
                int k = from->npath < 13 ? from->npath : 13;
                memcpy(n->path, from->path + (from->npath > 13 ? 1 : 0), sizeof(uint16_t) * (size_t) k);
                n->npath = (uint16_t) k;
        }
        n->path[n->npath++] = (uint16_t) s;
        n->next = BYP[p];
        BYP[p] = n;
        n_states++;
}

static void
run_cfg_variant(long item, void *arg)
{
        (void) arg;
        C = &CFG[item / NVARIANTS];
        g_v = (int) (item % NVARIANTS);
        if (!variant_usable(g_v))
                return;
        m = mgr_new(g_v);
        KS = keyset_new(m, 12);
        static char ctx[96];
        snprintf(ctx, sizeof ctx, "%s/%s", VARIANTS[g_v].name, C->name);
        g_tcall_ctx = ctx;
        ctxsize = (C->iface == I_CHAPOLY || C->iface == I_CHAPOLY_SGLJOB) ? sizeof(struct chacha20_poly1305_context_data)
                                                                       : sizeof(struct gcm_context_data);
        ivlen = C->iface == I_GCM_VARIV ? 17 : 12;
        if (C->iface == I_GMAC)
                ivlen = C->klen == 24 ? 9 : 12;
        fill_rand(MSG, L, 77);
        AAD = region_endflush(GAAD, (size_t) aadlen);
        IVB = region_endflush(GIVR, (size_t) ivlen);
        fill_rand(AAD, (size_t) aadlen, 78);
        fill_rand(IVB, (size_t) ivlen, 79);
        /* one-shot reference */
        const uint8_t *raw = keyset_raw(KS);
        if (C->iface == I_GMAC) {
                ref_gmac(raw, C->klen, IVB, (size_t) ivlen, MSG, L, EXPTAG);
                memcpy(EXP, MSG, L);
        } else if (C->iface == I_CHAPOLY || C->iface == I_CHAPOLY_SGLJOB)
                ref_chacha20_poly1305(C->dir, raw, IVB, AAD, (size_t) aadlen, MSG, EXP, L, EXPTAG);
        else
                ref_gcm(C->dir, raw, C->klen, IVB, (size_t) ivlen, AAD, (size_t) aadlen, MSG, EXP, L, EXPTAG);
        BYP = calloc(L + 1, sizeof *BYP);
        SEEN = hset_new(1 << 16);
        n_states = n_trans = n_final = n_merged = 0;
        capped = 0;
        uint8_t tag[32];
        char pb[160];
        const int init_has_data = C->iface == I_CHAPOLY_SGLJOB;
        const int final_has_data = C->iface == I_CHAPOLY_SGLJOB;
        /* initial states */
        if (!init_has_data) {
                op_init(MSG, OUT, 0);
                add_state(0, NULL, 0);
        } else {
                for (int q = 0; q < NSEG; q++) {
                        uint32_t s = SEG[q];
                        if (s > L)
                                continue;
                        memset(OUT, 0xEE, s + 16);
                        op_init(MSG, OUT, s);
                        n_trans++;
                        if (memcmp(OUT, EXP, s)) {
                                path_str(NULL, s, pb, sizeof pb);
                                viol("segment-output-differs", "INIT segment output differs from the one-shot result", 0, s, pb);
                        }
                        add_state(s, NULL, s);
                }
        }
        for (uint32_t p = 0; p <= L; p++) {
                for (node_t *n = BYP[p]; n; n = n->next) {
                        if (deadline_reached()) {
                                capped = 1;
                                break;
                        }
                        for (int q = 0; q < NSEG; q++) {
                                uint32_t s = SEG[q];
                                if (p + s > L)
                                        continue;
                                memcpy(&CTX, n->ctx, ctxsize);
                                if (C->iface != I_GMAC)
                                        memset(OUT, 0xEE, s + 16);
                                uint8_t *gin = region_endflush(GIN, s);
                                memcpy(gin, MSG + p, s);
                                g_guarded = 1;
                                if (sigsetjmp(g_jb, 1)) {
                                        g_guarded = 0;
                                        path_str(n, s, pb, sizeof pb);
                                        const char *save = g_property;
                                        int c18 = c18_only, c07 = c07_only;
                                        c18_only = c07_only = 1;
                                        g_property = "C07";
                                        viol("fault", "update call faulted: access outside the source segment, which ends flush against an unmapped page", p, s, pb);
                                        g_property = save;
                                        c18_only = c18;
                                        c07_only = c07;
                                        continue;
                                }
                                op_update(gin, OUT, s);
                                g_guarded = 0;
                                n_trans++;
                                if (C->iface != I_GMAC && (memcmp(OUT, EXP + p, s) || OUT[s] != 0xEE)) {
                                        path_str(n, s, pb, sizeof pb);
                                        viol("segment-output-differs",
                                             "bytes emitted for this segment differ from the one-shot result at that position", p, s, pb);
                                }
                                if (s == 0 && !memcmp(&CTX, n->ctx, ctxsize))
                                        continue;
                                add_state(p + s, n, s);
                        }
                        /* finalisation */
                        if (final_has_data || p == L) {
                                uint32_t s = L - p;
                                memcpy(&CTX, n->ctx, ctxsize);
                                memset(OUT, 0xEE, s + 16);
                                memset(tag, 0, sizeof tag);
                                op_final(MSG + p, OUT, s, tag, 16);
                                n_final++;
                                n_trans++;
                                /* every other tag length the direct finalize calls accept (truncated tag = prefix of the full one) */
                                if (p == L && (C->iface == I_GCM || C->iface == I_GCM_VARIV || C->iface == I_GMAC || C->iface == I_CHAPOLY)) {
                                        static const uint64_t TL[] = { 1, 4, 5, 8, 11, 12, 13, 15 };
                                        for (unsigned q = 0; q < sizeof TL / sizeof TL[0]; q++) {
                                                if (C->iface == I_CHAPOLY && TL[q] != 8 && TL[q] != 12)
                                                        continue; /* ChaCha20-Poly1305 finalize: 16 and the IPsec truncations only */
                                                uint8_t t2[32];
                                                memcpy(&CTX, n->ctx, ctxsize);
                                                memset(t2, 0xEE, sizeof t2);
                                                op_final(MSG + p, OUT, s, t2, TL[q]);
                                                n_trans++;
                                                if (memcmp(t2, EXPTAG, TL[q]) || t2[TL[q]] != 0xEE) {
                                                        path_str(n, s, pb, sizeof pb);
                                                        viol("tag-differs", "truncated tag is not the prefix of the one-shot tag / bytes beyond the tag length written (segment = tag length)", p, (uint32_t) TL[q], pb);
                                                }
                                        }
                                }
                                if (final_has_data && memcmp(OUT, EXP + p, s)) {
                                        path_str(n, s, pb, sizeof pb);
                                        viol("segment-output-differs", "COMPLETE segment output differs from the one-shot result", p, s, pb);
                                }
                                if (memcmp(tag, EXPTAG, 16)) {
                                        path_str(n, s, pb, sizeof pb);
                                        viol("tag-differs", "final tag differs from the one-shot tag for this partition", p, s, pb);
                                }
                        }
                }
                /* states at p are no longer needed */
                for (node_t *n = BYP[p]; n;) {
                        node_t *nx = n->next;
                        free(n);
                        n = nx;
                }
                BYP[p] = NULL;
        }
        /* IMB_SGL_ALL jobs: every array of 1..3 segments for short messages + a few long-segment arrays */
        long long n_all = 0;
        if (C->iface == I_GCM_SGLJOB || C->iface == I_CHAPOLY_SGLJOB) {
                struct IMB_SGL_IOV segs[3];
                uint32_t Ls[] = { 0, 1, 17, 48, 64, 65, 2200 };
                for (unsigned li = 0; li < sizeof Ls / sizeof Ls[0]; li++) {
                        uint32_t LL = Ls[li] > L ? L : Ls[li];
                        uint8_t et[16];
                        uint8_t *e2 = malloc(LL + 16);
                        if (C->iface == I_CHAPOLY_SGLJOB)
                                ref_chacha20_poly1305(C->dir, raw, IVB, AAD, (size_t) aadlen, MSG, e2, LL, et);
                        else
                                ref_gcm(C->dir, raw, C->klen, IVB, (size_t) ivlen, AAD, (size_t) aadlen, MSG, e2, LL, et);
                        uint32_t stepa = LL > 100 ? 733 : 1;
                        for (uint32_t a = 0; a <= LL; a += stepa)
                                for (uint32_t b = a; b <= LL; b += stepa) {
                                        segs[0] = (struct IMB_SGL_IOV){ MSG, OUT, a };
                                        segs[1] = (struct IMB_SGL_IOV){ MSG + a, OUT + a, b - a };
                                        segs[2] = (struct IMB_SGL_IOV){ MSG + b, OUT + b, LL - b };
                                        memset(OUT, 0xEE, LL + 16);
                                        memset(&CTX, 0, sizeof CTX);
                                        IMB_JOB *j = X_GET_NEXT(m);
                                        IMB_JOB *r0 = NULL;
                                        (void) r0;
                                        memset(j, 0, sizeof *j);
                                        j->cipher_direction = C->dir ? IMB_DIR_ENCRYPT : IMB_DIR_DECRYPT;
                                        j->chain_order = C->dir ? IMB_ORDER_CIPHER_HASH : IMB_ORDER_HASH_CIPHER;
                                        j->sgl_io_segs = segs;
                                        j->num_sgl_io_segs = 3;
                                        j->iv = IVB;
                                        j->iv_len_in_bytes = (uint64_t) ivlen;
                                        j->auth_tag_output = tag;
                                        j->auth_tag_output_len_in_bytes = 16;
                                        j->sgl_state = IMB_SGL_ALL;
                                        if (C->iface == I_GCM_SGLJOB) {
                                                j->cipher_mode = IMB_CIPHER_GCM_SGL;
                                                j->hash_alg = IMB_AUTH_GCM_SGL;
                                                j->key_len_in_bytes = (uint64_t) C->klen;
                                                j->enc_keys = gkey();
                                                j->dec_keys = gkey();
                                                j->u.GCM.aad = AAD;
                                                j->u.GCM.aad_len_in_bytes = (uint64_t) aadlen;
                                                j->u.GCM.ctx = &CTX.g;
                                        } else {
                                                j->cipher_mode = IMB_CIPHER_CHACHA20_POLY1305_SGL;
                                                j->hash_alg = IMB_AUTH_CHACHA20_POLY1305_SGL;
                                                j->chain_order = IMB_ORDER_HASH_CIPHER;
                                                j->key_len_in_bytes = 32;
                                                j->enc_keys = raw;
                                                j->dec_keys = raw;
                                                j->u.CHACHA20_POLY1305.aad = AAD;
                                                j->u.CHACHA20_POLY1305.aad_len_in_bytes = (uint64_t) aadlen;
                                                j->u.CHACHA20_POLY1305.ctx = &CTX.c;
                                        }
                                        IMB_JOB *r = X_SUBMIT(m);
                                        if (!r)
                                                r = X_FLUSH(m);
                                        n_all++;
                                        snprintf(pb, sizeof pb, "%u+%u+%u", a, b - a, LL - b);
                                        if (!r || r->status != IMB_STATUS_COMPLETED)
                                                viol("sgl-all-failed", "valid IMB_SGL_ALL job not completed", 0, LL, pb);
                                        else if (memcmp(OUT, e2, LL) || memcmp(tag, et, 16))
                                                viol("sgl-all-differs", "IMB_SGL_ALL result differs from the one-shot result", 0, LL, pb);
                                }
                        free(e2);
                }
        }
        stat_add("states", n_states);
        stat_add("transitions", n_trans);
        stat_add("merged_duplicates", n_merged);
        stat_add("final_states_checked", n_final);
        stat_add("sgl_all_jobs", n_all);
        stat_add("configurations", 1);
        if (capped)
                stat_add("caps_hit", 1);
        if (item % 29 == 3) {
                rec_begin("sample");
                rec_s("interface", C->name);
                rec_s("variant", VARIANTS[g_v].name);
                rec_i("message_length", L);
                rec_i("states", n_states);
                rec_i("transitions", n_trans);
                rec_s("example_partition", "7+0+2105+... (every ordered partition over the segment alphabet is implied by the state graph)");
                rec_end();
        }
        free(BYP);
        keyset_free(KS);
        free_mb_mgr(m);
}
static void
crashed(long item, int sig, void *arg)
{
        (void) arg;
        rec_begin("viol");
        rec_s("site", sig == 14 ? "hang" : "crash");
        rec_i("signal", sig);
        rec_s("alg", CFG[item / NVARIANTS].name);
        rec_s("variant", VARIANTS[item % NVARIANTS].name);
        rec_end();
}
static void
addcfg(int iface, int klen, int dir, const char *n)
{
        cfg_t *c = &CFG[NCFG++];
        c->iface = iface;
        c->klen = klen;
        c->dir = dir;
        snprintf(c->name, sizeof c->name, "%s%s%s", n, iface == I_GMAC ? "" : dir ? "/enc" : "/dec", "");
}

int
main(int argc, char **argv)
{
        c18_only = argc > 1 && !strcmp(argv[1], "C18"); /* same exploration, only calling-convention records kept */
        c07_only = argc > 1 && !strcmp(argv[1], "C07"); /* ... only faults on the guard-placed source segments kept */
        if (c07_only)
                c18_only = 1;
        rec_init(c07_only ? "C07" : c18_only ? "C18" : "C10", getenv("VERIF_TIER") ? getenv("VERIF_TIER") : "quick");
        GIN = region_new(2);
        GAAD = region_new(1);
        GIVR = region_new(1);
        struct sigaction sa;
        memset(&sa, 0, sizeof sa);
        sa.sa_sigaction = on_fault;
        sa.sa_flags = SA_SIGINFO | SA_NODEFER;
        sigaction(SIGSEGV, &sa, NULL);
        sigaction(SIGBUS, &sa, NULL);
        thorough = tier_thorough();
        L = thorough ? 4300 : 2400;
        max_states = thorough ? 4000000 : 600000;
        /* segment alphabet: dense small lengths + boundaries of every SIMD loop stride (+-1) */
        int dense = thorough ? 80 : 33;
        for (int s = 0; s <= dense; s++)
                SEG[NSEG++] = (uint32_t) s;
        static const uint32_t marks_q[] = { 48, 64, 128, 256, 512, 768, 1024, 2048 };
        static const uint32_t marks_t[] = { 48, 64, 96, 128, 192, 256, 384, 512, 768, 1024, 1536, 2048, 3072, 4096 };
        const uint32_t *mk = thorough ? marks_t : marks_q;
        int nmk = thorough ? 14 : 8;
        for (int i = 0; i < nmk; i++)
                for (int d = -1; d <= 1; d++)
                        if (mk[i] + (uint32_t) d > (uint32_t) dense && mk[i] + (uint32_t) d <= L)
                                SEG[NSEG++] = mk[i] + (uint32_t) d;
        SEG[NSEG++] = 2105;
        MSG = malloc(L + 64);
        EXP = malloc(L + 64);
        OUT = malloc(L + 64);
        addcfg(I_GCM, 16, 1, "aes-gcm-128-direct");
        addcfg(I_GCM, 24, 0, "aes-gcm-192-direct");
        addcfg(I_GCM, 32, 1, "aes-gcm-256-direct");
        addcfg(I_GCM_VARIV, 16, 0, "aes-gcm-128-direct-var-iv");
        addcfg(I_GCM_VARIV, 24, 1, "aes-gcm-192-direct-var-iv");
        addcfg(I_GCM_VARIV, 32, 0, "aes-gcm-256-direct-var-iv");
        addcfg(I_GMAC, 16, 1, "aes-gmac-128-direct");
        addcfg(I_GMAC, 24, 1, "aes-gmac-192-direct");
        addcfg(I_GMAC, 32, 1, "aes-gmac-256-direct");
        addcfg(I_CHAPOLY, 32, 1, "chacha20-poly1305-direct");
        addcfg(I_CHAPOLY, 32, 0, "chacha20-poly1305-direct");
        addcfg(I_GCM_SGLJOB, 16, 1, "aes-gcm-sgl-128-job");
        addcfg(I_GCM_SGLJOB, 16, 0, "aes-gcm-sgl-128-job");
        addcfg(I_GCM_SGLJOB, 24, 0, "aes-gcm-sgl-192-job");
        addcfg(I_GCM_SGLJOB, 32, 1, "aes-gcm-sgl-256-job");
        addcfg(I_CHAPOLY_SGLJOB, 32, 1, "chacha20-poly1305-sgl-job");
        addcfg(I_CHAPOLY_SGLJOB, 32, 0, "chacha20-poly1305-sgl-job");
        par_run((long) NCFG * NVARIANTS, n_workers(), run_cfg_variant, crashed, NULL, 1800);
        rec_begin("meta");
        rec_s("rule", "state = (bytes consumed, exact context bytes); transition = one real update / SGL job with a segment "
                      "length from the alphabet; states with identical bytes are merged (no abstraction), so all ordered "
                      "partitions of the message over the alphabet are covered; oracle = emitted bytes equal the one-shot "
                      "reference at every transition, tag equal at every final state");
        rec_i("message_length", L);
        rec_i("segment_alphabet_size", NSEG);
        rec_end();
        stats_emit();
        return 0;
}
