# Property table for bin/vcheck: which library configs and drivers decide each property.
COMMON = ['mc/common.c', 'mc/tramp.S']
BFS = COMMON + ['mc/bfs.c']

ALG = COMMON + ['mc/algs.c', 'ref/ref_modes.c', 'ref/ref_aead.c', 'ref/ref_3gpp.c']

def _shape(pid, what):
    return {
        'level': 'exploration',
        'technique': 'bounded-exhaustive enumeration of input shapes on the real library (alone and co-scheduled) against an independent reference model',
        'level_text': f'Every {what} row x direction x every valid length up to the dense bound (+ stripes at the carry / 16-bit / per-mode limits) x IV forms (incl. counter carry and wrap classes) x tag lengths x AAD lengths x offsets x in/out-of-place x all 7 reachable variants is executed on the real library, alone and with 23 other jobs in flight, and compared with the reference model; a third pass runs lane patterns - on a pristine manager image 4 / 8 / 16 jobs (job i in lane i) of one base length (16..256 bytes) except one position p (every p) that is one unit, one block or several blocks shorter or longer. The space of shapes is enumerated completely; data bytes come from a seed.',
        'level_note': 'Trusted: OpenSSL block primitives + the hand-written modes/3GPP references (validated at setup against published vectors). Data values outside the seed-derived alphabet and lengths between the dense sweep and the stripes are outside the bound.',
        'drivers': [{'name': 'shape', 'src': ['props/shape.c'] + ALG, 'cfgs': ['std'], 'args': pid}],
        'deadline': {'quick': 900, 'thorough': 3000},
        'assumptions': ['reference model correct (setup-time self-tests against published vectors and OpenSSL EVP modes)'],
    }

PROPS = {
    'C05': {
        'level': 'model_checking',
        'technique': 'explicit-state BFS to fixpoint over the real scheduler (reduced ring) + seeded bounded BFS on the 256-slot ring, FIFO reference oracle',
        'level_text': 'All reachable states of the real job-manager code are enumerated on a reduced ring (4 slots quick, 8 slots thorough; job API and burst API; checked and no-check entry points; immediate, parked out-of-order, chained and rejected jobs) and every transition is checked against a FIFO reference (order, exactly-once, final status, complete outputs, queue_size, flush/get_completed/get_next contracts). The true 256-slot ring is covered by bounded BFS from every ring rotation x fill level seed so wrap-around, the full-queue path and bursts straddling the ring end are reached. The implementation itself is the transition relation, so there is no model-conformance gap.',
        'level_note': 'Trusted: the reduced-ring build differs only in IMB_MAX_BURST_SIZE; job kinds limited to {NULL, HMAC-SHA-512 short/long, AES-128-CBC, CBC+HMAC chained, rejected}; key merges states that differ only in dead bytes (non-queued descriptors) - guarded by re-expansion self-check of merged duplicates at fixpoint.',
        'drivers': [
            # full reachable state set of the real scheduler on the reduced ring (4 slots, burst limit 2)
            {'name': 'c05', 'src': ['props/c05.c'] + BFS, 'cfgs': ['ring4'], 'args': 'job all ISLX'},
            {'name': 'c05', 'src': ['props/c05.c'] + BFS, 'cfgs': ['ring4'], 'args': 'burst all ISLX'},
            {'name': 'c05', 'src': ['props/c05.c'] + BFS, 'cfgs': ['ring4'], 'args': 'job 0 ISLC'},
            # synchronous hash bursts (sharing the HMAC-SHA-512 manager with parked jobs) join the alphabet
            {'name': 'c05', 'src': ['props/c05.c'] + BFS, 'cfgs': ['ring4'], 'args': 'job+sync all ISLX'},
            {'name': 'c05', 'src': ['props/c05.c'] + BFS, 'cfgs': ['ring4'], 'args': 'burst+sync all ISLX', 'tiers': ['thorough']},
            {'name': 'c05', 'src': ['props/c05.c'] + BFS, 'cfgs': ['ring4'], 'args': 'job 2,4,6 ISLC', 'tiers': ['thorough']},
            {'name': 'c05', 'src': ['props/c05.c'] + BFS, 'cfgs': ['ring4'], 'args': 'job 0,4,6 ISLPX', 'tiers': ['thorough']},
            {'name': 'c05', 'src': ['props/c05.c'] + BFS, 'cfgs': ['ring4'], 'args': 'burst 0,4,6 ISLPX', 'tiers': ['thorough']},
            {'name': 'c05', 'src': ['props/c05.c'] + BFS, 'cfgs': ['ring4'], 'args': 'burst 0,4,6 ISLC', 'tiers': ['thorough']},
            # true 256-slot ring: bounded BFS from rotation x fill seeds
            {'name': 'c05', 'src': ['props/c05.c'] + BFS, 'cfgs': ['std'], 'args': 'job 0,4,6 ISLPCX', 'tiers': ['quick']},
            {'name': 'c05', 'src': ['props/c05.c'] + BFS, 'cfgs': ['std'], 'args': 'burst 0,4,6 ISLPCX', 'tiers': ['quick']},
            {'name': 'c05', 'src': ['props/c05.c'] + BFS, 'cfgs': ['std'], 'args': 'job all ISLPCX', 'tiers': ['thorough']},
            {'name': 'c05', 'src': ['props/c05.c'] + BFS, 'cfgs': ['std'], 'args': 'burst all ISLPCX', 'tiers': ['thorough']},
            # 8-slot ring (burst limit 4), deadline-bounded
            {'name': 'c05', 'src': ['props/c05.c'] + BFS, 'cfgs': ['ring8'], 'args': 'job 0 ISLX', 'tiers': ['thorough']},
            {'name': 'c05', 'src': ['props/c05.c'] + BFS, 'cfgs': ['ring8'], 'args': 'burst 0 ISLX', 'tiers': ['thorough']},
        ],
        'deadline': {'thorough': 2400},
        'assumptions': ['the reduced-ring build (IMB_VERIF_SMALL_RING) differs from the shipped one only in the ring size constant',
                        'OOO managers not reachable by the job alphabet stay pristine (not snapshotted)'],
    },
}

PROPS['C01'] = _shape('C01', 'cipher')
PROPS['C01']['drivers'].append({'name': 'c01b', 'src': ['props/c01b.c'] + ALG, 'cfgs': ['std'], 'args': ''})
PROPS['C01']['level_text'] += ' Second driver (props/c01b.c): SNOW3G-UEA2 and KASUMI-F8 bit-length jobs with every non byte-aligned bit offset 1..39, lengths 1..140 bits dense then stride boundaries to 2100, in and out of place, 1 / 5 / 17 unequal jobs in flight: destination bits [off, off+len) = source xor reference keystream and every other destination bit unchanged.'
PROPS['C02'] = _shape('C02', 'hash/MAC/CRC')
PROPS['C03'] = _shape('C03', 'AEAD/combined-mode')

PROPS['C04'] = {
    'level': 'model_checking',
    'technique': 'deviation-bounded (CHESS-style) exhaustive schedule enumeration on the real lane managers, differential oracle "same job alone"',
    'level_text': 'For every suite with an out-of-order lane manager (both directions) and 18 chained cipher+hash suites, on all 7 variants, every schedule "submit n jobs then flush all" for every n = 1..34 with at most k deviations (another length for job i, a flush or get_completed before job i) is executed from the pristine manager image; k = 1 in quick, k = 2 in thorough (n <= 18 and n >= 31). Every job must come back once, in order, with exactly the outputs it gives when processed alone. This reaches every lane occupancy at flush time, lanes freed and refilled mid-flight, min-length scheduling with unequal lanes and two managers active for a chained job. Mixed-suite units put jobs of two different suites that share a lane manager into one schedule (job and asynchronous burst API). Second driver (props/c04s.c): a synchronous cipher / hash / AEAD burst of 1, 3, 9 or 17 jobs (checked and no-check) issued while 1..9 asynchronous jobs - the same row, a chained cipher->hash job or a chained hash->cipher job - are parked in the same out-of-order manager; the burst must return exactly its own jobs and every job, synchronous or asynchronous, must equal the same job processed alone.',
    'level_note': 'Differential oracle: the solo run is trusted only as far as C01-C03 establish it. Histories mixing many different algorithms are covered by the C05/C15/C16 histories. Data bytes from VERIF_SEED.',
    'drivers': [{'name': 'c04', 'src': ['props/c04.c'] + ALG, 'cfgs': ['std'], 'args': ''},
                # synchronous bursts issued while asynchronous jobs are parked in the same out-of-order manager
                {'name': 'c04s', 'src': ['props/c04s.c'] + ALG, 'cfgs': ['std'], 'args': ''}],
    'deadline': {'quick': 900, 'thorough': 3000},
    'assumptions': ['executions start from the pristine post-init image restored by memcpy (validated in DESIGN.md section 2)'],
}

PROPS['C20'] = {
    'level': 'fault_enumeration',
    'technique': 'exhaustive enumeration of self-test corruption sets (empty, singles, pairs, triples, quadruples) through the library callback seam on every init configuration',
    'level_text': 'Every single self-test entry, every pair, every triple (and every quadruple in the thorough tier) is corrupted through the documented CORRUPT callback on 12 init configurations (7 explicit variants, SSE with both flags off, init_mb_mgr_auto with the 4 flag combinations); the FAIL/PASS callback sets, the pass feature bit, the error code, the announced algorithm list (README families) and emptiness/usability of the manager are checked on every run.',
    'level_note': 'Trusted: the CORRUPT callback seam is the fault model (input corruption of one KAT); decrypt-direction KATs have no corruption seam (documented in README).',
    'drivers': [{'name': 'c20', 'src': ['props/c20.c'] + COMMON, 'cfgs': ['std'], 'args': ''}],
    'assumptions': ['README list of self-tested algorithm families is the documented set'],
}

PROPS['C15'] = {
    'level': 'model_checking',
    'technique': 're-init injected after every prefix of a dirtying history x all 49 ordered variant pairs; lock-step differential against a fresh manager',
    'level_text': 'For all 49 ordered (old, new) variant pairs a re-initialisation is injected after every call (thorough; quick: every 4th call plus the 4/5/8/9/15-jobs-parked points) of a history that parks up to 15 jobs of unequal lengths in every out-of-order lane manager; after each re-init the manager must report empty and an 8-batch probe (1..17 jobs per lane manager, unequal lengths) must hand back exactly what a freshly allocated manager hands back, job for job.',
    'level_note': 'Behavioural oracle only (no image comparison, so dead stale bytes do not alarm). Flags are changed through imb_set_pointers_mb_mgr(ptr, flags, 0) when old and new variant need different flags.',
    'drivers': [{'name': 'c15', 'src': ['props/c15.c'] + ALG, 'cfgs': ['std'], 'args': ''},
                # second history: round-robin over the units, every lane manager partially occupied at the same time
                {'name': 'c15', 'src': ['props/c15.c'] + ALG, 'cfgs': ['std'], 'args': 'h1'}],
    'deadline': {'quick': 900, 'thorough': 3000},
    'assumptions': ['probe of 8 batch sizes x 4 lengths per lane manager is what "all subsequent behaviour" is bounded to'],
}

PROPS['C07'] = {
    'level': 'exploration',
    'technique': 'bounded-exhaustive enumeration of buffer placements against unmapped guard pages on the real library (fault address = oracle)',
    'level_text': 'Every algorithm row x direction x every valid length of the sweep x {all caller objects end-flush, all start-flush against PROT_NONE pages} x {alone, co-scheduled between a longer and a shorter job} x 7 variants, plus IV/tag/AAD extent sweeps; any access outside an object faults and is attributed to the object by address; canaries catch stray writes on shared pages; out-of-place sources must be unchanged.',
    'level_note': 'Key objects and the manager itself are not guard-placed; direct-API functions are guard-placed (end-flush and start-flush, every input, output, IV, AAD and tag buffer; bytes around the destination checked) by the second driver props/c09d.c. In-place = out-of-place equality follows from C01-C03 comparing both against one reference.',
    'drivers': [{'name': 'c07', 'src': ['props/c07.c'] + ALG, 'cfgs': ['std'], 'args': ''},
                {'name': 'c09d', 'src': ['props/c09d.c'] + ALG, 'cfgs': ['std'], 'args': 'C07'},
                # streaming interfaces: every source segment of every update call of the C10 exploration ends flush against an unmapped page
                {'name': 'c10', 'src': ['props/c10.c'] + ALG, 'cfgs': ['std'], 'args': 'C07'}],
    'deadline': {'quick': 900, 'thorough': 3000},
    'assumptions': ['object extents: message range, iv_len, aad_len, tag_len exactly as given in the job'],
}

PROPS['C10'] = {
    'level': 'model_checking',
    'technique': 'explicit-state BFS over (bytes consumed, exact context bytes) with exact state merging; transitions are real update calls / SGL jobs',
    'level_text': 'For the direct GCM (fixed and variable IV), GMAC and ChaCha20-Poly1305 init/update/finalize calls and the GCM-SGL / ChaCha20-Poly1305-SGL jobs (INIT/UPDATE/COMPLETE, plus IMB_SGL_ALL with every 1..3-segment array of short messages), both directions, 3 key sizes, 7 variants: all states (consumed length, context bytes) reachable with segment lengths from the alphabet (0..33 dense + every SIMD stride boundary +-1 up to 2048 and 2105; thorough: 0..80 + boundaries up to 4096) are enumerated for a 2400-byte (thorough 4300-byte) message; identical states are merged, which is exact (an update is a function of context, key and input), so every ordered partition over the alphabet is covered. Every emitted segment and every final tag is compared with the one-shot reference.',
    'level_note': 'Message bytes and key from VERIF_SEED; segment lengths outside the alphabet are not exercised; one message length per tier.',
    'drivers': [{'name': 'c10', 'src': ['props/c10.c'] + ALG, 'cfgs': ['std'], 'args': ''}],
    'deadline': {'quick': 900, 'thorough': 3000},
    'assumptions': ['an update call depends only on (context, key, input segment) - true by construction of the API; merging is on exact bytes'],
}

PROPS['C13'] = {
    'level': 'exploration',
    'technique': 'schedule enumeration on the real library with a residue invariant (recognisable secrets and a three-run key/message differential; private poisoned stack, post-ret register dump, manager scan) at every quiescent point',
    'level_text': 'For every algorithm row (both directions), 12 chained suites and every key-preparation helper on all 7 variants: schedules of n = 1..17 jobs of unequal lengths followed by flush (covering submit-completes and flush-completes paths and every partial lane occupancy); after every call that leaves the manager empty, the register dump taken immediately after ret, the 256 KiB private stack and the whole manager block are searched for any 8-byte window of the recognisable key objects / plaintext. The same invariant is evaluated after every call of the direct API (GCM / GMAC / GHASH one-shot and init-update-finalize, ChaCha20-Poly1305 direct, ZUC / SNOW3G / KASUMI 1..N-buffer and bit variants, single-block CFB, the QUIC helpers; encrypt and decrypt side, 11 lengths, 16 unequal buffers).',
    'level_note': 'Two oracles. (1) Pattern oracle: exact copies of caller-visible secrets (raw keys, every word of every expanded/derived key object the caller passes, plaintext). (2) Differential oracle for internally derived state that is not a byte-copy (LFSR/FSM rows, keystream, E_K(counter), hash-key powers): the same schedules (four length cycles; quick two) and the same direct-API calls run three times from one pristine manager image with every object at the same address - keys A / messages M, keys B / M, keys A / complement of M; a 32-bit word of manager block, register dump or stack that differs with the key and not with the message is key-derived; 8 or more such bytes at quiescence (for direct calls: not a copy of what the call wrote to its output buffers) is a violation; the key-preparation helpers get the two-run form (key A / key B, no message): words of registers / stack that differ with the key and are not copies of what the helper wrote to its output objects. Ciphertext, tags, digests and anything that also depends on the message are deliberately not secrets. tools/c13diag.sh names the instruction that wrote a reported word (hardware watchpoint).',
    'drivers': [{'name': 'c13', 'src': ['props/c13.c'] + ALG, 'cfgs': ['std'], 'args': ''}],
    'deadline': {'quick': 900, 'thorough': 3000},
    'assumptions': ['library built with SAFE_DATA (asserted through IMB_FEATURE_SAFE_DATA)'],
}

PROPS['C16'] = {
    'level': 'fault_enumeration',
    'technique': 'crash injected after every API call of a lane-filling history; recovery by re-attach in the same process, a forked child and a freshly exec\'ed PIE process over a fixed-address memfd arena; reference FIFO + solo-output oracle',
    'level_text': 'Manager, keys and all buffers live in a memfd arena at a fixed address. A history parks up to 15 jobs of unequal lengths in every out-of-order lane manager (with get_completed/flush calls interleaved); after every call, on all 7 variants, the arena is recovered in the same process and (quick: every 3rd crash point plus lane-boundary points; thorough: every crash point) in a forked child on a private view and in a freshly exec\'ed copy of the PIE binary (library at a different load address): imb_set_pointers_mb_mgr(.., 0) + flush must hand back exactly the reference FIFO of in-flight jobs, in order, COMPLETED with their solo outputs, and three follow-up jobs must work. A second recovery form at every crash point (same process; every second forked recovery) models the application carrying on: after the re-attach three more jobs are submitted to the lane manager the history used last before anything is flushed, then everything is flushed - the jobs in flight at the crash point followed by the continuation jobs must come back in that order with their solo outputs (no parked job displaced or disturbed by a lane the re-attach wrongly considers free).',
    'level_note': 'Two long histories per variant (unit-major: one lane manager filled after the other; round-robin: all lane managers occupied at once, about 190 jobs in flight) - not all histories; crash points are between API calls only, as the property states. The helper reports whether its code address differed from the primary (ASLR).',
    'drivers': [{'name': 'c16', 'src': ['props/c16.c'] + ALG, 'cfgs': ['std'], 'args': '', 'cflags': '-fPIE -pie'},
                # second history: the same jobs round-robin over the units - all out-of-order managers occupied at once (~190 jobs in flight)
                {'name': 'c16', 'src': ['props/c16.c'] + ALG, 'cfgs': ['std'], 'args': 'h1', 'cflags': '-fPIE -pie'}],
    'deadline': {'quick': 900, 'thorough': 3000},
    'assumptions': ['all job buffers and key objects are inside the shared arena (as the property requires: mapped at the same addresses)'],
}

PROPS['C06'] = {
    'level': 'exploration',
    'technique': 'exhaustive enumeration of the full finite suite product (cipher mode x key size x direction x hash x chain order) on the real library, job and burst API, against documented acceptance rules and the reference of the named algorithms',
    'level_text': 'The complete product cipher_mode (0..NUM) x key length {8,16,24,32} x direction x hash_alg (0..NUM) x chain order (about 24 000 cells) is executed on all 7 variants through the job API and the asynchronous burst API: acceptance must equal the documented key-size / AEAD-pairing / chain-order rules, accepted cells must produce the named cipher (with the named key size) and the named hash over the range as it stands when the hash stage runs, CUSTOM stages run exactly once in the requested order, equal session fields give equal suite ids, and the burst API agrees with the job API.',
    'level_note': 'Second driver (props/c04.c, mixed: C06): jobs of two different suites that share an out-of-order manager in one schedule (8 hand-picked pairs + for every hash row with a lane manager every ordered pair out of 4 (thorough 12) cipher rows, first suite cipher->hash, second hash->cipher), job and burst API, deviation-bounded schedules: every job must equal the same job processed alone, i.e. each stage is dispatched with the handlers of its own suite. One message length (96 bytes) and one parameter set per cell in the product driver; acceptance rules are restated from intel-ipsec-mb.h / README and were calibrated against the pinned tree (differences are listed as findings, not absorbed).',
    'drivers': [{'name': 'c06', 'src': ['props/c06.c'] + ALG, 'cfgs': ['std'], 'args': ''},
                {'name': 'c04', 'src': ['props/c04.c'] + ALG, 'cfgs': ['std'], 'args': 'mixed: C06'}],
    'assumptions': ['the finite product is complete: enums are iterated from 0 to *_NUM inclusive'],
}

PROPS['C12'] = {
    'level': 'fault_enumeration',
    'technique': 'exhaustive single and pairwise constraint-violation injection into valid baseline jobs on the real library (job API and burst positions), buffer/descriptor snapshot oracle',
    'level_text': 'For every algorithm row, direction and variant every single-field violation of the constraint catalogue (19 mutation kinds with their value variants: NULL pointers, zero / over-limit / misaligned lengths, IV / tag / key lengths off the permitted set, invalid direction, chain order, cipher mode, hash algorithm, NULL hash-key pointers, AAD) and every pair of violations on different fields is injected into a valid baseline job, through the job API and at positions 0/1/2 of a 3-job asynchronous burst. The job must come back INVALID_ARGS with an error code naming the violated constraint, every caller buffer and the descriptor byte-identical, and the valid baseline submitted afterwards must give its known result; boundary values that are valid (min, max, every permitted IV length) must be accepted and correct.',
    'level_note': 'Error-code expectations follow the names of the IMB_ERR_* codes; direct-API functions (75 entry points, every pointer argument NULL in turn, and a NULL element inside every pointer-array argument) are exercised by the second driver props/c09d.c: no fault, an error code must be set. AEAD pairing violations are covered by the C06 product. Scatter-gather jobs (AES-GCM-SGL, CHACHA20-POLY1305-SGL; INIT / UPDATE / COMPLETE on a prepared context and the single-job IMB_SGL_ALL form over a segment array) have their own driver props/c12s.c: 18 violation kinds per (suite, direction, sgl_state, variant) through the job API and the asynchronous burst API, the SGL context and the segment array included in the untouched-oracle.',
    'drivers': [{'name': 'c12', 'src': ['props/c12.c'] + ALG, 'cfgs': ['std'], 'args': ''},
                {'name': 'c09d', 'src': ['props/c09d.c'] + ALG, 'cfgs': ['std'], 'args': 'C12'},
                {'name': 'c12s', 'src': ['props/c12s.c'] + ALG, 'cfgs': ['std'], 'args': ''}],
    'deadline': {'quick': 900, 'thorough': 3000},
    'assumptions': ['constraint catalogue restated from intel-ipsec-mb.h comments and the IMB_ERR_* names'],
}

PROPS['C09'] = {
    'level': 'exploration',
    'technique': 'bounded-exhaustive enumeration of (work item x entry point x burst size x position x variant) on the real library against the reference result of the work item',
    'level_text': 'Part 1 (props/c09.c): per algorithm row, direction and variant, 9 work items of unequal lengths go through the job API (checked / no-check), the asynchronous burst API (checked / no-check, burst sizes 1,2,3,7,8,9,15,16,17,33,127,128) and the synchronous cipher / hash / AEAD burst calls where documented (same sizes, checked / no-check); every job result is compared with the reference. Part 2 (props/c09d.c): the direct functions (GCM/GMAC/GHASH, SHA one-shot and one-block, MD5 one-block, ZUC 1/4/N, SNOW3G 1/2/4/8/N(+multikey)/F9, KASUMI 1/2/3/4/N/F9, 12 CRCs, HEC, ChaCha20-Poly1305 direct, QUIC helpers, single-block CFB) with n below/at/above the lane count, unequal per-buffer lengths in non-sorted order and lane-pattern profiles (all buffers of one base length except buffer p, every p), distinct IVs/keys, buffers end-flush against guard pages, and NULL / over-limit arguments.',
    'level_note': 'Entry points the header does not document for an algorithm are not exercised; AEAD suites only in their documented chain order.',
    'drivers': [{'name': 'c09', 'src': ['props/c09.c'] + ALG, 'cfgs': ['std'], 'args': ''},
                {'name': 'c09d', 'src': ['props/c09d.c'] + ALG, 'cfgs': ['std'], 'args': 'C09'}],
    'deadline': {'quick': 900, 'thorough': 3000},
    'assumptions': ['reference model as in C01-C03'],
}

PROPS['C11'] = {
    'level': 'exploration',
    'technique': 'bounded-exhaustive enumeration over a structured key alphabet and every HMAC key length on the real helpers, against reference key material / by consumption',
    'level_text': 'Every key-preparation helper on all 7 variants over the key alphabet (all-zero, all-one, all 256 single-bit keys, 32 byte patterns, the 16 weak/semi-weak DES keys, 32 seed-derived keys; thorough 128): AES encryption schedules vs FIPS-197 expansion, CMAC sub-keys, XCBC keys, HMAC ipad/opad for every key length 0..2*block+17 of 7 hashes (MD5 over one block must be refused with the key-length error), the six 3GPP IV generators over boundary values; library-private layouts (decrypt schedules, DES, GCM/GHASH tables, SM4, KASUMI, SNOW3G) are decided by consumption in 36 job types vs the reference; common formats must be byte-identical across variants.',
    'level_note': 'Key values outside the alphabet are not covered. GCM tables differ by architecture by design and are judged by consumption only.',
    'drivers': [{'name': 'c11', 'src': ['props/c11.c'] + ALG, 'cfgs': ['std'], 'args': ''}],
    'assumptions': ['reference key derivations (own FIPS-197 expansion with algebraically derived S-box, ref_modes sub-key functions)'],
}

PROPS['C14'] = {
    'level': 'model_checking',
    'technique': 'invariant (descriptor unchanged, status final, error code exact) evaluated on every transition of the C05 explicit-state exploration of the real scheduler + bounded-exhaustive per-suite sweep + integer-range sweep of imb_get_strerror',
    'level_text': 'The status / error-code / descriptor invariants are evaluated after every call of the complete reachable state space of the real scheduler on the 4-slot ring (job and burst API, immediate / parked / chained / rejected jobs, incl. the full-queue paths; every checked call is entered with a NON-zero error code left by a real failing call, imb_set_session(mgr, NULL), so a success path that does not reset it is seen) - the same exploration as C05, reported under C14 - and on every job of a per-suite sweep (every algorithm row, direction and variant, 1..5 jobs in flight with an invalid job at every position). imb_get_strerror is called on [-70000, 70000] plus limits (quick) or on all 2^32 int values (thorough) and must return a non-NULL terminated string; every IMB_ERR_* code must have its own description.',
    'level_note': 'Message-length fields and u.SNOW_V_AEAD.reserved are excluded (documented rewriting / scratch). The C04 driver additionally compares descriptors on every job of its schedules and reports under C14.',
    'drivers': [
        {'name': 'c14', 'src': ['props/c14.c'] + ALG, 'cfgs': ['std'], 'args': ''},
        {'name': 'c05', 'src': ['props/c05.c'] + BFS, 'cfgs': ['ring4'], 'args': 'job all ISLX C14'},
        {'name': 'c05', 'src': ['props/c05.c'] + BFS, 'cfgs': ['ring4'], 'args': 'burst all ISLX C14'},
        {'name': 'c05', 'src': ['props/c05.c'] + BFS, 'cfgs': ['ring4'], 'args': 'job 0 ISLC C14'},
        # descriptor-unaltered check on every job of the entry-point sweep (job / no-check / async burst / synchronous bursts)
        {'name': 'c09', 'src': ['props/c09.c'] + ALG, 'cfgs': ['std'], 'args': ''},
    ],
    'deadline': {'quick': 900, 'thorough': 3000},
    'assumptions': ['reduced-ring build differs from the shipped one only in the ring size'],
}

PROPS['C18'] = {
    'level': 'exploration',
    'technique': 'register/stack/flag invariant evaluated by a call trampoline after every library call of the bounded-exhaustive direct-API, multi-call-state and schedule enumerations',
    'level_text': 'Every library call made by the direct-API driver (props/c09d.c: all direct functions, n below/at/above lane counts, 5 length profiles), by the multi-call exploration (props/c10.c: all reachable (consumed, context) states of GCM / GMAC / ChaCha20-Poly1305 init/update/finalize and SGL jobs), by the schedule enumeration (props/c04.c: job and burst API over every algorithm row and mixed suites) and by the key-helper driver goes through an assembly trampoline that plants sentinels in rbx, rbp, r12-r15, records rsp, the direction flag and MXCSR immediately after ret and compares; all 7 variants. Any other check of this framework reports the same invariant for its own calls.',
    'level_note': 'x87 control word and the red zone are not checked; vector registers are caller-saved in the SysV ABI and therefore not part of the invariant (the Windows ABI is not reachable on this host).',
    'only_own': True,
    'drivers': [{'name': 'c09d', 'src': ['props/c09d.c'] + ALG, 'cfgs': ['std'], 'args': 'C18'},
                {'name': 'c10', 'src': ['props/c10.c'] + ALG, 'cfgs': ['std'], 'args': 'C18'},
                {'name': 'c04', 'src': ['props/c04.c'] + ALG, 'cfgs': ['std'], 'args': ''}],
    'deadline': {'quick': 900, 'thorough': 3000},
    'assumptions': ['System V AMD64 calling convention'],
}

PROPS['C19'] = {
    'level': 'exploration',
    'technique': 'bounded-exhaustive enumeration over a key alphabet on the real library under an execution monitor (valgrind lackey instruction + memory-address trace), trace-equivalence (2-safety) oracle per cell',
    'level_text': 'For the two variants the property names and the monitor can execute (SSE type 1, AVX2 type 1) and 40 cells - DES / 3DES / DOCSIS-DES jobs in both directions (full blocks, block + tail, tail only), KASUMI F8/F9 and SNOW3G UEA2/UIA2 jobs with byte-aligned and non-byte-aligned bit lengths and several jobs in flight, and every direct KASUMI / SNOW3G function (1/2/3/4/8/N-buffer, bit variants, multi-key, F9) - the cell is executed under valgrind lackey for every key of the alphabet (quick 10: all-zero, all-one, single-bit, byte-walk, seed-derived; thorough 50) with message, IV, lengths, previous destination contents and all addresses fixed. The complete sequence of executed instruction addresses and of load/store addresses+sizes between the marker stores that bracket the cell must be identical for all keys. On a difference the first diverging line and its function are reported.',
    'level_note': 'Keys outside the alphabet are not covered; key-schedule helpers run outside the markers (the property is about processing a job). Micro-architectural effects are outside an address/branch trace. AVX512 and the SHANI/VAES types cannot be executed by valgrind 3.19 and are not named by the property.',
    'drivers': [{'name': 'c19', 'src': ['props/c19.c'] + COMMON, 'cfgs': ['std'], 'args': '', 'cflags': '-no-pie'}],
    'deadline': {'quick': 900, 'thorough': 3000},
    'assumptions': ['library built with the default SAFE_LOOKUP=ON', 'valgrind lackey reports every guest instruction and memory access'],
}

PROPS['C17'] = {
    'level': 'model_checking',
    'technique': 'exhaustive enumeration of all call-level interleavings of 2 (thorough: 3) managers on the real library against solo runs + library-global footprint invariant (PROT_NONE single-step monitor over the shared object\'s writable pages) that reduces every thread schedule to one of those interleavings + free-running thread-sanitizer pass',
    'level_text': 'Step 1: for all 49 ordered variant pairs (incl. the same variant twice) and all 100 pairs of ten six-call histories (jobs completing at submit, jobs parked in out-of-order lanes, a rejected job, flush / get_completed / queue_size, direct-API calls), all C(12,6) = 924 interleavings are executed from the pristine manager images; every call must observe exactly what it observes in its manager\'s solo run (returned job, status, per-manager error code, all output bytes). Thorough adds three managers (sse_t3, avx2_t2, avx512_t2), 3-call prefixes, all 1680 interleavings x 1000 history triples. Step 2: the library is linked as a shared object whose writable pages past RELRO are PROT_NONE during every library call of the solo runs, of a sweep over every algorithm row x direction x variant (job and burst API), of the direct API, the key helpers and init; a SIGSEGV + single-step handler logs every access. Invariant: only imb_errno (documented process-wide mirror), the session counter inside imb_set_session and the CPUID cache inside init are touched - so calls on distinct managers commute and every thread schedule is equivalent to an interleaving of step 1. Step 2b (adversarial mirror): the solo histories and a re-initialisation are repeated with a foreign error code stored into the process-wide mirror immediately before every read the library makes of it (what a manager of another thread may do at any time); observations and the initialised manager image must not change. Step 3 (props/c17t.c): the same histories on real threads (one manager per thread, 2..7 threads, all variants) under the thread sanitizer, library C files instrumented; any report other than on imb_errno fails; outputs must equal the solo outputs.',
    'level_note': 'Histories are 6 calls from a fixed set of 10 programs. Assembly is invisible to the thread sanitizer; the footprint monitor (step 2) covers it. session_id values and the fall-back of imb_get_errno() to the process-wide mirror are documented as process-wide and not demanded.',
    'drivers': [{'name': 'c17', 'src': ['props/c17.c'] + ALG, 'cfgs': ['so'], 'args': ''},
                {'name': 'c17t', 'src': ['props/c17t.c'] + ALG, 'cfgs': ['tsan'], 'args': ''}],
    'deadline': {'quick': 900, 'thorough': 3000},
    'assumptions': ['each manager is used by one thread at a time (documented requirement)', 'callers give distinct managers distinct buffers'],
}

PROPS['C08'] = {
    'level': 'exploration',
    'technique': 'bounded-exhaustive enumeration of (algorithm row x direction x length x IV class) on all 7 variants with a cross-variant equality / recovery oracle + enumeration of every (init function x single missing CPU feature bit x prior manager state) fault case in forked children',
    'level_text': 'Part A: every algorithm row, both directions, lengths 0..80 (thorough 0..1100) + every SIMD stride boundary +-1 up to 8192 + the long-message region 4040..4100 (thorough ..4360, 16300..16400) where multi-block counter fast paths wrap, byte- and non-byte-aligned bit lengths, 3 IV classes: destination, tag, next_iv, status and error code must be byte-identical on all 7 variants reachable on the host (incl. the SHANI-off / GFNI-off types); what the first variant protects is opened on every variant (with ciphertext equality this covers all 49 protecting/recovering pairs); 8 altered (invalid) jobs per row must be refused with the same status and error code everywhere; co-scheduled batches of 2 / 5 / 9 / 17 jobs of unequal lengths (different numbers of full blocks, partial last blocks; 4 rotations, thorough 20) are submitted together and flushed on every variant and every job must equal what the first variant produced for it; DOCSIS-SEC + CRC32 frames additionally with header lengths 14..80 and with cipher ranges ending before the CRC field. Part B: init_mb_mgr_auto under the 4 flag sets binds exactly the handler table / features / arch of the explicit init. Part C: each init function x each single required CPU feature bit cleared in mgr->features x prior state (fresh, or initialised as each of the 7 variants) in a forked child: no fault, IMB_ERR_MISSING_CPUFLAGS_INIT_MGR (auto: best remaining architecture), bound handlers untouched, manager still works; init(NULL) reports IMB_ERR_NULL_MBMGR.',
    'level_note': 'Variants needing CPU features the host lacks (AVX2 types 3/4, SSE without AES-NI) cannot be executed. Equality against the specification is C01-C03; direct-API equality across variants follows from C09 part 2 comparing every variant with one reference.',
    'drivers': [{'name': 'c08', 'src': ['props/c08.c'] + ALG, 'cfgs': ['std'], 'args': ''}],
    'deadline': {'quick': 900, 'thorough': 3000},
    'assumptions': ['a CPU lacking a feature is modelled by the cleared bit in mgr->features, the field the init functions consult'],
}

NOT_APPLICABLE = {}
