/*
 * ref_3gpp.h - independent, scalar, byte-oriented reference implementations of
 * ZUC-128 (EEA3/EIA3), ZUC-256, SNOW 3G (UEA2/UIA2), KASUMI (f8/f9),
 * SNOW-V and SNOW-V-GCM, plus the 3GPP IV generators.
 *
 * Written from the published specifications; used as a test oracle against
 * intel-ipsec-mb. Does not depend on any intel-ipsec-mb header or object.
 *
 * Conventions are documented next to each function in ref_3gpp.c.
 */
#ifndef REF_3GPP_H
#define REF_3GPP_H

#include <stdint.h>
#include <stddef.h>

#ifdef __cplusplus
extern "C" {
#endif

/* ZUC-128: key 16B, iv 16B (already-built 128-bit IV, as the library's job API takes it) */
void ref_zuc_eea3(const uint8_t key[16], const uint8_t iv[16], const uint8_t *in, uint8_t *out,
                  size_t len_bytes);
void ref_zuc_eia3(const uint8_t key[16], const uint8_t iv[16], const uint8_t *msg,
                  uint64_t len_bits, uint8_t tag[4]);

/* ZUC-256: key 32B, iv of ivlen 25 (spec form) or 23 (packed form) bytes; tag_len 4, 8 or 16 */
void ref_zuc256_eea3(const uint8_t key[32], const uint8_t *iv, int ivlen, const uint8_t *in,
                     uint8_t *out, size_t len_bytes);
void ref_zuc256_eia3(const uint8_t key[32], const uint8_t *iv, int ivlen, const uint8_t *msg,
                     uint64_t len_bits, uint8_t *tag, int tag_len);

/* SNOW 3G: UEA2 (f8) over a bit string starting at bit 0 of in; UIA2 (f9) with 16-byte IV */
void ref_snow3g_uea2(const uint8_t key[16], const uint8_t iv[16], const uint8_t *in, uint8_t *out,
                     uint64_t len_bits);
void ref_snow3g_uia2(const uint8_t key[16], const uint8_t iv[16], const uint8_t *msg,
                     uint64_t len_bits, uint8_t tag[4]);

/* KASUMI: f8 with 8-byte IV; f9 over an already formatted message */
void ref_kasumi_f8(const uint8_t key[16], const uint8_t iv[8], const uint8_t *in, uint8_t *out,
                   uint64_t len_bits);
void ref_kasumi_f9(const uint8_t key[16], const uint8_t *formatted_msg, size_t len_bytes,
                   uint8_t tag[4]);

/* SNOW-V (32B key, 16B iv) and SNOW-V-GCM (16-byte tag) */
void ref_snowv(const uint8_t key[32], const uint8_t iv[16], const uint8_t *in, uint8_t *out,
               size_t len_bytes);
void ref_snowv_aead_enc(const uint8_t key[32], const uint8_t iv[16], const uint8_t *aad,
                        size_t aad_len, const uint8_t *pt, uint8_t *ct, size_t len,
                        uint8_t tag[16]);
/* decrypt: computes tag over ct, writes pt */
void ref_snowv_aead_dec(const uint8_t key[32], const uint8_t iv[16], const uint8_t *aad,
                        size_t aad_len, const uint8_t *ct, uint8_t *pt, size_t len,
                        uint8_t tag[16]);

void ref_snowv_aead_hkey(const uint8_t key[32], const uint8_t iv[16], uint8_t h[16], uint8_t endpad[16]);

/* 3GPP IV generators, as the specifications define them */
void ref_zuc_eea3_iv_gen(uint32_t count, uint8_t bearer, uint8_t dir, uint8_t iv[16]);
void ref_zuc_eia3_iv_gen(uint32_t count, uint8_t bearer, uint8_t dir, uint8_t iv[16]);
void ref_snow3g_f8_iv_gen(uint32_t count, uint8_t bearer, uint8_t dir, uint8_t iv[16]);
void ref_snow3g_f9_iv_gen(uint32_t count, uint32_t fresh, uint8_t dir, uint8_t iv[16]);
void ref_kasumi_f8_iv_gen(uint32_t count, uint8_t bearer, uint8_t dir, uint8_t iv[8]);
void ref_kasumi_f9_iv_gen(uint32_t count, uint32_t fresh, uint8_t iv[8]);

#ifdef __cplusplus
}
#endif

#endif /* REF_3GPP_H */
