/*
 * ref_aead.c - boring, byte-oriented reference model (see ref_aead.h).
 *
 * From OpenSSL: AES_set_encrypt_key / AES_encrypt (+ AES_set_decrypt_key /
 * AES_decrypt for DOCSIS CBC decryption) and EVP_sm4_ecb (single block, no
 * padding).  Everything else below is written from the specifications:
 *   NIST SP 800-38D (GCM: GF(2^128) multiply bit by bit, GHASH, GCTR/inc32, J0)
 *   NIST SP 800-38C / RFC 3610 (CCM: B0, AAD length encoding, Ctr_i)
 *   RFC 8439 (ChaCha20 block function, Poly1305, AEAD construction)
 *   RFC 8998 (SM4-GCM = GCM over SM4)
 *   IEEE 802.3 (CRC32), ITU-T G.987.3 (XGEM HEC), DOCSIS BPI+ (CBC + CFB
 *   residual) and the intel-ipsec-mb job conventions documented in ref_aead.h.
 *
 * build: gcc -O2 -Wno-deprecated-declarations -c ref_aead.c   (link -lcrypto)
 */
#include <string.h>
#include <stdlib.h>
#include <openssl/aes.h>
#include <openssl/evp.h>

#include "ref_aead.h"

/* ------------------------------------------------------------------------- */
/* 128-bit block cipher abstraction (forward direction only)                  */
/* ------------------------------------------------------------------------- */

struct blk {
        void (*enc)(const struct blk *b, const uint8_t in[16], uint8_t out[16]);
        AES_KEY aes;
        EVP_CIPHER_CTX *sm4;
};

static void
aes_blk_enc(const struct blk *b, const uint8_t in[16], uint8_t out[16])
{
        uint8_t t[16];

        memcpy(t, in, 16);
        AES_encrypt(t, out, &b->aes);
}

static void
sm4_blk_enc(const struct blk *b, const uint8_t in[16], uint8_t out[16])
{
        uint8_t t[32];
        int n = 0;

        if (EVP_EncryptUpdate(b->sm4, t, &n, in, 16) != 1 || n != 16)
                abort();
        memcpy(out, t, 16);
}

static void
blk_init_aes(struct blk *b, const uint8_t *key, int klen)
{
        memset(b, 0, sizeof(*b));
        if (klen != 16 && klen != 24 && klen != 32)
                abort();
        if (AES_set_encrypt_key(key, klen * 8, &b->aes) != 0)
                abort();
        b->enc = aes_blk_enc;
}

static void
blk_init_sm4(struct blk *b, const uint8_t key[16])
{
        memset(b, 0, sizeof(*b));
        b->sm4 = EVP_CIPHER_CTX_new();
        if (b->sm4 == NULL)
                abort();
        /* ECB, no IV, no padding: every 16-byte update is one raw block */
        if (EVP_EncryptInit_ex(b->sm4, EVP_sm4_ecb(), NULL, key, NULL) != 1)
                abort();
        EVP_CIPHER_CTX_set_padding(b->sm4, 0);
        b->enc = sm4_blk_enc;
}

static void
blk_free(struct blk *b)
{
        if (b->sm4 != NULL)
                EVP_CIPHER_CTX_free(b->sm4);
        memset(b, 0, sizeof(*b));
}

static void
xor_bytes(uint8_t *dst, const uint8_t *a, const uint8_t *b, size_t n)
{
        size_t i;

        for (i = 0; i < n; i++)
                dst[i] = a[i] ^ b[i];
}

static void
put_be64(uint8_t *p, uint64_t v)
{
        int i;

        for (i = 0; i < 8; i++)
                p[i] = (uint8_t) (v >> (56 - 8 * i));
}

static void
put_le64(uint8_t *p, uint64_t v)
{
        int i;

        for (i = 0; i < 8; i++)
                p[i] = (uint8_t) (v >> (8 * i));
}

/* ------------------------------------------------------------------------- */
/* GCM (SP 800-38D)                                                           */
/* ------------------------------------------------------------------------- */

/* Algorithm 1: Z = X . Y in GF(2^128), R = 11100001 || 0^120.
 * Bit 0 of a block is the most significant bit of byte 0. */
static void
gf128_mul(const uint8_t x[16], const uint8_t y[16], uint8_t z_out[16])
{
        uint8_t z[16], v[16];
        int i, j;

        memset(z, 0, 16);
        memcpy(v, y, 16);
        for (i = 0; i < 128; i++) {
                const int xi = (x[i / 8] >> (7 - (i % 8))) & 1;
                const int lsb = v[15] & 1;

                if (xi)
                        for (j = 0; j < 16; j++)
                                z[j] ^= v[j];
                /* V = V >> 1 (towards bit 127) */
                for (j = 15; j > 0; j--)
                        v[j] = (uint8_t) ((v[j] >> 1) | (v[j - 1] << 7));
                v[0] >>= 1;
                if (lsb)
                        v[0] ^= 0xe1;
        }
        memcpy(z_out, z, 16);
}

/* GHASH update over data zero-padded to a block multiple: Y = (Y ^ X_i) . H */
static void
ghash_update(uint8_t y[16], const uint8_t h[16], const uint8_t *data, size_t len)
{
        uint8_t blk[16];
        size_t off = 0;

        while (off < len) {
                const size_t n = (len - off < 16) ? (len - off) : 16;

                memset(blk, 0, 16);
                memcpy(blk, data + off, n);
                xor_bytes(y, y, blk, 16);
                gf128_mul(y, h, y);
                off += n;
        }
}

/* inc32: increment the right-most 32 bits modulo 2^32 */
static void
inc32(uint8_t cb[16])
{
        int i;

        for (i = 15; i >= 12; i--) {
                cb[i]++;
                if (cb[i] != 0)
                        break;
        }
}

/* GCTR with initial counter block icb */
static void
gctr(const struct blk *b, const uint8_t icb[16], const uint8_t *in, uint8_t *out, size_t len)
{
        uint8_t cb[16], ks[16];
        size_t off = 0;

        memcpy(cb, icb, 16);
        while (off < len) {
                const size_t n = (len - off < 16) ? (len - off) : 16;

                b->enc(b, cb, ks);
                xor_bytes(out + off, in + off, ks, n);
                inc32(cb);
                off += n;
        }
}

static void
gcm_generic(const struct blk *b, int enc, const uint8_t *iv, size_t ivlen, const uint8_t *aad,
            size_t aadlen, const uint8_t *in, uint8_t *out, size_t len, uint8_t tag[16])
{
        uint8_t h[16], j0[16], cb[16], s[16], lenblk[16], zero[16];

        memset(zero, 0, 16);
        b->enc(b, zero, h);

        /* J0 */
        if (ivlen == 12) {
                memcpy(j0, iv, 12);
                j0[12] = 0;
                j0[13] = 0;
                j0[14] = 0;
                j0[15] = 1;
        } else {
                memset(j0, 0, 16);
                ghash_update(j0, h, iv, ivlen);
                memset(lenblk, 0, 16);
                put_be64(lenblk + 8, (uint64_t) ivlen * 8);
                ghash_update(j0, h, lenblk, 16);
        }

        /* S = GHASH_H(A || pad || C || pad || [len(A)]64 || [len(C)]64) */
        memset(s, 0, 16);
        ghash_update(s, h, aad, aadlen);

        memcpy(cb, j0, 16);
        inc32(cb);
        if (enc) {
                gctr(b, cb, in, out, len);
                ghash_update(s, h, out, len);
        } else {
                ghash_update(s, h, in, len); /* hash the ciphertext before in-place overwrite */
                gctr(b, cb, in, out, len);
        }
        put_be64(lenblk, (uint64_t) aadlen * 8);
        put_be64(lenblk + 8, (uint64_t) len * 8);
        ghash_update(s, h, lenblk, 16);

        /* T = GCTR(J0, S) */
        gctr(b, j0, s, tag, 16);
}

void
ref_gcm(int enc, const uint8_t *key, int klen, const uint8_t *iv, size_t ivlen, const uint8_t *aad,
        size_t aadlen, const uint8_t *in, uint8_t *out, size_t len, uint8_t tag[16])
{
        struct blk b;

        blk_init_aes(&b, key, klen);
        gcm_generic(&b, enc, iv, ivlen, aad, aadlen, in, out, len, tag);
        blk_free(&b);
}

void
ref_gmac(const uint8_t *key, int klen, const uint8_t *iv, size_t ivlen, const uint8_t *msg,
         size_t len, uint8_t tag[16])
{
        ref_gcm(1, key, klen, iv, ivlen, msg, len, NULL, NULL, 0, tag);
}

void
ref_gcm_hashkey(const uint8_t *key, int klen, uint8_t h[16])
{
        struct blk b;
        uint8_t zero[16];

        memset(zero, 0, 16);
        blk_init_aes(&b, key, klen);
        b.enc(&b, zero, h);
        blk_free(&b);
}

void
ref_sm4_gcm(int enc, const uint8_t key[16], const uint8_t *iv, size_t ivlen, const uint8_t *aad,
            size_t aadlen, const uint8_t *in, uint8_t *out, size_t len, uint8_t tag[16])
{
        struct blk b;

        blk_init_sm4(&b, key);
        gcm_generic(&b, enc, iv, ivlen, aad, aadlen, in, out, len, tag);
        blk_free(&b);
}

/* ------------------------------------------------------------------------- */
/* CCM (SP 800-38C Appendix A formatting = RFC 3610)                          */
/* ------------------------------------------------------------------------- */

/* CBC-MAC step over data zero-padded to a block multiple */
static void
cbcmac_update(const struct blk *b, uint8_t x[16], const uint8_t *data, size_t len)
{
        uint8_t blk[16];
        size_t off = 0;

        while (off < len) {
                const size_t n = (len - off < 16) ? (len - off) : 16;

                memset(blk, 0, 16);
                memcpy(blk, data + off, n);
                xor_bytes(x, x, blk, 16);
                b->enc(b, x, x);
                off += n;
        }
}

/* Ctr_i = [flags = q-1] || N || [i]_8q */
static void
ccm_ctr_block(uint8_t ctr[16], const uint8_t *nonce, int n, uint64_t i)
{
        const int q = 15 - n;
        int k;

        ctr[0] = (uint8_t) (q - 1);
        memcpy(ctr + 1, nonce, (size_t) n);
        for (k = 0; k < q; k++)
                ctr[15 - k] = (uint8_t) (i >> (8 * k)); /* q <= 8 */
}

static void
ccm_ctr_crypt(const struct blk *b, const uint8_t *nonce, int n, const uint8_t *in, uint8_t *out,
              size_t len)
{
        uint8_t ctr[16], ks[16];
        size_t off = 0;
        uint64_t i = 1;

        while (off < len) {
                const size_t m = (len - off < 16) ? (len - off) : 16;

                ccm_ctr_block(ctr, nonce, n, i);
                b->enc(b, ctr, ks);
                xor_bytes(out + off, in + off, ks, m);
                off += m;
                i++;
        }
}

static void
ccm_mac(const struct blk *b, const uint8_t *nonce, int n, const uint8_t *aad, size_t aadlen,
        const uint8_t *pt, size_t len, int t, uint8_t t_out[16])
{
        const int q = 15 - n;
        uint8_t x[16], b0[16];
        int k;

        /* B0 = flags || N || Q ; flags = 64*[a>0] + 8*((t-2)/2) + (q-1) */
        b0[0] = (uint8_t) ((aadlen > 0 ? 0x40 : 0) | (((t - 2) / 2) << 3) | (q - 1));
        memcpy(b0 + 1, nonce, (size_t) n);
        for (k = 0; k < q; k++)
                b0[15 - k] = (uint8_t) ((uint64_t) len >> (8 * k));
        b->enc(b, b0, x);

        if (aadlen > 0) {
                /* encoded length || AAD, zero padded, processed as one stream */
                uint8_t *buf = malloc(aadlen + 10);
                size_t hl;

                if (buf == NULL)
                        abort();
                if (aadlen < 0xFF00) {
                        buf[0] = (uint8_t) (aadlen >> 8);
                        buf[1] = (uint8_t) aadlen;
                        hl = 2;
                } else if ((uint64_t) aadlen <= 0xFFFFFFFFULL) {
                        buf[0] = 0xff;
                        buf[1] = 0xfe;
                        buf[2] = (uint8_t) (aadlen >> 24);
                        buf[3] = (uint8_t) (aadlen >> 16);
                        buf[4] = (uint8_t) (aadlen >> 8);
                        buf[5] = (uint8_t) aadlen;
                        hl = 6;
                } else {
                        buf[0] = 0xff;
                        buf[1] = 0xff;
                        put_be64(buf + 2, (uint64_t) aadlen);
                        hl = 10;
                }
                memcpy(buf + hl, aad, aadlen);
                cbcmac_update(b, x, buf, hl + aadlen);
                free(buf);
        }
        cbcmac_update(b, x, pt, len);
        memcpy(t_out, x, 16);
}

void
ref_ccm(int enc, const uint8_t *key, int klen, const uint8_t *nonce, int noncelen,
        const uint8_t *aad, size_t aadlen, const uint8_t *in, uint8_t *out, size_t len,
        uint8_t *tag, int taglen)
{
        struct blk b;
        uint8_t t[16], a0[16], s0[16];

        if (noncelen < 7 || noncelen > 13 || taglen < 4 || taglen > 16 || (taglen & 1))
                abort();
        blk_init_aes(&b, key, klen);
        if (enc) {
                ccm_mac(&b, nonce, noncelen, aad, aadlen, in, len, taglen, t);
                ccm_ctr_crypt(&b, nonce, noncelen, in, out, len);
        } else {
                ccm_ctr_crypt(&b, nonce, noncelen, in, out, len);
                ccm_mac(&b, nonce, noncelen, aad, aadlen, out, len, taglen, t);
        }
        /* U = MSB_t(T) ^ MSB_t(S0), S0 = E(Ctr_0) */
        ccm_ctr_block(a0, nonce, noncelen, 0);
        b.enc(&b, a0, s0);
        xor_bytes(tag, t, s0, (size_t) taglen);
        blk_free(&b);
}

/* ------------------------------------------------------------------------- */
/* ChaCha20 (RFC 8439 sect. 2.1-2.4)                                          */
/* ------------------------------------------------------------------------- */

static uint32_t
rotl32(uint32_t v, int n)
{
        return (v << n) | (v >> (32 - n));
}

static uint32_t
ld_le32(const uint8_t *p)
{
        return (uint32_t) p[0] | ((uint32_t) p[1] << 8) | ((uint32_t) p[2] << 16) |
               ((uint32_t) p[3] << 24);
}

static void
st_le32(uint8_t *p, uint32_t v)
{
        p[0] = (uint8_t) v;
        p[1] = (uint8_t) (v >> 8);
        p[2] = (uint8_t) (v >> 16);
        p[3] = (uint8_t) (v >> 24);
}

static void
qround(uint32_t s[16], int a, int b, int c, int d)
{
        s[a] += s[b];
        s[d] ^= s[a];
        s[d] = rotl32(s[d], 16);
        s[c] += s[d];
        s[b] ^= s[c];
        s[b] = rotl32(s[b], 12);
        s[a] += s[b];
        s[d] ^= s[a];
        s[d] = rotl32(s[d], 8);
        s[c] += s[d];
        s[b] ^= s[c];
        s[b] = rotl32(s[b], 7);
}

static void
chacha20_block(const uint8_t key[32], uint32_t counter, const uint8_t nonce[12], uint8_t out[64])
{
        uint32_t init[16], s[16];
        int i;

        init[0] = 0x61707865;
        init[1] = 0x3320646e;
        init[2] = 0x79622d32;
        init[3] = 0x6b206574;
        for (i = 0; i < 8; i++)
                init[4 + i] = ld_le32(key + 4 * i);
        init[12] = counter;
        for (i = 0; i < 3; i++)
                init[13 + i] = ld_le32(nonce + 4 * i);

        memcpy(s, init, sizeof(s));
        for (i = 0; i < 10; i++) {
                qround(s, 0, 4, 8, 12);
                qround(s, 1, 5, 9, 13);
                qround(s, 2, 6, 10, 14);
                qround(s, 3, 7, 11, 15);
                qround(s, 0, 5, 10, 15);
                qround(s, 1, 6, 11, 12);
                qround(s, 2, 7, 8, 13);
                qround(s, 3, 4, 9, 14);
        }
        for (i = 0; i < 16; i++)
                st_le32(out + 4 * i, s[i] + init[i]);
}

static void
chacha20_xor(const uint8_t key[32], uint32_t counter, const uint8_t nonce[12], const uint8_t *in,
             uint8_t *out, size_t len)
{
        uint8_t ks[64];
        size_t off = 0;

        while (off < len) {
                const size_t n = (len - off < 64) ? (len - off) : 64;

                chacha20_block(key, counter, nonce, ks);
                xor_bytes(out + off, in + off, ks, n);
                counter++;
                off += n;
        }
}

/* ------------------------------------------------------------------------- */
/* Poly1305 (RFC 8439 sect. 2.5) with plain multi-word arithmetic             */
/* ------------------------------------------------------------------------- */

/* little-endian multi-word unsigned integer, 32-bit limbs; 320 bits is enough
 * for (2^131) * (2^128) products */
#define BN_W 10
struct bn {
        uint32_t w[BN_W];
};

static void
bn_zero(struct bn *a)
{
        memset(a, 0, sizeof(*a));
}

static void
bn_from_le_bytes(struct bn *a, const uint8_t *p, size_t n)
{
        size_t i;

        bn_zero(a);
        for (i = 0; i < n; i++)
                a->w[i / 4] |= (uint32_t) p[i] << (8 * (i % 4));
}

static void
bn_add(struct bn *r, const struct bn *a, const struct bn *b)
{
        uint64_t c = 0;
        int i;

        for (i = 0; i < BN_W; i++) {
                c += (uint64_t) a->w[i] + b->w[i];
                r->w[i] = (uint32_t) c;
                c >>= 32;
        }
}

static void
bn_mul(struct bn *r, const struct bn *a, const struct bn *b)
{
        struct bn t;
        int i, j;

        bn_zero(&t);
        for (i = 0; i < BN_W; i++) {
                uint64_t c = 0;

                for (j = 0; i + j < BN_W; j++) {
                        c += (uint64_t) a->w[i] * b->w[j] + t.w[i + j];
                        t.w[i + j] = (uint32_t) c;
                        c >>= 32;
                }
        }
        *r = t;
}

/* r = a >> 130 */
static void
bn_shr130(struct bn *r, const struct bn *a)
{
        struct bn t;
        int i;

        bn_zero(&t);
        for (i = 0; i + 4 < BN_W; i++) {
                uint64_t v = a->w[i + 4];

                if (i + 5 < BN_W)
                        v |= (uint64_t) a->w[i + 5] << 32;
                t.w[i] = (uint32_t) (v >> 2); /* 130 = 4*32 + 2 */
        }
        *r = t;
}

/* r = a mod 2^130 */
static void
bn_low130(struct bn *r, const struct bn *a)
{
        int i;

        *r = *a;
        r->w[4] &= 3;
        for (i = 5; i < BN_W; i++)
                r->w[i] = 0;
}

static int
bn_is_zero(const struct bn *a)
{
        int i;

        for (i = 0; i < BN_W; i++)
                if (a->w[i])
                        return 0;
        return 1;
}

/* a >= b ? */
static int
bn_ge(const struct bn *a, const struct bn *b)
{
        int i;

        for (i = BN_W - 1; i >= 0; i--) {
                if (a->w[i] > b->w[i])
                        return 1;
                if (a->w[i] < b->w[i])
                        return 0;
        }
        return 1;
}

static void
bn_sub(struct bn *r, const struct bn *a, const struct bn *b)
{
        int64_t c = 0;
        int i;

        for (i = 0; i < BN_W; i++) {
                c += (int64_t) a->w[i] - (int64_t) b->w[i];
                r->w[i] = (uint32_t) c;
                c >>= 32; /* arithmetic shift: borrow = -1 */
        }
}

/* a = a mod (2^130 - 5), using 2^130 = 5 (mod p) */
static void
bn_mod_p1305(struct bn *a)
{
        struct bn hi, lo, five, p;

        bn_zero(&five);
        five.w[0] = 5;
        for (;;) {
                bn_shr130(&hi, a);
                if (bn_is_zero(&hi))
                        break;
                bn_low130(&lo, a);
                bn_mul(&hi, &hi, &five);
                bn_add(a, &lo, &hi);
        }
        /* p = 2^130 - 5 */
        bn_zero(&p);
        p.w[0] = 0xfffffffb;
        p.w[1] = 0xffffffff;
        p.w[2] = 0xffffffff;
        p.w[3] = 0xffffffff;
        p.w[4] = 3;
        if (bn_ge(a, &p))
                bn_sub(a, a, &p);
}

struct poly1305 {
        struct bn r, s, acc;
        uint8_t buf[16];
        size_t buflen;
};

static void
poly1305_init(struct poly1305 *st, const uint8_t key[32])
{
        uint8_t r[16];

        memcpy(r, key, 16);
        /* clamp */
        r[3] &= 15;
        r[7] &= 15;
        r[11] &= 15;
        r[15] &= 15;
        r[4] &= 252;
        r[8] &= 252;
        r[12] &= 252;
        bn_from_le_bytes(&st->r, r, 16);
        bn_from_le_bytes(&st->s, key + 16, 16);
        bn_zero(&st->acc);
        st->buflen = 0;
}

static void
poly1305_block(struct poly1305 *st, const uint8_t *m, size_t n /* 1..16 */)
{
        uint8_t t[17];
        struct bn c;

        memset(t, 0, sizeof(t));
        memcpy(t, m, n);
        t[n] = 1; /* add one bit beyond the number of octets */
        bn_from_le_bytes(&c, t, 17);
        bn_add(&st->acc, &st->acc, &c);
        bn_mul(&st->acc, &st->acc, &st->r);
        bn_mod_p1305(&st->acc);
}

static void
poly1305_update(struct poly1305 *st, const uint8_t *m, size_t len)
{
        size_t i;

        for (i = 0; i < len; i++) {
                st->buf[st->buflen++] = m[i];
                if (st->buflen == 16) {
                        poly1305_block(st, st->buf, 16);
                        st->buflen = 0;
                }
        }
}

static void
poly1305_final(struct poly1305 *st, uint8_t tag[16])
{
        int i;

        if (st->buflen > 0)
                poly1305_block(st, st->buf, st->buflen);
        bn_add(&st->acc, &st->acc, &st->s);
        for (i = 0; i < 16; i++) /* low 128 bits, little-endian */
                tag[i] = (uint8_t) (st->acc.w[i / 4] >> (8 * (i % 4)));
}

/* ------------------------------------------------------------------------- */
/* AEAD_CHACHA20_POLY1305 (RFC 8439 sect. 2.8)                                */
/* ------------------------------------------------------------------------- */

void
ref_chacha20_poly1305(int enc, const uint8_t key[32], const uint8_t iv[12], const uint8_t *aad,
                      size_t aadlen, const uint8_t *in, uint8_t *out, size_t len, uint8_t tag[16])
{
        static const uint8_t zeros[16] = { 0 };
        uint8_t blk0[64], lens[16];
        struct poly1305 st;

        /* one-time key = first 32 bytes of block with counter 0 */
        chacha20_block(key, 0, iv, blk0);
        poly1305_init(&st, blk0);

        poly1305_update(&st, aad, aadlen);
        poly1305_update(&st, zeros, (16 - aadlen % 16) % 16);
        if (enc) {
                chacha20_xor(key, 1, iv, in, out, len);
                poly1305_update(&st, out, len);
        } else {
                poly1305_update(&st, in, len); /* MAC the ciphertext before overwrite */
                chacha20_xor(key, 1, iv, in, out, len);
        }
        poly1305_update(&st, zeros, (16 - len % 16) % 16);
        put_le64(lens, (uint64_t) aadlen);
        put_le64(lens + 8, (uint64_t) len);
        poly1305_update(&st, lens, 16);
        poly1305_final(&st, tag);
}

/* ------------------------------------------------------------------------- */
/* CRC32 (Ethernet FCS), bit by bit                                           */
/* ------------------------------------------------------------------------- */

uint32_t
ref_crc32_ethernet(const uint8_t *msg, size_t len)
{
        uint32_t crc = 0xffffffffU;
        size_t i;
        int k;

        for (i = 0; i < len; i++) {
                crc ^= msg[i];
                for (k = 0; k < 8; k++)
                        crc = (crc & 1) ? ((crc >> 1) ^ 0xEDB88320U) : (crc >> 1);
        }
        return ~crc;
}

/* ------------------------------------------------------------------------- */
/* DOCSIS SEC BPI + CRC32                                                     */
/* ------------------------------------------------------------------------- */

static void
docsis_bpi(int enc, const uint8_t *key, int klen, const uint8_t iv[16], uint8_t *buf, size_t len)
{
        AES_KEY ek, dk;
        uint8_t chain[16], ks[16], t[16];
        const size_t full = len / 16, rem = len % 16;
        size_t i;

        if (len == 0)
                return;
        if (AES_set_encrypt_key(key, klen * 8, &ek) != 0 ||
            AES_set_decrypt_key(key, klen * 8, &dk) != 0)
                abort();

        if (full == 0) {
                /* short frame: CFB with the IV */
                AES_encrypt(iv, ks, &ek);
                xor_bytes(buf, buf, ks, rem);
                return;
        }

        if (enc) {
                memcpy(chain, iv, 16);
                for (i = 0; i < full; i++) {
                        xor_bytes(t, buf + 16 * i, chain, 16);
                        AES_encrypt(t, chain, &ek);
                        memcpy(buf + 16 * i, chain, 16);
                }
                if (rem) {
                        AES_encrypt(chain, ks, &ek); /* chain = last ciphertext block */
                        xor_bytes(buf + 16 * full, buf + 16 * full, ks, rem);
                }
        } else {
                if (rem) {
                        memcpy(t, buf + 16 * (full - 1), 16); /* last full ciphertext block */
                        AES_encrypt(t, ks, &ek);
                        xor_bytes(buf + 16 * full, buf + 16 * full, ks, rem);
                }
                memcpy(chain, iv, 16);
                for (i = 0; i < full; i++) {
                        uint8_t c[16];

                        memcpy(c, buf + 16 * i, 16);
                        AES_decrypt(c, t, &dk);
                        xor_bytes(buf + 16 * i, t, chain, 16);
                        memcpy(chain, c, 16);
                }
        }
}

void
ref_docsis_crc32(int enc, const uint8_t *key, int klen, const uint8_t iv[16], uint8_t *frame,
                 size_t hash_off, size_t hash_len, size_t cipher_off, size_t cipher_len,
                 uint8_t tag[4])
{
        memset(tag, 0, 4);
        if (enc) {
                if (hash_len >= 14) {
                        const uint32_t crc = ref_crc32_ethernet(frame + hash_off, hash_len);

                        st_le32(frame + hash_off + hash_len, crc);
                        st_le32(tag, crc);
                }
                docsis_bpi(1, key, klen, iv, frame + cipher_off, cipher_len);
        } else {
                docsis_bpi(0, key, klen, iv, frame + cipher_off, cipher_len);
                if (hash_len >= 14)
                        st_le32(tag, ref_crc32_ethernet(frame + hash_off, hash_len));
        }
}

/* ------------------------------------------------------------------------- */
/* XGEM HEC                                                                   */
/* ------------------------------------------------------------------------- */

/* hdr: nbytes-long big-endian bit string; the last 13 bits are replaced */
static void
hec_update(uint8_t *hdr, int nbytes)
{
        const int nbits = nbytes * 8;
        const int dbits = nbits - 13;
        /* g(x) = x^12 + x^10 + x^8 + x^5 + x^4 + x^3 + 1 */
        const uint32_t g = (1u << 12) | (1u << 10) | (1u << 8) | (1u << 5) | (1u << 4) | (1u << 3) | 1u;
        uint32_t rem = 0;
        int i, ones = 0;

        /* (D(x) * x^12) mod g(x): shift data bits in MSB first, then 12 zeros */
        for (i = 0; i < dbits + 12; i++) {
                int bit = 0;

                if (i < dbits) {
                        bit = (hdr[i / 8] >> (7 - (i % 8))) & 1;
                        ones += bit;
                }
                rem = (rem << 1) | (uint32_t) bit;
                if (rem & (1u << 12))
                        rem ^= g;
        }
        /* place the 12 remainder bits, MSB first, at bit positions dbits .. dbits+11 */
        for (i = 0; i < 12; i++) {
                const int bit = (rem >> (11 - i)) & 1;
                const int pos = dbits + i;

                hdr[pos / 8] = (uint8_t) ((hdr[pos / 8] & ~(0x80 >> (pos % 8))) |
                                          (bit ? (0x80 >> (pos % 8)) : 0));
                ones += bit;
        }
        /* last bit: even parity over the whole header */
        hdr[nbytes - 1] = (uint8_t) ((hdr[nbytes - 1] & 0xfe) | (ones & 1));
}

uint32_t
ref_hec32(const uint8_t in[4])
{
        uint8_t h[4];

        memcpy(h, in, 4);
        hec_update(h, 4);
        return ld_le32(h);
}

uint64_t
ref_hec64(const uint8_t in[8])
{
        uint8_t h[8];

        memcpy(h, in, 8);
        hec_update(h, 8);
        return (uint64_t) ld_le32(h) | ((uint64_t) ld_le32(h + 4) << 32);
}

/* ------------------------------------------------------------------------- */
/* PON: AES-128-CTR + CRC32 + BIP                                             */
/* ------------------------------------------------------------------------- */

/* full 128-bit big-endian counter, first block uses the IV as is */
static void
pon_ctr(const uint8_t key[16], const uint8_t iv[16], uint8_t *buf, size_t len)
{
        AES_KEY ek;
        uint8_t cb[16], ks[16];
        size_t off = 0;
        int i;

        if (AES_set_encrypt_key(key, 128, &ek) != 0)
                abort();
        memcpy(cb, iv, 16);
        while (off < len) {
                const size_t n = (len - off < 16) ? (len - off) : 16;

                AES_encrypt(cb, ks, &ek);
                xor_bytes(buf + off, buf + off, ks, n);
                for (i = 15; i >= 0; i--) {
                        cb[i]++;
                        if (cb[i] != 0)
                                break;
                }
                off += n;
        }
}

static void
pon_bip(const uint8_t *frame, size_t frame_len, uint8_t bip[4])
{
        size_t i;

        memset(bip, 0, 4);
        for (i = 0; i < frame_len; i++)
                bip[i % 4] ^= frame[i];
}

void
ref_pon(int enc, const uint8_t *key, const uint8_t iv[16], uint8_t *frame, size_t frame_len,
        uint8_t tag[8])
{
        unsigned pli;
        uint32_t crc = 0;

        if (frame_len < 8 || (frame_len & 3))
                abort();

        if (enc) {
                hec_update(frame, 8);
                pli = (((unsigned) frame[0] << 8) | frame[1]) >> 2;
                if (pli > 4) {
                        if ((size_t) pli > frame_len - 8)
                                abort();
                        crc = ref_crc32_ethernet(frame + 8, pli - 4);
                        st_le32(frame + 8 + pli - 4, crc);
                }
                if (key != NULL)
                        pon_ctr(key, iv, frame + 8, frame_len - 8);
                pon_bip(frame, frame_len, tag);
        } else {
                pli = (((unsigned) frame[0] << 8) | frame[1]) >> 2;
                pon_bip(frame, frame_len, tag);
                if (key != NULL)
                        pon_ctr(key, iv, frame + 8, frame_len - 8);
                if (pli > 4) {
                        if ((size_t) pli > frame_len - 8)
                                abort();
                        crc = ref_crc32_ethernet(frame + 8, pli - 4);
                }
        }
        st_le32(tag + 4, crc);
}
