/*
 * ref_modes.c - independent, boring, byte-oriented reference model.
 *
 * Build: gcc -O2 -Wno-deprecated-declarations -c ref_modes.c   (link -lcrypto)
 *
 * OpenSSL supplies ONLY the block primitives:
 *   AES_set_{en,de}crypt_key / AES_encrypt / AES_decrypt   (one 16-byte block)
 *   DES_set_key_unchecked / DES_ecb_encrypt                (one 8-byte block)
 *   EVP_sm4_ecb, padding off, one 16-byte block per call
 *   SHA1/SHA224/SHA256/SHA384/SHA512/MD5 one-shot, EVP_sm3 one-shot
 *   SHA1_Transform/SHA256_Transform/SHA512_Transform/MD5_Transform for the
 *   HMAC intermediate states
 * Everything else (ECB/CBC/CTR/CFB/CBCS/DOCSIS framings, ChaCha20, HMAC,
 * XCBC, CMAC, GHASH, Poly1305, the SM3 compression function used for the
 * HMAC-SM3 intermediate state, and all CRCs) is written here from the
 * specifications in straightforward scalar code.
 *
 * No intel-ipsec-mb header or object is used.
 */
#define OPENSSL_SUPPRESS_DEPRECATED
#include <stdlib.h>
#include <string.h>
#include <openssl/aes.h>
#include <openssl/des.h>
#include <openssl/sha.h>
#include <openssl/md5.h>
#include <openssl/evp.h>

#include "ref_modes.h"

/* ========================================================================= */
/* Generic block cipher handle: one block in, one block out                  */
/* ========================================================================= */

enum { BC_AES, BC_DES, BC_3DES, BC_SM4 };

typedef struct {
        int kind;
        int bs; /* block size in bytes */
        AES_KEY aes_e, aes_d;
        DES_key_schedule des[3];
        EVP_CIPHER_CTX *sm4_e, *sm4_d;
} bc_t;

static void
bc_init_aes(bc_t *c, const uint8_t *key, int klen)
{
        memset(c, 0, sizeof(*c));
        c->kind = BC_AES;
        c->bs = 16;
        AES_set_encrypt_key(key, klen * 8, &c->aes_e);
        AES_set_decrypt_key(key, klen * 8, &c->aes_d);
}

static void
bc_init_des(bc_t *c, const uint8_t *key, int nkeys)
{
        int i;

        memset(c, 0, sizeof(*c));
        c->kind = (nkeys == 3) ? BC_3DES : BC_DES;
        c->bs = 8;
        for (i = 0; i < nkeys; i++) {
                DES_cblock k;

                memcpy(k, key + 8 * i, 8);
                DES_set_key_unchecked(&k, &c->des[i]);
        }
}

static void
bc_init_sm4(bc_t *c, const uint8_t *key)
{
        memset(c, 0, sizeof(*c));
        c->kind = BC_SM4;
        c->bs = 16;
        c->sm4_e = EVP_CIPHER_CTX_new();
        c->sm4_d = EVP_CIPHER_CTX_new();
        EVP_CipherInit_ex(c->sm4_e, EVP_sm4_ecb(), NULL, key, NULL, 1);
        EVP_CIPHER_CTX_set_padding(c->sm4_e, 0);
        EVP_CipherInit_ex(c->sm4_d, EVP_sm4_ecb(), NULL, key, NULL, 0);
        EVP_CIPHER_CTX_set_padding(c->sm4_d, 0);
}

static void
bc_free(bc_t *c)
{
        if (c->kind == BC_SM4) {
                EVP_CIPHER_CTX_free(c->sm4_e);
                EVP_CIPHER_CTX_free(c->sm4_d);
        }
        memset(c, 0, sizeof(*c));
}

/* process exactly one block; in may equal out */
static void
bc_block(bc_t *c, int enc, const uint8_t *in, uint8_t *out)
{
        uint8_t t[16];

        switch (c->kind) {
        case BC_AES:
                memcpy(t, in, 16);
                if (enc)
                        AES_encrypt(t, out, &c->aes_e);
                else
                        AES_decrypt(t, out, &c->aes_d);
                break;
        case BC_DES: {
                DES_cblock i, o;

                memcpy(i, in, 8);
                DES_ecb_encrypt(&i, &o, &c->des[0], enc ? DES_ENCRYPT : DES_DECRYPT);
                memcpy(out, o, 8);
                break;
        }
        case BC_3DES: {
                /* EDE: C = E_k3(D_k2(E_k1(P))),  P = D_k1(E_k2(D_k3(C))) */
                DES_cblock a, b;

                memcpy(a, in, 8);
                if (enc) {
                        DES_ecb_encrypt(&a, &b, &c->des[0], DES_ENCRYPT);
                        DES_ecb_encrypt(&b, &a, &c->des[1], DES_DECRYPT);
                        DES_ecb_encrypt(&a, &b, &c->des[2], DES_ENCRYPT);
                } else {
                        DES_ecb_encrypt(&a, &b, &c->des[2], DES_DECRYPT);
                        DES_ecb_encrypt(&b, &a, &c->des[1], DES_ENCRYPT);
                        DES_ecb_encrypt(&a, &b, &c->des[0], DES_DECRYPT);
                }
                memcpy(out, b, 8);
                break;
        }
        case BC_SM4: {
                int ol = 0;
                uint8_t o[32];

                memcpy(t, in, 16);
                EVP_CipherUpdate(enc ? c->sm4_e : c->sm4_d, o, &ol, t, 16);
                memcpy(out, o, 16);
                break;
        }
        }
}

/* ========================================================================= */
/* Generic modes                                                             */
/* ========================================================================= */

static void
gen_ecb(bc_t *c, int enc, const uint8_t *in, uint8_t *out, size_t len)
{
        size_t o;

        for (o = 0; o + c->bs <= len; o += c->bs)
                bc_block(c, enc, in + o, out + o);
}

/* CBC over floor(len/bs) blocks; `chain` (bs bytes) is updated to the last
 * ciphertext block so that callers can continue the chain */
static void
gen_cbc(bc_t *c, int enc, uint8_t *chain, const uint8_t *in, uint8_t *out, size_t len)
{
        const int bs = c->bs;
        size_t o;
        int i;

        for (o = 0; o + bs <= len; o += bs) {
                uint8_t x[16], ct[16];

                if (enc) {
                        for (i = 0; i < bs; i++)
                                x[i] = in[o + i] ^ chain[i];
                        bc_block(c, 1, x, ct);
                        memcpy(out + o, ct, bs);
                        memcpy(chain, ct, bs);
                } else {
                        memcpy(ct, in + o, bs); /* keep: in may be out */
                        bc_block(c, 0, ct, x);
                        for (i = 0; i < bs; i++)
                                out[o + i] = x[i] ^ chain[i];
                        memcpy(chain, ct, bs);
                }
        }
}

/* full-block-feedback CFB (CFB128 for AES, CFB64 for DES); last block may be
 * partial. Always uses the ENCRYPT direction of the block cipher. */
static void
gen_cfb(bc_t *c, int enc, const uint8_t *iv, const uint8_t *in, uint8_t *out, size_t len)
{
        const int bs = c->bs;
        uint8_t fb[16], ks[16];
        size_t o;

        memcpy(fb, iv, bs);
        for (o = 0; o < len; o += bs) {
                size_t n = (len - o < (size_t) bs) ? len - o : (size_t) bs;
                size_t i;

                bc_block(c, 1, fb, ks);
                for (i = 0; i < n; i++) {
                        const uint8_t ib = in[o + i];
                        const uint8_t ob = ib ^ ks[i];

                        out[o + i] = ob;
                        fb[i] = enc ? ob : ib; /* feedback = ciphertext */
                }
        }
}

/* CTR with the 32-bit big-endian block counter in the last 4 bytes of a
 * 16-byte counter block, wrapping modulo 2^32, upper 96 bits untouched.
 * Writes `len` keystream-xored bytes. */
static void
ctr32_setup(uint8_t cb[16], const uint8_t *iv, int ivlen)
{
        if (ivlen == 12) {
                memcpy(cb, iv, 12);
                cb[12] = 0;
                cb[13] = 0;
                cb[14] = 0;
                cb[15] = 1;
        } else {
                memcpy(cb, iv, 16);
        }
}

static void
ctr32_inc(uint8_t cb[16])
{
        uint32_t n = ((uint32_t) cb[12] << 24) | ((uint32_t) cb[13] << 16) |
                     ((uint32_t) cb[14] << 8) | (uint32_t) cb[15];

        n = n + 1; /* modulo 2^32 */
        cb[12] = (uint8_t) (n >> 24);
        cb[13] = (uint8_t) (n >> 16);
        cb[14] = (uint8_t) (n >> 8);
        cb[15] = (uint8_t) n;
}

static void
gen_ctr32(bc_t *c, const uint8_t *iv, int ivlen, const uint8_t *in, uint8_t *out, size_t len)
{
        uint8_t cb[16], ks[16];
        size_t o, i;

        ctr32_setup(cb, iv, ivlen);
        for (o = 0; o < len; o += 16) {
                const size_t n = (len - o < 16) ? len - o : 16;

                bc_block(c, 1, cb, ks);
                for (i = 0; i < n; i++)
                        out[o + i] = in[o + i] ^ ks[i];
                ctr32_inc(cb);
        }
}

/* DOCSIS BPI+ framing (CM-SP-SECv3.1, "residual termination block
 * processing"): CBC over the floor(len/bs) full blocks; the trailing
 * 1..bs-1 bytes are CFB-processed with IV = last CIPHERTEXT block, or the
 * frame IV when there is no full block at all.
 *
 * Library facts (lib/include/docsis_common.h, mb_mgr_job_check.h):
 *  - len < block size: DOCSIS_FIRST_BLOCK -> CFB with job->iv        (same)
 *  - IMB_CIPHER_DOCSIS_SEC_BPI accepts len == 0 and does nothing     (same)
 *  - IMB_CIPHER_DOCSIS_DES rejects len == 0 (IMB_ERR_JOB_CIPH_LEN);
 *    the reference treats it as a no-op.
 *  - AES-192 is not accepted by the library for DOCSIS (16 or 32 only).
 */
static void
gen_docsis(bc_t *c, int enc, const uint8_t *iv, const uint8_t *in, uint8_t *out, size_t len)
{
        const size_t bs = (size_t) c->bs;
        const size_t full = len - (len % bs);
        const size_t rem = len % bs;
        uint8_t chain[16], civ[16];

        memcpy(chain, iv, bs);
        if (enc) {
                gen_cbc(c, 1, chain, in, out, full);
                /* chain == last ciphertext block, or iv if full == 0 */
                if (rem)
                        gen_cfb(c, 1, chain, in + full, out + full, rem);
        } else {
                /* the CFB IV is the last ciphertext (= input) block: fetch it
                 * before an in-place CBC decrypt overwrites it */
                if (full)
                        memcpy(civ, in + full - bs, bs);
                else
                        memcpy(civ, iv, bs);
                if (rem)
                        gen_cfb(c, 0, civ, in + full, out + full, rem);
                gen_cbc(c, 0, chain, in, out, full);
        }
}

/* ========================================================================= */
/* AES                                                                       */
/* ========================================================================= */

void
ref_aes_block(int enc, const uint8_t *key, int klen, const uint8_t in[16], uint8_t out[16])
{
        bc_t c;

        bc_init_aes(&c, key, klen);
        bc_block(&c, enc, in, out);
        bc_free(&c);
}

void
ref_aes_ecb(int enc, const uint8_t *key, int klen, const uint8_t *in, uint8_t *out, size_t len)
{
        bc_t c;

        bc_init_aes(&c, key, klen);
        gen_ecb(&c, enc, in, out, len);
        bc_free(&c);
}

void
ref_aes_cbc(int enc, const uint8_t *key, int klen, const uint8_t iv[16], const uint8_t *in,
            uint8_t *out, size_t len)
{
        bc_t c;
        uint8_t chain[16];

        bc_init_aes(&c, key, klen);
        memcpy(chain, iv, 16);
        gen_cbc(&c, enc, chain, in, out, len);
        bc_free(&c);
}

void
ref_aes_ctr(const uint8_t *key, int klen, const uint8_t *iv, int ivlen, const uint8_t *in,
            uint8_t *out, size_t len)
{
        bc_t c;

        bc_init_aes(&c, key, klen);
        gen_ctr32(&c, iv, ivlen, in, out, len);
        bc_free(&c);
}

/*
 * AES-CTR with a length in bits (IMB_CIPHER_CNTR_BITLEN = 3GPP 128-EEA2,
 * TS 33.401 Annex B.1.3).
 *
 * Counter: EEA2 defines T1 = COUNT || BEARER || DIRECTION || 0^26 || 0^64 and
 * obtains the following counter blocks "by applying the standard integer
 * incrementing function mod 2^64 to the least significant 64 bits". The
 * reference therefore increments the LOW 64 BITS (big-endian, modulo 2^64,
 * upper 64 bits never change) in this mode - unlike ref_aes_ctr(), whose
 * counter is 32 bits wide. The library does the same (vpaddq instead of
 * vpaddd in the CNTR_BIT kernels); the two conventions only differ when the
 * low 32 bits of the initial counter block wrap.
 *
 * ceil(len_bits/8) bytes are touched. The first len_bits/8 bytes are plain
 * CTR. If r = len_bits % 8 != 0, only the TOP r bits (MSB first) of the last
 * byte belong to the message and are keystream-xored.
 *
 * Convention for the remaining (8-r) low bits of the last output byte:
 * the library PRESERVES THEM FROM THE DESTINATION buffer, i.e. they keep the
 * value dst had before the call (neither zeroed nor copied from src). Found in
 * the kernels ("Load output to get last partial byte ... Clear all the bits
 * that do not need to be preserved from the output", e.g.
 * lib/avx2_t1/aes128_cntr_by8_avx.asm, CNTR_BIT branches) and consistent with
 * test/kat-app/ctr_test.c, which pre-fills the target with 0xff and compares
 * whole bytes against vectors whose trailing bits are all ones. For an
 * in-place call (in == out) this means the trailing input bits pass through
 * unchanged.
 *
 * The library accepts only a 16-byte IV for this mode; the reference also
 * takes 12 with the usual meaning (iv || 00000001).
 */
static void
ctr64_inc(uint8_t cb[16])
{
        int i;

        for (i = 15; i >= 8; i--) {
                cb[i] = (uint8_t) (cb[i] + 1);
                if (cb[i] != 0)
                        break; /* no carry; a carry out of byte 8 is dropped */
        }
}

void
ref_aes_ctr_bits(const uint8_t *key, int klen, const uint8_t *iv, int ivlen, const uint8_t *in,
                 uint8_t *out, uint64_t len_bits)
{
        const size_t full = (size_t) (len_bits / 8);
        const unsigned r = (unsigned) (len_bits % 8);
        const size_t nby = full + (r ? 1 : 0);
        const uint8_t keep_mask = (uint8_t) (r ? (0xff >> r) : 0); /* low 8-r bits kept */
        const uint8_t old_dst = r ? out[full] : 0;                 /* before any write */
        uint8_t cb[16], ks[16];
        size_t o, i;
        bc_t c;

        bc_init_aes(&c, key, klen);
        ctr32_setup(cb, iv, ivlen);
        for (o = 0; o < nby; o += 16) {
                const size_t n = (nby - o < 16) ? nby - o : 16;

                bc_block(&c, 1, cb, ks);
                for (i = 0; i < n; i++)
                        out[o + i] = in[o + i] ^ ks[i];
                ctr64_inc(cb);
        }
        if (r)
                out[full] = (uint8_t) ((out[full] & (uint8_t) ~keep_mask) | (old_dst & keep_mask));
        bc_free(&c);
}

void
ref_aes_cfb128(int enc, const uint8_t *key, int klen, const uint8_t iv[16], const uint8_t *in,
               uint8_t *out, size_t len)
{
        bc_t c;

        bc_init_aes(&c, key, klen);
        gen_cfb(&c, enc, iv, in, out, len);
        bc_free(&c);
}

/*
 * AES-128 CBCS 1:9 (ISO/IEC 23001-7 'cbcs' pattern encryption, crypt 1 /
 * skip 9): of every 10 consecutive 16-byte blocks the first one is
 * CBC-processed and the following nine stay in the clear. The CBC chain runs
 * over the processed blocks only (block 10 is chained to the ciphertext of
 * block 0, and so on).
 *
 * Trailing partial pattern: the pattern simply continues, so with
 * nblk = len/16 the processed blocks are 0, 10, 20, ... < nblk, i.e.
 * ceil(nblk/10) blocks; a final group of 1..9 blocks has its first block
 * processed and the rest clear. This is what the library does and what
 * test/kat-app/aes_cbcs_test.c expects (last block offset =
 * ((len + 9*16)/160 - 1)*160).
 *
 * next_iv receives the LAST CIPHERTEXT BLOCK PROCESSED (encrypt: the one just
 * produced, decrypt: the one consumed), as documented for
 * job->cipher_fields.CBCS.next_iv; if no block was processed (len < 16) it
 * receives the IV.
 *
 * Library notes: IMB_CIPHER_CBCS_1_9 requires len > 0 and len % 16 == 0
 * (mb_mgr_job_check.h) and a 16-byte key. A trailing fragment shorter than 16
 * bytes is outside the library's domain; per the ISO text it stays clear and
 * the reference copies it through. The reference copies clear blocks from in
 * to out; the library, used out of place, does NOT write the skipped blocks
 * of dst at all (the KAT pre-zeroes dst and the vectors carry zero clear
 * blocks), so compare in place or only on the processed blocks.
 */
void
ref_aes_cbcs_1_9(int enc, const uint8_t key[16], const uint8_t iv[16], const uint8_t *in,
                 uint8_t *out, size_t len, uint8_t next_iv[16])
{
        const size_t nblk = len / 16;
        uint8_t chain[16];
        size_t b;
        bc_t c;

        bc_init_aes(&c, key, 16);
        memcpy(chain, iv, 16);
        for (b = 0; b < nblk; b++) {
                if (b % 10 == 0)
                        gen_cbc(&c, enc, chain, in + 16 * b, out + 16 * b, 16);
                else if (out != in)
                        memmove(out + 16 * b, in + 16 * b, 16);
        }
        if ((len % 16) && out != in)
                memmove(out + 16 * nblk, in + 16 * nblk, len % 16);
        memcpy(next_iv, chain, 16);
        bc_free(&c);
}

void
ref_docsis_aes(int enc, const uint8_t *key, int klen, const uint8_t iv[16], const uint8_t *in,
               uint8_t *out, size_t len)
{
        bc_t c;

        bc_init_aes(&c, key, klen);
        gen_docsis(&c, enc, iv, in, out, len);
        bc_free(&c);
}

/* ========================================================================= */
/* DES / 3DES                                                                */
/* ========================================================================= */

void
ref_des_cbc(int enc, const uint8_t key[8], const uint8_t iv[8], const uint8_t *in, uint8_t *out,
            size_t len)
{
        bc_t c;
        uint8_t chain[16];

        bc_init_des(&c, key, 1);
        memcpy(chain, iv, 8);
        gen_cbc(&c, enc, chain, in, out, len);
        bc_free(&c);
}

void
ref_3des_cbc(int enc, const uint8_t key[24], const uint8_t iv[8], const uint8_t *in, uint8_t *out,
             size_t len)
{
        bc_t c;
        uint8_t chain[16];

        bc_init_des(&c, key, 3);
        memcpy(chain, iv, 8);
        gen_cbc(&c, enc, chain, in, out, len);
        bc_free(&c);
}

void
ref_docsis_des(int enc, const uint8_t key[8], const uint8_t iv[8], const uint8_t *in, uint8_t *out,
               size_t len)
{
        bc_t c;

        bc_init_des(&c, key, 1);
        gen_docsis(&c, enc, iv, in, out, len);
        bc_free(&c);
}

/* ========================================================================= */
/* ChaCha20 (RFC 8439 section 2.3 / 2.4)                                     */
/* ========================================================================= */

static uint32_t
rotl32(uint32_t x, int n)
{
        return (x << n) | (x >> (32 - n));
}

static uint32_t
le32(const uint8_t *p)
{
        return (uint32_t) p[0] | ((uint32_t) p[1] << 8) | ((uint32_t) p[2] << 16) |
               ((uint32_t) p[3] << 24);
}

#define CHACHA_QR(a, b, c, d)                                                                      \
        do {                                                                                       \
                a += b; d ^= a; d = rotl32(d, 16);                                                 \
                c += d; b ^= c; b = rotl32(b, 12);                                                 \
                a += b; d ^= a; d = rotl32(d, 8);                                                  \
                c += d; b ^= c; b = rotl32(b, 7);                                                  \
        } while (0)

static void
chacha20_block(const uint8_t key[32], uint32_t counter, const uint8_t nonce[12], uint8_t ks[64])
{
        uint32_t s[16], x[16];
        int i;

        s[0] = 0x61707865;
        s[1] = 0x3320646e;
        s[2] = 0x79622d32;
        s[3] = 0x6b206574;
        for (i = 0; i < 8; i++)
                s[4 + i] = le32(key + 4 * i);
        s[12] = counter;
        for (i = 0; i < 3; i++)
                s[13 + i] = le32(nonce + 4 * i);
        memcpy(x, s, sizeof(x));
        for (i = 0; i < 10; i++) {
                CHACHA_QR(x[0], x[4], x[8], x[12]);
                CHACHA_QR(x[1], x[5], x[9], x[13]);
                CHACHA_QR(x[2], x[6], x[10], x[14]);
                CHACHA_QR(x[3], x[7], x[11], x[15]);
                CHACHA_QR(x[0], x[5], x[10], x[15]);
                CHACHA_QR(x[1], x[6], x[11], x[12]);
                CHACHA_QR(x[2], x[7], x[8], x[13]);
                CHACHA_QR(x[3], x[4], x[9], x[14]);
        }
        for (i = 0; i < 16; i++) {
                const uint32_t v = x[i] + s[i];

                ks[4 * i + 0] = (uint8_t) v;
                ks[4 * i + 1] = (uint8_t) (v >> 8);
                ks[4 * i + 2] = (uint8_t) (v >> 16);
                ks[4 * i + 3] = (uint8_t) (v >> 24);
        }
}

/* `counter` is the initial 32-bit block counter. The library's plain
 * IMB_CIPHER_CHACHA20 job starts at block counter 1 (counter 0 is reserved
 * for the Poly1305 key in the AEAD); pass 1 to model it. */
void
ref_chacha20(const uint8_t key[32], const uint8_t iv[12], uint32_t counter, const uint8_t *in,
             uint8_t *out, size_t len)
{
        uint8_t ks[64];
        size_t o, i;

        for (o = 0; o < len; o += 64) {
                const size_t n = (len - o < 64) ? len - o : 64;

                chacha20_block(key, counter, iv, ks);
                for (i = 0; i < n; i++)
                        out[o + i] = in[o + i] ^ ks[i];
                counter = counter + 1; /* modulo 2^32 */
        }
}

/* ========================================================================= */
/* SM4                                                                       */
/* ========================================================================= */

void
ref_sm4_ecb(int enc, const uint8_t key[16], const uint8_t *in, uint8_t *out, size_t len)
{
        bc_t c;

        bc_init_sm4(&c, key);
        gen_ecb(&c, enc, in, out, len);
        bc_free(&c);
}

void
ref_sm4_cbc(int enc, const uint8_t key[16], const uint8_t iv[16], const uint8_t *in, uint8_t *out,
            size_t len)
{
        bc_t c;
        uint8_t chain[16];

        bc_init_sm4(&c, key);
        memcpy(chain, iv, 16);
        gen_cbc(&c, enc, chain, in, out, len);
        bc_free(&c);
}

/* SM4-CTR: the library (lib/sse_t1/sm4_sse.asm, sm4_ctr_sse) uses the same
 * convention as AES-CTR: 12-byte IV -> iv || 00000001, 16-byte IV taken as
 * the whole counter block, 32-bit big-endian counter in the last 4 bytes
 * incremented with a dword add (wraps modulo 2^32, no carry into byte 11).
 * Note this differs from OpenSSL's EVP_sm4_ctr (128-bit increment) only when
 * the low 32 bits wrap. */
void
ref_sm4_ctr(const uint8_t key[16], const uint8_t *iv, int ivlen, const uint8_t *in, uint8_t *out,
            size_t len)
{
        bc_t c;

        bc_init_sm4(&c, key);
        gen_ctr32(&c, iv, ivlen, in, out, len);
        bc_free(&c);
}

/* ========================================================================= */
/* Hashes and HMAC                                                           */
/* ========================================================================= */

int
ref_hash_size(int alg)
{
        static const int sz[] = { 20, 28, 32, 48, 64, 16, 32 };

        return (alg >= 0 && alg <= REF_SM3) ? sz[alg] : 0;
}

int
ref_hash_block(int alg)
{
        return (alg == REF_SHA384 || alg == REF_SHA512) ? 128 : 64;
}

void
ref_hash(int alg, const uint8_t *msg, size_t len, uint8_t *out)
{
        static const uint8_t empty[1] = { 0 };

        if (msg == NULL)
                msg = empty;
        switch (alg) {
        case REF_SHA1:
                SHA1(msg, len, out);
                break;
        case REF_SHA224:
                SHA224(msg, len, out);
                break;
        case REF_SHA256:
                SHA256(msg, len, out);
                break;
        case REF_SHA384:
                SHA384(msg, len, out);
                break;
        case REF_SHA512:
                SHA512(msg, len, out);
                break;
        case REF_MD5:
                MD5(msg, len, out);
                break;
        case REF_SM3: {
                unsigned int l = 0;

                EVP_Digest(msg, len, out, &l, EVP_sm3(), NULL);
                break;
        }
        }
}

/* K0 of RFC 2104 / FIPS 198-1: key hashed if longer than the block, then
 * zero-padded to the block size */
static void
hmac_k0(int alg, const uint8_t *key, size_t keylen, uint8_t k0[128])
{
        const size_t B = (size_t) ref_hash_block(alg);

        memset(k0, 0, 128);
        if (keylen > B)
                ref_hash(alg, key, keylen, k0);
        else if (keylen)
                memcpy(k0, key, keylen);
}

void
ref_hmac(int alg, const uint8_t *key, size_t keylen, const uint8_t *msg, size_t len, uint8_t *out)
{
        const size_t B = (size_t) ref_hash_block(alg);
        const size_t L = (size_t) ref_hash_size(alg);
        uint8_t k0[128], inner[64], obuf[128 + 64];
        uint8_t *ibuf = malloc(B + len + 1);
        size_t i;

        hmac_k0(alg, key, keylen, k0);
        for (i = 0; i < B; i++)
                ibuf[i] = k0[i] ^ 0x36;
        if (len)
                memcpy(ibuf + B, msg, len);
        ref_hash(alg, ibuf, B + len, inner);
        for (i = 0; i < B; i++)
                obuf[i] = k0[i] ^ 0x5c;
        memcpy(obuf + B, inner, L);
        ref_hash(alg, obuf, B + L, out);
        free(ibuf);
}

/* ---- SM3 compression function (GB/T 32905-2016 section 5.3) ----
 * OpenSSL does not export its SM3 block function, so the one-block state
 * needed for HMAC-SM3 ipad/opad comes from this plain transcription. The
 * self-test validates it by building a complete SM3 on top of it and
 * comparing with EVP_sm3 (symbol is non-static for that purpose only; it is
 * not part of the ref_modes.h interface). */
void
ref__sm3_compress(uint32_t v[8], const uint8_t blk[64])
{
        uint32_t w[68], w1[64];
        uint32_t a, b, c, d, e, f, g, h;
        int j;

        for (j = 0; j < 16; j++)
                w[j] = ((uint32_t) blk[4 * j] << 24) | ((uint32_t) blk[4 * j + 1] << 16) |
                       ((uint32_t) blk[4 * j + 2] << 8) | (uint32_t) blk[4 * j + 3];
        for (j = 16; j < 68; j++) {
                uint32_t x = w[j - 16] ^ w[j - 9] ^ rotl32(w[j - 3], 15);

                x = x ^ rotl32(x, 15) ^ rotl32(x, 23); /* P1 */
                w[j] = x ^ rotl32(w[j - 13], 7) ^ w[j - 6];
        }
        for (j = 0; j < 64; j++)
                w1[j] = w[j] ^ w[j + 4];
        a = v[0]; b = v[1]; c = v[2]; d = v[3];
        e = v[4]; f = v[5]; g = v[6]; h = v[7];
        for (j = 0; j < 64; j++) {
                const uint32_t t = (j < 16) ? 0x79cc4519U : 0x7a879d8aU;
                const int r = j % 32;
                const uint32_t tj = (r == 0) ? t : rotl32(t, r);
                const uint32_t a12 = rotl32(a, 12);
                const uint32_t ss1 = rotl32(a12 + e + tj, 7);
                const uint32_t ss2 = ss1 ^ a12;
                uint32_t ff, gg, tt1, tt2;

                if (j < 16) {
                        ff = a ^ b ^ c;
                        gg = e ^ f ^ g;
                } else {
                        ff = (a & b) | (a & c) | (b & c);
                        gg = (e & f) | (~e & g);
                }
                tt1 = ff + d + ss2 + w1[j];
                tt2 = gg + h + ss1 + w[j];
                d = c;
                c = rotl32(b, 9);
                b = a;
                a = tt1;
                h = g;
                g = rotl32(f, 19);
                f = e;
                e = tt2 ^ rotl32(tt2, 9) ^ rotl32(tt2, 17); /* P0 */
        }
        v[0] ^= a; v[1] ^= b; v[2] ^= c; v[3] ^= d;
        v[4] ^= e; v[5] ^= f; v[6] ^= g; v[7] ^= h;
}

static void
put_le32(uint8_t *p, uint32_t v)
{
        p[0] = (uint8_t) v;
        p[1] = (uint8_t) (v >> 8);
        p[2] = (uint8_t) (v >> 16);
        p[3] = (uint8_t) (v >> 24);
}

static void
put_le64(uint8_t *p, uint64_t v)
{
        put_le32(p, (uint32_t) v);
        put_le32(p + 4, (uint32_t) (v >> 32));
}

/* chaining value after compressing ONE block starting from the algorithm's
 * initial value, in the layout of the library's IMB_xxx_ONE_BLOCK functions */
static void
one_block_state(int alg, const uint8_t *blk, uint8_t *out)
{
        int i;

        switch (alg) {
        case REF_SHA1: {
                SHA_CTX c;

                SHA1_Init(&c);
                SHA1_Transform(&c, blk);
                put_le32(out + 0, c.h0);
                put_le32(out + 4, c.h1);
                put_le32(out + 8, c.h2);
                put_le32(out + 12, c.h3);
                put_le32(out + 16, c.h4);
                break;
        }
        case REF_SHA224:
        case REF_SHA256: {
                SHA256_CTX c;

                if (alg == REF_SHA224)
                        SHA224_Init(&c);
                else
                        SHA256_Init(&c);
                SHA256_Transform(&c, blk);
                for (i = 0; i < 8; i++)
                        put_le32(out + 4 * i, c.h[i]);
                break;
        }
        case REF_SHA384:
        case REF_SHA512: {
                SHA512_CTX c;

                if (alg == REF_SHA384)
                        SHA384_Init(&c);
                else
                        SHA512_Init(&c);
                SHA512_Transform(&c, blk);
                for (i = 0; i < 8; i++)
                        put_le64(out + 8 * i, (uint64_t) c.h[i]);
                break;
        }
        case REF_MD5: {
                MD5_CTX c;

                MD5_Init(&c);
                MD5_Transform(&c, blk);
                put_le32(out + 0, c.A);
                put_le32(out + 4, c.B);
                put_le32(out + 8, c.C);
                put_le32(out + 12, c.D);
                break;
        }
        case REF_SM3: {
                uint32_t v[8] = { 0x7380166f, 0x4914b2b9, 0x172442d7, 0xda8a0600,
                                  0xa96f30bc, 0x163138aa, 0xe38dee4d, 0xb0fb0e4e };

                ref__sm3_compress(v, blk);
                for (i = 0; i < 8; i++)
                        put_le32(out + 4 * i, v[i]);
                break;
        }
        }
}

/*
 * HMAC intermediate states as imb_hmac_ipad_opad() (lib/x86_64/
 * hmac_ipad_opad.c) writes them: key (hashed first if longer than the block)
 * zero-padded to one block, xored with 0x36 / 0x5c, compressed once from the
 * initial value via IMB_SHAxxx_ONE_BLOCK / IMB_MD5_ONE_BLOCK /
 * sm3_one_block. The header documents only the sizes ("SHA224_ONE_BLOCK:
 * output is 32 bytes, full 8 word digest is required"); the word order below
 * was established against the library (xcheck_modes.c) and is what HMAC jobs
 * consume through u.HMAC._hashed_auth_key_xor_ipad/opad:
 *
 *   SHA-1    5 x uint32 state words h0..h4, each stored as a NATIVE
 *            LITTLE-ENDIAN word (NOT the big-endian digest byte order): 20 B
 *   SHA-224  all 8 x uint32 words (not truncated to 7), little-endian:  32 B
 *   SHA-256  8 x uint32 little-endian words:                            32 B
 *   SHA-384  all 8 x uint64 words (not truncated to 6), little-endian:  64 B
 *   SHA-512  8 x uint64 little-endian words:                            64 B
 *   MD5      A,B,C,D little-endian words (= MD5's digest byte order):   16 B
 *   SM3      8 x uint32 little-endian words (NOT the big-endian SM3
 *            digest byte order), same as the SHA family:                32 B
 *
 * MD5 keys longer than 64 bytes: the library refuses them (IMB_ERR_KEY_LEN);
 * the reference follows RFC 2104 (key := MD5(key)).
 */
void
ref_hmac_ipad_opad(int alg, const uint8_t *key, size_t keylen, uint8_t *ipad_state,
                   uint8_t *opad_state)
{
        const size_t B = (size_t) ref_hash_block(alg);
        uint8_t k0[128], blk[128];
        size_t i;

        hmac_k0(alg, key, keylen, k0);
        if (ipad_state != NULL) {
                for (i = 0; i < B; i++)
                        blk[i] = k0[i] ^ 0x36;
                one_block_state(alg, blk, ipad_state);
        }
        if (opad_state != NULL) {
                for (i = 0; i < B; i++)
                        blk[i] = k0[i] ^ 0x5c;
                one_block_state(alg, blk, opad_state);
        }
}

/* ========================================================================= */
/* AES-XCBC-MAC (RFC 3566)                                                   */
/* ========================================================================= */

void
ref_aes_xcbc_keys(const uint8_t key[16], uint8_t k1[16], uint8_t k2[16], uint8_t k3[16])
{
        uint8_t c[16];

        memset(c, 0x01, 16);
        ref_aes_block(1, key, 16, c, k1);
        memset(c, 0x02, 16);
        ref_aes_block(1, key, 16, c, k2);
        memset(c, 0x03, 16);
        ref_aes_block(1, key, 16, c, k3);
}

void
ref_aes_xcbc_mac(const uint8_t key[16], const uint8_t *msg, size_t len, uint8_t out[16])
{
        uint8_t k1[16], k2[16], k3[16], e[16], m[16];
        size_t n, i, b, last_len;
        bc_t c;

        ref_aes_xcbc_keys(key, k1, k2, k3);
        bc_init_aes(&c, k1, 16);
        memset(e, 0, 16);
        /* n = number of blocks, the last one possibly partial; empty -> 1 */
        n = (len == 0) ? 1 : (len + 15) / 16;
        for (b = 0; b + 1 < n; b++) {
                for (i = 0; i < 16; i++)
                        e[i] ^= msg[16 * b + i];
                bc_block(&c, 1, e, e);
        }
        last_len = len - 16 * (n - 1);
        if (last_len == 16) {
                for (i = 0; i < 16; i++)
                        e[i] ^= msg[16 * (n - 1) + i] ^ k2[i];
        } else {
                memset(m, 0, 16);
                if (last_len)
                        memcpy(m, msg + 16 * (n - 1), last_len);
                m[last_len] = 0x80;
                for (i = 0; i < 16; i++)
                        e[i] ^= m[i] ^ k3[i];
        }
        bc_block(&c, 1, e, out);
        bc_free(&c);
}

/* ========================================================================= */
/* AES-CMAC (NIST SP 800-38B, RFC 4493), message length in bits              */
/* ========================================================================= */

/* multiply by x in GF(2^128), big-endian bit order, R = 0x87 */
static void
cmac_dbl(const uint8_t in[16], uint8_t out[16])
{
        const uint8_t msb = in[0] >> 7;
        int i;

        for (i = 0; i < 15; i++)
                out[i] = (uint8_t) ((in[i] << 1) | (in[i + 1] >> 7));
        out[15] = (uint8_t) (in[15] << 1);
        if (msb)
                out[15] ^= 0x87;
}

void
ref_aes_cmac_subkeys(const uint8_t *key, int klen, uint8_t k1[16], uint8_t k2[16])
{
        uint8_t z[16], l[16];

        memset(z, 0, 16);
        ref_aes_block(1, key, klen, z, l);
        cmac_dbl(l, k1);
        cmac_dbl(k1, k2);
}

/* The message is the bit string formed by the first len_bits bits of msg,
 * MSB first (3GPP 128-EIA2 style = IMB_AUTH_AES_CMAC_BITLEN). If the last
 * block is incomplete the padding bit '1' directly follows the last message
 * bit; any input bits after the message are ignored. */
void
ref_aes_cmac(const uint8_t *key, int klen, const uint8_t *msg, uint64_t len_bits, uint8_t out[16])
{
        uint8_t k1[16], k2[16], x[16], m[16];
        uint64_t n, b, last_bits;
        size_t i;
        bc_t c;

        ref_aes_cmac_subkeys(key, klen, k1, k2);
        bc_init_aes(&c, key, klen);
        memset(x, 0, 16);
        n = (len_bits == 0) ? 1 : (len_bits + 127) / 128;
        for (b = 0; b + 1 < n; b++) {
                for (i = 0; i < 16; i++)
                        x[i] ^= msg[16 * b + i];
                bc_block(&c, 1, x, x);
        }
        last_bits = len_bits - 128 * (n - 1);
        if (last_bits == 128) {
                for (i = 0; i < 16; i++)
                        x[i] ^= msg[16 * (n - 1) + i] ^ k1[i];
        } else {
                const size_t fullb = (size_t) (last_bits / 8);
                const unsigned r = (unsigned) (last_bits % 8);

                memset(m, 0, 16);
                if (fullb)
                        memcpy(m, msg + 16 * (n - 1), fullb);
                if (r) {
                        const uint8_t keep = (uint8_t) (0xff << (8 - r)); /* top r bits */

                        m[fullb] = (uint8_t) ((msg[16 * (n - 1) + fullb] & keep) | (0x80 >> r));
                } else {
                        m[fullb] = 0x80;
                }
                for (i = 0; i < 16; i++)
                        x[i] ^= m[i] ^ k2[i];
        }
        bc_block(&c, 1, x, out);
        bc_free(&c);
}

/* ========================================================================= */
/* GHASH (NIST SP 800-38D section 6.3 / 6.4)                                 */
/* ========================================================================= */

/* Z = X * Y in GF(2^128) with the GCM bit order (bit 0 = MSB of byte 0) */
static void
gf128_mul(const uint8_t x[16], const uint8_t y[16], uint8_t z[16])
{
        uint8_t v[16], r[16];
        int i, j;

        memset(r, 0, 16);
        memcpy(v, y, 16);
        for (i = 0; i < 128; i++) {
                const int xbit = (x[i / 8] >> (7 - (i % 8))) & 1;
                int lsb;

                if (xbit)
                        for (j = 0; j < 16; j++)
                                r[j] ^= v[j];
                lsb = v[15] & 1;
                for (j = 15; j > 0; j--)
                        v[j] = (uint8_t) ((v[j] >> 1) | (v[j - 1] << 7));
                v[0] >>= 1;
                if (lsb)
                        v[0] ^= 0xe1;
        }
        memcpy(z, r, 16);
}

/*
 * What IMB_GHASH() / IMB_AUTH_GHASH compute (test/kat-app/ghash_test.c,
 * ghash_test.json.c): the key given to IMB_GHASH_PRE is the hash subkey H
 * itself (not an AES key); the result is the plain
 *      Y_0 = start,  Y_i = (Y_{i-1} xor X_i) * H
 * over the message split into 16-byte blocks with the last block zero padded;
 * NO length block is appended and nothing is encrypted. The start value is
 * caller supplied in the library: the direct API IMB_GHASH(mgr,key,src,len,
 * tag,taglen) treats `tag` as IN/OUT (16 bytes are read as Y_0 whatever
 * taglen is; ghash_sse "io_tag"), the job API starts from
 * *job->u.GHASH._init_tag; the KAT passes zeroed buffers in both cases. Both
 * reject len == 0. The reference models start value 0; output is the full 16
 * bytes (the library truncates to the requested tag length).
 */
void
ref_ghash(const uint8_t h[16], const uint8_t *msg, size_t len, uint8_t out[16])
{
        uint8_t y[16];
        size_t o, i;

        memset(y, 0, 16);
        for (o = 0; o < len; o += 16) {
                const size_t n = (len - o < 16) ? len - o : 16;

                for (i = 0; i < n; i++)
                        y[i] ^= msg[o + i];
                gf128_mul(y, h, y);
        }
        memcpy(out, y, 16);
}

/* ========================================================================= */
/* Poly1305 (RFC 8439 section 2.5) - plain arithmetic on 17 base-256 digits  */
/* ========================================================================= */

static void
poly_add(uint32_t h[17], const uint32_t c[17])
{
        uint32_t u = 0;
        int j;

        for (j = 0; j < 17; j++) {
                u += h[j] + c[j];
                h[j] = u & 255;
                u >>= 8;
        }
}

void
ref_poly1305(const uint8_t key[32], const uint8_t *msg, size_t len, uint8_t out[16])
{
        static const uint32_t minusp[17] = { 5, 0, 0, 0, 0, 0, 0, 0, 0, 0, 0, 0, 0, 0, 0, 0, 252 };
        uint32_t r[17], h[17], c[17], x[17], g[17];
        uint32_t u, s;
        size_t o;
        int i, j;

        /* r = le_bytes_to_num(key[0..15]) clamped */
        for (j = 0; j < 16; j++)
                r[j] = key[j];
        r[16] = 0;
        r[3] &= 15;
        r[7] &= 15;
        r[11] &= 15;
        r[15] &= 15;
        r[4] &= 252;
        r[8] &= 252;
        r[12] &= 252;
        memset(h, 0, sizeof(h));

        for (o = 0; o < len; o += 16) {
                const size_t n = (len - o < 16) ? len - o : 16;

                /* c = block as little-endian number with a 1 byte appended */
                memset(c, 0, sizeof(c));
                for (j = 0; (size_t) j < n; j++)
                        c[j] = msg[o + j];
                c[n] = 1;
                poly_add(h, c);
                /* x = h * r mod 2^130-5 ; 2^136 = 64 * 2^130 = 320 (mod p) */
                for (i = 0; i < 17; i++) {
                        x[i] = 0;
                        for (j = 0; j < 17; j++)
                                x[i] += h[j] * ((j <= i) ? r[i - j] : 320 * r[i + 17 - j]);
                }
                for (i = 0; i < 17; i++)
                        h[i] = x[i];
                u = 0;
                for (j = 0; j < 16; j++) {
                        u += h[j];
                        h[j] = u & 255;
                        u >>= 8;
                }
                u += h[16];
                h[16] = u & 3;
                u = 5 * (u >> 2);
                for (j = 0; j < 16; j++) {
                        u += h[j];
                        h[j] = u & 255;
                        u >>= 8;
                }
                u += h[16];
                h[16] = u;
        }

        /* full reduction: if h >= p then h -= p (add 2^136 - p and test bit) */
        for (j = 0; j < 17; j++)
                g[j] = h[j];
        poly_add(h, minusp);
        s = (uint32_t) (-(int32_t) (h[16] >> 7)); /* all ones if h was < p */
        for (j = 0; j < 17; j++)
                h[j] ^= s & (g[j] ^ h[j]);

        /* tag = (h + s) mod 2^128 */
        for (j = 0; j < 16; j++)
                c[j] = key[16 + j];
        c[16] = 0;
        poly_add(h, c);
        for (j = 0; j < 16; j++)
                out[j] = (uint8_t) h[j];
}

/* ========================================================================= */
/* CRCs - bit-by-bit polynomial division                                     */
/* ========================================================================= */

/*
 * Parameters as the library's own reference code in test/kat-app/crc_test.c
 * defines them (width, polynomial, bit order, initial value, final xor):
 *
 *  ETHERNET_FCS      32  0x04C11DB7  reflected (LSB first)  init FFFFFFFF  xorout FFFFFFFF
 *  SCTP              32  0x1EDC6F41  MSB first              init 0         xorout 0
 *                    (NOT the reflected, inverted CRC32c of RFC 3309/4960)
 *  WIMAX_OFDMA_DATA  32  0x04C11DB7  MSB first              init FFFFFFFF  xorout FFFFFFFF
 *  LTE_A             24  0x864CFB    MSB first              init 0         xorout 0
 *  LTE_B             24  0x800063    MSB first              init 0         xorout 0
 *  X25               16  0x1021      reflected (LSB first)  init FFFF      xorout FFFF
 *  FP_DATA           16  0x8005      MSB first              init 0         xorout 0
 *  FP_HEADER (11)    11  0x307       MSB first              init 0         xorout 0
 *  IUUP_DATA         10  0x233       MSB first              init 0         xorout 0
 *  WIMAX_OFDMA_HCS    8  0x07        MSB first              init 0         xorout 0
 *  FP_HEADER (7)      7  0x45        MSB first              init 0         xorout 0
 *  IUUP_HEADER        6  0x2F        MSB first              init 0         xorout 0
 *
 * The value is returned right-aligned in the uint32_t (as the library's
 * direct API and the 4-byte job tag, little-endian, do).
 */
struct crc_param {
        int width;
        uint32_t poly;
        int reflected;
        uint32_t init;
        uint32_t xorout;
};

static const struct crc_param crc_params[REF_CRC_NUM] = {
        /* REF_CRC32_ETHERNET_FCS      */ { 32, 0x04C11DB7, 1, 0xFFFFFFFF, 0xFFFFFFFF },
        /* REF_CRC32_SCTP              */ { 32, 0x1EDC6F41, 0, 0, 0 },
        /* REF_CRC32_WIMAX_OFDMA_DATA  */ { 32, 0x04C11DB7, 0, 0xFFFFFFFF, 0xFFFFFFFF },
        /* REF_CRC24_LTE_A             */ { 24, 0x864CFB, 0, 0, 0 },
        /* REF_CRC24_LTE_B             */ { 24, 0x800063, 0, 0, 0 },
        /* REF_CRC16_X25               */ { 16, 0x1021, 1, 0xFFFF, 0xFFFF },
        /* REF_CRC16_FP_DATA           */ { 16, 0x8005, 0, 0, 0 },
        /* REF_CRC11_FP_HEADER         */ { 11, 0x307, 0, 0, 0 },
        /* REF_CRC10_IUUP_DATA         */ { 10, 0x233, 0, 0, 0 },
        /* REF_CRC8_WIMAX_OFDMA_HCS    */ { 8, 0x07, 0, 0, 0 },
        /* REF_CRC7_FP_HEADER          */ { 7, 0x45, 0, 0, 0 },
        /* REF_CRC6_IUUP_HEADER        */ { 6, 0x2F, 0, 0, 0 },
};

uint32_t
ref_crc(int which, const uint8_t *msg, size_t len)
{
        const struct crc_param *p;
        uint32_t mask, reg;
        size_t i;
        int b;

        if (which < 0 || which >= REF_CRC_NUM)
                return 0;
        p = &crc_params[which];
        mask = (p->width == 32) ? 0xFFFFFFFFU : ((1U << p->width) - 1U);
        reg = p->init & mask;

        /* shift register division: message bits enter one at a time (LSB of
         * each byte first if reflected, MSB first otherwise) */
        for (i = 0; i < len; i++) {
                for (b = 0; b < 8; b++) {
                        const uint32_t inbit =
                                p->reflected ? ((msg[i] >> b) & 1U) : ((msg[i] >> (7 - b)) & 1U);
                        const uint32_t top = (reg >> (p->width - 1)) & 1U;

                        reg = (reg << 1) & mask;
                        if (top ^ inbit)
                                reg ^= p->poly;
                }
        }
        if (p->reflected) {
                uint32_t r = 0;

                for (b = 0; b < p->width; b++)
                        if (reg & (1U << b))
                                r |= 1U << (p->width - 1 - b);
                reg = r;
        }
        return (reg ^ p->xorout) & mask;
}
