/*
 * xcheck_modes.c - throw-away cross-check of the reference model (ref_modes.c)
 * against the real intel-ipsec-mb library through the job API, one job in
 * flight, on every variant reachable on the host.
 *
 * Scratch static library build (outside /repo and /verif):
 *   cmake -G Ninja -S /repo -B /tmp/refA_build -DBUILD_SHARED_LIBS=OFF \
 *         -DBUILD_LIBRARY_ONLY=ON -DCMAKE_BUILD_TYPE=RelWithDebInfo
 *   cmake --build /tmp/refA_build -j6
 * Build / run:
 *   gcc -O2 -Wno-deprecated-declarations -I/repo/lib -o /tmp/xcheck_modes \
 *       xcheck_modes.c ref_modes.c /tmp/refA_build/lib/libIPSec_MB.a -lcrypto
 *   /tmp/xcheck_modes [maxlen(600)]
 *
 * This is the only file in /verif/ref that includes the library header; the
 * reference itself never does.
 *
 * Output: one line per (algorithm, variant) with the number of comparisons,
 * "MISMATCH ..." lines (first few per algorithm/variant/kind) when the
 * library output differs from the reference, "REJECT ..." lines when the
 * library refuses an input the reference accepts, "NOTE ..." lines for
 * observed conventions. Exit status 1 if any mismatch was seen.
 */
#define _GNU_SOURCE
#include <stdio.h>
#include <stdlib.h>
#include <string.h>
#include <signal.h>
#include <unistd.h>
#include <intel-ipsec-mb.h>

#include "ref_modes.h"

/* ------------------------------------------------------------------------- */
typedef void (*init_fn)(IMB_MGR *);
static struct variant {
        const char *name;
        init_fn init;
        uint64_t flags;
        IMB_MGR *m;
} V[] = {
        { "sse(shani_off)", init_mb_mgr_sse, IMB_FLAG_SHANI_OFF, NULL },
        { "sse(gfni_off)", init_mb_mgr_sse, IMB_FLAG_GFNI_OFF, NULL },
        { "sse", init_mb_mgr_sse, 0, NULL },
        { "avx2(shani_off)", init_mb_mgr_avx2, IMB_FLAG_SHANI_OFF, NULL },
        { "avx2", init_mb_mgr_avx2, 0, NULL },
        { "avx512(shani_off)", init_mb_mgr_avx512, IMB_FLAG_SHANI_OFF, NULL },
        { "avx512", init_mb_mgr_avx512, 0, NULL },
};
#define NVAR ((int) (sizeof(V) / sizeof(V[0])))

static long n_cmp, n_bad, n_rej;
static char cur_ctx[256];

static void
on_fault(int sig)
{
        char b[400];
        int n = snprintf(b, sizeof(b), "FAULT signal %d while: %s\n", sig, cur_ctx);

        if (write(1, b, (size_t) n) < 0)
                _exit(4);
        _exit(3);
}

/* report with per-(kind,alg,variant,what) throttling */
static void
report(const char *kind, const char *alg, const char *var, const char *what, long a, long b, long c)
{
        static struct { char k[120]; int shown; } tab[2048];
        static int ntab;
        char k[200];
        int i;

        snprintf(k, sizeof(k), "%s|%s|%s|%s", kind, alg, var, what);
        k[119] = 0;
        for (i = 0; i < ntab; i++)
                if (!strcmp(tab[i].k, k))
                        break;
        if (i == ntab) {
                if (ntab == 2048)
                        return;
                strcpy(tab[ntab].k, k);
                tab[ntab].shown = 0;
                ntab++;
        }
        if (tab[i].shown < 3)
                printf("%s %-22s %-18s %-22s len=%ld p1=%ld p2=%ld\n", kind, alg, var, what, a, b, c);
        else if (tab[i].shown == 3)
                printf("%s %-22s %-18s %-22s ... (further lines suppressed)\n", kind, alg, var, what);
        tab[i].shown++;
}

static void
mismatch(const char *alg, const char *var, const char *what, long a, long b, long c)
{
        n_bad++;
        report("MISMATCH", alg, var, what, a, b, c);
}

static void
reject(const char *alg, const char *var, const char *what, long a, long b, long c)
{
        n_rej++;
        report("REJECT  ", alg, var, what, a, b, c);
}

static void
rnd(uint8_t *p, size_t n, unsigned seed)
{
        uint32_t x = 0x2545F491u * (seed + 7);
        size_t i;

        for (i = 0; i < n; i++) {
                x ^= x << 13;
                x ^= x >> 17;
                x ^= x << 5;
                p[i] = (uint8_t) (x >> 11);
        }
}

/* ------------------------------------------------------------------------- */
/* job helpers: exactly one job in flight                                    */
/* ------------------------------------------------------------------------- */
static IMB_JOB *
new_job(IMB_MGR *m)
{
        IMB_JOB *j = IMB_GET_NEXT_JOB(m);

        memset(j, 0, sizeof(*j));
        j->cipher_mode = IMB_CIPHER_NULL;
        j->hash_alg = IMB_AUTH_NULL;
        j->cipher_direction = IMB_DIR_ENCRYPT;
        j->chain_order = IMB_ORDER_CIPHER_HASH;
        return j;
}

/* returns 0 if exactly one job came back COMPLETED with errno 0, else errno or -1 */
static int
fire(IMB_MGR *m)
{
        IMB_JOB *r = IMB_SUBMIT_JOB(m);
        const int err = imb_get_errno(m);
        int got = 0, ok = 1;

        if (r != NULL) {
                got++;
                if (r->status != IMB_STATUS_COMPLETED)
                        ok = 0;
        }
        while ((r = IMB_FLUSH_JOB(m)) != NULL) {
                got++;
                if (r->status != IMB_STATUS_COMPLETED)
                        ok = 0;
        }
        if (ok && got == 1 && err == 0)
                return 0;
        return err ? err : -1;
}

/* ------------------------------------------------------------------------- */
/* ciphers                                                                   */
/* ------------------------------------------------------------------------- */
enum {
        C_ECB, C_CBC, C_CTR, C_CTRBIT, C_CFB, C_CBCS, C_DOCSIS, C_DES, C_3DES, C_DOCSIS_DES,
        C_CHACHA, C_SM4_ECB, C_SM4_CBC, C_SM4_CTR, C_NUM
};
static const char *c_name[C_NUM] = { "aes-ecb", "aes-cbc", "aes-ctr", "aes-ctr-bitlen", "aes-cfb128",
                                     "aes-cbcs-1-9", "docsis-aes", "des-cbc", "3des-cbc",
                                     "docsis-des", "chacha20", "sm4-ecb", "sm4-cbc", "sm4-ctr" };

#define MAXB 2048
#define GUARD 32

/* expanded key material, per variant (recomputed for each key) */
static struct keys {
        uint32_t aes_e[60] __attribute__((aligned(16)));
        uint32_t aes_d[60] __attribute__((aligned(16)));
        uint64_t des[3][16] __attribute__((aligned(16)));
        const void *des3[3];
        uint32_t sm4_e[32] __attribute__((aligned(16)));
        uint32_t sm4_d[32] __attribute__((aligned(16)));
        uint8_t raw[32] __attribute__((aligned(16)));
} K;

static void
expand_keys(IMB_MGR *m, int alg, const uint8_t *key, int klen)
{
        int i;

        memcpy(K.raw, key, 32);
        switch (alg) {
        case C_DES:
        case C_DOCSIS_DES:
                IMB_DES_KEYSCHED(m, K.des[0], key);
                break;
        case C_3DES:
                for (i = 0; i < 3; i++) {
                        IMB_DES_KEYSCHED(m, K.des[i], key + 8 * i);
                        K.des3[i] = K.des[i];
                }
                break;
        case C_CHACHA:
                break;
        case C_SM4_ECB:
        case C_SM4_CBC:
        case C_SM4_CTR:
                IMB_SM4_KEYEXP(m, key, K.sm4_e, K.sm4_d);
                break;
        default:
                if (klen == 16)
                        IMB_AES_KEYEXP_128(m, key, K.aes_e, K.aes_d);
                else if (klen == 24)
                        IMB_AES_KEYEXP_192(m, key, K.aes_e, K.aes_d);
                else
                        IMB_AES_KEYEXP_256(m, key, K.aes_e, K.aes_d);
                break;
        }
}

/* len is in bytes, except C_CTRBIT where it is in bits */
static int
lib_cipher(IMB_MGR *m, int alg, int enc, int klen, const uint8_t *iv, int ivlen, const uint8_t *in,
           uint8_t *out, uint64_t len, uint8_t *next_iv)
{
        IMB_JOB *j = new_job(m);

        j->cipher_direction = enc ? IMB_DIR_ENCRYPT : IMB_DIR_DECRYPT;
        j->chain_order = enc ? IMB_ORDER_CIPHER_HASH : IMB_ORDER_HASH_CIPHER;
        j->src = in;
        j->dst = out;
        j->iv = iv;
        j->iv_len_in_bytes = (uint64_t) ivlen;
        j->msg_len_to_cipher_in_bytes = len; /* same union member as _in_bits */
        j->key_len_in_bytes = (uint64_t) klen;
        j->enc_keys = K.aes_e;
        j->dec_keys = K.aes_d;
        switch (alg) {
        case C_ECB: j->cipher_mode = IMB_CIPHER_ECB; break;
        case C_CBC: j->cipher_mode = IMB_CIPHER_CBC; break;
        case C_CTR: j->cipher_mode = IMB_CIPHER_CNTR; break;
        case C_CTRBIT: j->cipher_mode = IMB_CIPHER_CNTR_BITLEN; break;
        case C_CFB:
                j->cipher_mode = IMB_CIPHER_CFB;
                j->dec_keys = K.aes_e; /* as test/kat-app/aes_cfb_test.c */
                break;
        case C_CBCS:
                j->cipher_mode = IMB_CIPHER_CBCS_1_9;
                j->cipher_fields.CBCS.next_iv = next_iv;
                break;
        case C_DOCSIS: j->cipher_mode = IMB_CIPHER_DOCSIS_SEC_BPI; break;
        case C_DES:
                j->cipher_mode = IMB_CIPHER_DES;
                j->enc_keys = K.des[0];
                j->dec_keys = K.des[0];
                break;
        case C_3DES:
                j->cipher_mode = IMB_CIPHER_DES3;
                j->enc_keys = K.des3;
                j->dec_keys = K.des3;
                break;
        case C_DOCSIS_DES:
                j->cipher_mode = IMB_CIPHER_DOCSIS_DES;
                j->enc_keys = K.des[0];
                j->dec_keys = K.des[0];
                break;
        case C_CHACHA:
                j->cipher_mode = IMB_CIPHER_CHACHA20;
                j->enc_keys = K.raw;
                j->dec_keys = K.raw;
                break;
        case C_SM4_ECB: j->cipher_mode = IMB_CIPHER_SM4_ECB; goto sm4;
        case C_SM4_CBC: j->cipher_mode = IMB_CIPHER_SM4_CBC; goto sm4;
        case C_SM4_CTR:
                j->cipher_mode = IMB_CIPHER_SM4_CNTR;
        sm4:
                j->enc_keys = K.sm4_e;
                j->dec_keys = K.sm4_d;
                break;
        }
        return fire(m);
}

static void
ref_cipher(int alg, int enc, const uint8_t *key, int klen, const uint8_t *iv, int ivlen,
           const uint8_t *in, uint8_t *out, uint64_t len, uint8_t *next_iv)
{
        switch (alg) {
        case C_ECB: ref_aes_ecb(enc, key, klen, in, out, (size_t) len); break;
        case C_CBC: ref_aes_cbc(enc, key, klen, iv, in, out, (size_t) len); break;
        case C_CTR: ref_aes_ctr(key, klen, iv, ivlen, in, out, (size_t) len); break;
        case C_CTRBIT: ref_aes_ctr_bits(key, klen, iv, ivlen, in, out, len); break;
        case C_CFB: ref_aes_cfb128(enc, key, klen, iv, in, out, (size_t) len); break;
        case C_CBCS: ref_aes_cbcs_1_9(enc, key, iv, in, out, (size_t) len, next_iv); break;
        case C_DOCSIS: ref_docsis_aes(enc, key, klen, iv, in, out, (size_t) len); break;
        case C_DES: ref_des_cbc(enc, key, iv, in, out, (size_t) len); break;
        case C_3DES: ref_3des_cbc(enc, key, iv, in, out, (size_t) len); break;
        case C_DOCSIS_DES: ref_docsis_des(enc, key, iv, in, out, (size_t) len); break;
        case C_CHACHA: ref_chacha20(key, iv, 1, in, out, (size_t) len); break;
        case C_SM4_ECB: ref_sm4_ecb(enc, key, in, out, (size_t) len); break;
        case C_SM4_CBC: ref_sm4_cbc(enc, key, iv, in, out, (size_t) len); break;
        case C_SM4_CTR: ref_sm4_ctr(key, iv, ivlen, in, out, (size_t) len); break;
        }
}

static long cbcs_skipped_untouched, cbcs_skipped_copied, cbcs_skipped_other;

/*
 * One algorithm / key length: sweep lengths lo..hi step st, both directions,
 * nkeys key values, the given IV forms, out of place (guarded, dst prefilled)
 * and in place, on every variant.
 */
struct ivform {
        int ivlen;
        int wrap; /* 1: counter block ff..fe (low 32 and low 64 bits wrap after two blocks),
                     2: random upper part, byte 11 = 7f, low 32 bits fffffffe (only the
                        low 32 bits wrap: separates 32-bit from 64-bit counters) */
};

static void
sweep_cipher(int alg, int klen, uint64_t lo, uint64_t hi, uint64_t st, const struct ivform *ivf,
             int nivf)
{
        static uint8_t in[MAXB], exp_oop[MAXB + 2 * GUARD], exp_ip[MAXB];
        static uint8_t buf[MAXB + 2 * GUARD];
        uint8_t key[32], iv[16], rniv[16], lniv[16];
        char an[64];
        long cmp_before[NVAR] = { 0 };
        long bad_before = n_bad;
        int kv, fi, enc, v;
        uint64_t len;
        long per_var = 0;

        (void) cmp_before;
        snprintf(an, sizeof(an), "%s-%d", c_name[alg], klen * 8);
        for (kv = 0; kv < 2; kv++)
                for (fi = 0; fi < nivf; fi++) {
                        rnd(key, 32, (unsigned) (alg * 100 + klen * 3 + kv));
                        rnd(iv, 16, (unsigned) (alg * 100 + klen * 3 + kv + 50));
                        if (ivf[fi].wrap == 1) {
                                /* low 32 and low 64 bits both wrap after 2 blocks */
                                memset(iv, 0xff, 16);
                                iv[15] = 0xfe;
                        } else if (ivf[fi].wrap == 2) {
                                /* only the low 32 bits wrap after 2 blocks */
                                iv[11] = 0x7f;
                                iv[12] = 0xff;
                                iv[13] = 0xff;
                                iv[14] = 0xff;
                                iv[15] = 0xfe;
                        }
                        for (v = 0; v < NVAR; v++) {
                                if (V[v].m == NULL)
                                        continue;
                                expand_keys(V[v].m, alg, key, klen);
                                for (enc = 1; enc >= 0; enc--)
                                        for (len = lo; len <= hi; len += st) {
                                                const size_t nby = alg == C_CTRBIT
                                                                           ? (size_t) ((len + 7) / 8)
                                                                           : (size_t) len;
                                                const uint8_t pre =
                                                        alg == C_CTRBIT
                                                                ? (uint8_t) (len % 3 == 0   ? 0x00
                                                                             : len % 3 == 1 ? 0xff
                                                                                            : 0xC5)
                                                                : 0xCC;
                                                int rc;
                                                size_t b;

                                                snprintf(cur_ctx, sizeof(cur_ctx),
                                                         "%s %s enc=%d len=%lu ivlen=%d wrap=%d", an,
                                                         V[v].name, enc, (unsigned long) len,
                                                         ivf[fi].ivlen, ivf[fi].wrap);
                                                rnd(in, nby, (unsigned) (len * 7 + (uint64_t) enc));

                                                /* ---- out of place ---- */
                                                memset(exp_oop, pre, nby + 2 * GUARD);
                                                memset(rniv, 0, 16);
                                                ref_cipher(alg, enc, key, klen, iv, ivf[fi].ivlen, in,
                                                           exp_oop + GUARD, len, rniv);
                                                memset(buf, pre, nby + 2 * GUARD);
                                                memset(lniv, 0, 16);
                                                rc = lib_cipher(V[v].m, alg, enc, klen, iv,
                                                                ivf[fi].ivlen, in, buf + GUARD, len,
                                                                lniv);
                                                n_cmp++;
                                                per_var++;
                                                if (rc != 0) {
                                                        reject(an, V[v].name, "oop-status", (long) len,
                                                               enc, rc);
                                                        continue;
                                                }
                                                if (alg == C_CBCS) {
                                                        /* library convention: skipped blocks of dst
                                                         * are not written out of place */
                                                        for (b = 0; b < nby / 16; b++) {
                                                                uint8_t *d = buf + GUARD + 16 * b;
                                                                size_t i, unt = 1;

                                                                if (b % 10 == 0)
                                                                        continue;
                                                                for (i = 0; i < 16; i++)
                                                                        if (d[i] != pre)
                                                                                unt = 0;
                                                                if (unt)
                                                                        cbcs_skipped_untouched++;
                                                                else if (!memcmp(d, in + 16 * b, 16))
                                                                        cbcs_skipped_copied++;
                                                                else
                                                                        cbcs_skipped_other++;
                                                                /* neutralise for the compare */
                                                                memcpy(d, exp_oop + GUARD + 16 * b,
                                                                       16);
                                                        }
                                                        if (memcmp(lniv, rniv, 16))
                                                                mismatch(an, V[v].name, "oop-next_iv",
                                                                         (long) len, enc, 0);
                                                }
                                                if (memcmp(buf + GUARD, exp_oop + GUARD, nby))
                                                        mismatch(an, V[v].name,
                                                                 enc ? "oop-enc-data" : "oop-dec-data",
                                                                 (long) len, ivf[fi].ivlen,
                                                                 ivf[fi].wrap);
                                                else if (memcmp(buf, exp_oop, GUARD) ||
                                                         memcmp(buf + GUARD + nby,
                                                                exp_oop + GUARD + nby, GUARD))
                                                        mismatch(an, V[v].name, "oop-guard-overwrite",
                                                                 (long) len, enc, 0);

                                                /* ---- in place ---- */
                                                memcpy(exp_ip, in, nby);
                                                ref_cipher(alg, enc, key, klen, iv, ivf[fi].ivlen,
                                                           exp_ip, exp_ip, len, rniv);
                                                memset(buf, 0xCC, nby + 2 * GUARD);
                                                memcpy(buf + GUARD, in, nby);
                                                rc = lib_cipher(V[v].m, alg, enc, klen, iv,
                                                                ivf[fi].ivlen, buf + GUARD,
                                                                buf + GUARD, len, lniv);
                                                n_cmp++;
                                                per_var++;
                                                if (rc != 0) {
                                                        reject(an, V[v].name, "ip-status", (long) len,
                                                               enc, rc);
                                                        continue;
                                                }
                                                if (memcmp(buf + GUARD, exp_ip, nby))
                                                        mismatch(an, V[v].name,
                                                                 enc ? "ip-enc-data" : "ip-dec-data",
                                                                 (long) len, ivf[fi].ivlen,
                                                                 ivf[fi].wrap);
                                                else if (buf[GUARD - 1] != 0xCC ||
                                                         buf[GUARD + nby] != 0xCC)
                                                        mismatch(an, V[v].name, "ip-guard-overwrite",
                                                                 (long) len, enc, 0);
                                                if (alg == C_CBCS && memcmp(lniv, rniv, 16))
                                                        mismatch(an, V[v].name, "ip-next_iv",
                                                                 (long) len, enc, 0);
                                        }
                        }
                }
        printf("done %-22s comparisons=%ld mismatches=%ld\n", an, per_var, n_bad - bad_before);
        fflush(stdout);
}

static void
test_cfb_one(void)
{
        uint8_t key[32], iv[16], in[16], exp[16], out[16 + 2];
        int v, ki, len;
        long bad0 = n_bad, n = 0;

        for (ki = 0; ki < 2; ki++) {
                const int klen = ki ? 32 : 16;

                rnd(key, 32, 900 + (unsigned) ki);
                rnd(iv, 16, 902);
                for (v = 0; v < NVAR; v++) {
                        if (V[v].m == NULL)
                                continue;
                        expand_keys(V[v].m, C_CFB, key, klen);
                        for (len = 0; len <= 16; len++) {
                                snprintf(cur_ctx, sizeof(cur_ctx), "cfb_one %d %s len=%d", klen,
                                         V[v].name, len);
                                rnd(in, 16, (unsigned) len);
                                memset(out, 0xCC, sizeof(out));
                                ref_aes_cfb128(1, key, klen, iv, in, exp, (size_t) len);
                                if (ki)
                                        IMB_AES256_CFB_ONE(V[v].m, out, in, iv, K.aes_e,
                                                           (uint64_t) len);
                                else
                                        IMB_AES128_CFB_ONE(V[v].m, out, in, iv, K.aes_e,
                                                           (uint64_t) len);
                                n++;
                                n_cmp++;
                                if (memcmp(out, exp, (size_t) len) || out[len] != 0xCC)
                                        mismatch(ki ? "aes256-cfb-one" : "aes128-cfb-one", V[v].name,
                                                 "data", len, 0, 0);
                        }
                }
        }
        printf("done %-22s comparisons=%ld mismatches=%ld\n", "aes-cfb-one(direct)", n,
               n_bad - bad0);
}

/* ------------------------------------------------------------------------- */
/* hashes / MACs                                                             */
/* ------------------------------------------------------------------------- */
static uint8_t MSG[MAXB];

/* hash-only job; returns 0 on success */
static int
lib_hash_job(IMB_MGR *m, IMB_HASH_ALG h, const uint8_t *msg, uint64_t len, uint8_t *tag, int taglen,
             void (*extra)(IMB_JOB *, void *), void *ctx)
{
        IMB_JOB *j = new_job(m);

        j->chain_order = IMB_ORDER_HASH_CIPHER;
        j->hash_alg = h;
        j->src = msg;
        j->msg_len_to_hash_in_bytes = len;
        j->auth_tag_output = tag;
        j->auth_tag_output_len_in_bytes = (uint64_t) taglen;
        if (extra != NULL)
                extra(j, ctx);
        return fire(m);
}

static void
check_tag(const char *an, const char *vn, int rc, const uint8_t *tagbuf, const uint8_t *exp,
          int taglen, long a, long b)
{
        n_cmp++;
        if (rc != 0)
                reject(an, vn, "status", a, b, rc);
        else if (memcmp(tagbuf + 16, exp, (size_t) taglen))
                mismatch(an, vn, "tag", a, b, taglen);
        else if (tagbuf[15] != 0xCC || tagbuf[16 + taglen] != 0xCC)
                mismatch(an, vn, "tag-overwrite", a, b, taglen);
}

static void
test_plain_hashes(int maxlen)
{
        static const struct { IMB_HASH_ALG h; int ref; const char *n; } H[] = {
                { IMB_AUTH_SHA_1, REF_SHA1, "sha1" },       { IMB_AUTH_SHA_224, REF_SHA224, "sha224" },
                { IMB_AUTH_SHA_256, REF_SHA256, "sha256" }, { IMB_AUTH_SHA_384, REF_SHA384, "sha384" },
                { IMB_AUTH_SHA_512, REF_SHA512, "sha512" }, { IMB_AUTH_SM3, REF_SM3, "sm3" },
        };
        uint8_t exp[64], tagbuf[16 + 64 + 16];
        int hi, v, len;

        for (hi = 0; hi < 6; hi++) {
                long bad0 = n_bad, n = 0;
                const int L = ref_hash_size(H[hi].ref);

                for (len = 0; len <= maxlen; len++) {
                        rnd(MSG, (size_t) len, 1000 + (unsigned) len);
                        ref_hash(H[hi].ref, MSG, (size_t) len, exp);
                        for (v = 0; v < NVAR; v++) {
                                int rc;

                                if (V[v].m == NULL)
                                        continue;
                                snprintf(cur_ctx, sizeof(cur_ctx), "%s %s len=%d", H[hi].n, V[v].name,
                                         len);
                                memset(tagbuf, 0xCC, sizeof(tagbuf));
                                rc = lib_hash_job(V[v].m, H[hi].h, MSG, (uint64_t) len, tagbuf + 16, L,
                                                  NULL, NULL);
                                check_tag(H[hi].n, V[v].name, rc, tagbuf, exp, L, len, 0);
                                n++;
                        }
                }
                printf("done %-22s comparisons=%ld mismatches=%ld\n", H[hi].n, n, n_bad - bad0);
        }
}

struct hmac_ctx {
        const uint8_t *ipad, *opad;
};

static void
hmac_extra(IMB_JOB *j, void *c)
{
        const struct hmac_ctx *h = c;

        j->u.HMAC._hashed_auth_key_xor_ipad = h->ipad;
        j->u.HMAC._hashed_auth_key_xor_opad = h->opad;
}

static void
test_hmac(int maxlen)
{
        static const struct { IMB_HASH_ALG h; int ref; const char *n; int trunc, full, state; } H[] = {
                { IMB_AUTH_HMAC_SHA_1, REF_SHA1, "hmac-sha1", 12, 20, 20 },
                { IMB_AUTH_HMAC_SHA_224, REF_SHA224, "hmac-sha224", 14, 28, 32 },
                { IMB_AUTH_HMAC_SHA_256, REF_SHA256, "hmac-sha256", 16, 32, 32 },
                { IMB_AUTH_HMAC_SHA_384, REF_SHA384, "hmac-sha384", 24, 48, 64 },
                { IMB_AUTH_HMAC_SHA_512, REF_SHA512, "hmac-sha512", 32, 64, 64 },
                { IMB_AUTH_MD5, REF_MD5, "hmac-md5", 12, 16, 16 },
                { IMB_AUTH_HMAC_SM3, REF_SM3, "hmac-sm3", 16, 32, 32 },
        };
        static uint8_t rip[64] __attribute__((aligned(64))), rop[64] __attribute__((aligned(64)));
        static uint8_t lip[128] __attribute__((aligned(64))), lop[128] __attribute__((aligned(64)));
        uint8_t key[256], exp[64], tagbuf[16 + 64 + 16];
        int hi, v, kl, len, ts;

        for (hi = 0; hi < 7; hi++) {
                long bad0 = n_bad, n = 0, nio = 0;
                char an[40];

                snprintf(an, sizeof(an), "%s-ipad-opad", H[hi].n);
                for (kl = 0; kl <= 150; kl++) {
                        const int dense = (kl == 0 || kl == 1 || kl == 20 || kl == 63 || kl == 64 ||
                                           kl == 65 || kl == 127 || kl == 128 || kl == 129 ||
                                           kl == 150);
                        struct hmac_ctx hc = { rip, rop };

                        rnd(key, (size_t) kl + 1, 2000 + (unsigned) kl);
                        memset(rip, 0, 64);
                        memset(rop, 0, 64);
                        ref_hmac_ipad_opad(H[hi].ref, key, (size_t) kl, rip, rop);

                        /* (a) intermediate states byte for byte */
                        for (v = 0; v < NVAR; v++) {
                                int err;

                                if (V[v].m == NULL)
                                        continue;
                                snprintf(cur_ctx, sizeof(cur_ctx), "%s %s kl=%d", an, V[v].name, kl);
                                memset(lip, 0xCC, sizeof(lip));
                                memset(lop, 0xCC, sizeof(lop));
                                imb_hmac_ipad_opad(V[v].m, H[hi].h, key, (size_t) kl, lip, lop);
                                err = imb_get_errno(V[v].m);
                                n_cmp++;
                                nio++;
                                if (err != 0 && H[hi].ref == REF_MD5 && kl > 64) {
                                        static int noted;

                                        if (!noted++)
                                                printf("NOTE imb_hmac_ipad_opad(MD5) refuses keys > 64 "
                                                       "bytes (errno %d); jobs below still use the "
                                                       "reference's RFC 2104 states\n", err);
                                        continue;
                                }
                                if (err != 0) {
                                        reject(an, V[v].name, "errno", 0, kl, err);
                                        continue;
                                }
                                if (memcmp(lip, rip, (size_t) H[hi].state))
                                        mismatch(an, V[v].name, "ipad-state", 0, kl, 0);
                                if (memcmp(lop, rop, (size_t) H[hi].state))
                                        mismatch(an, V[v].name, "opad-state", 0, kl, 0);
                                if (lip[H[hi].state] != 0xCC || lop[H[hi].state] != 0xCC)
                                        mismatch(an, V[v].name, "state-size", 0, kl, H[hi].state);
                        }

                        /* (b) HMAC jobs fed with the REFERENCE's ipad/opad */
                        for (len = 1; len <= maxlen; len += dense ? 1 : 97) {
                                const int l2 = dense ? len : 1 + (len * 31 + kl * 7) % maxlen;

                                rnd(MSG, (size_t) l2, 3000 + (unsigned) l2);
                                ref_hmac(H[hi].ref, key, (size_t) kl, MSG, (size_t) l2, exp);
                                for (v = 0; v < NVAR; v++)
                                        for (ts = 0; ts < 2; ts++) {
                                                const int tl = ts ? H[hi].full : H[hi].trunc;
                                                int rc;

                                                if (V[v].m == NULL)
                                                        continue;
                                                snprintf(cur_ctx, sizeof(cur_ctx),
                                                         "%s %s kl=%d len=%d tl=%d", H[hi].n,
                                                         V[v].name, kl, l2, tl);
                                                memset(tagbuf, 0xCC, sizeof(tagbuf));
                                                rc = lib_hash_job(V[v].m, H[hi].h, MSG, (uint64_t) l2,
                                                                  tagbuf + 16, tl, hmac_extra, &hc);
                                                check_tag(H[hi].n, V[v].name, rc, tagbuf, exp, tl, l2,
                                                          kl);
                                                n++;
                                        }
                        }
                }
                printf("done %-22s comparisons=%ld (ipad/opad %ld) mismatches=%ld\n", H[hi].n, n, nio,
                       n_bad - bad0);
                fflush(stdout);
        }
}

/* ---- XCBC / CMAC / GHASH / Poly1305 ---- */
struct xcbc_ctx {
        const uint32_t *k1e;
        const uint8_t *k2, *k3;
};
static void
xcbc_extra(IMB_JOB *j, void *c)
{
        const struct xcbc_ctx *x = c;

        j->u.XCBC._k1_expanded = x->k1e;
        j->u.XCBC._k2 = x->k2;
        j->u.XCBC._k3 = x->k3;
}

struct cmac_ctx {
        const void *ke, *s1, *s2;
        uint64_t bits; /* 0 = byte variant */
        int use_bits;
};
static void
cmac_extra(IMB_JOB *j, void *c)
{
        const struct cmac_ctx *x = c;

        j->u.CMAC._key_expanded = x->ke;
        j->u.CMAC._skey1 = x->s1;
        j->u.CMAC._skey2 = x->s2;
        if (x->use_bits)
                j->msg_len_to_hash_in_bits = x->bits;
}

struct ghash_ctx {
        const struct gcm_key_data *k;
        const void *init;
};
static void
ghash_extra(IMB_JOB *j, void *c)
{
        const struct ghash_ctx *x = c;

        j->u.GHASH._key = x->k;
        j->u.GHASH._init_tag = x->init;
}

static void
poly_extra(IMB_JOB *j, void *c)
{
        j->u.POLY1305._key = c;
}

static void
test_macs(int maxlen)
{
        static uint32_t k1e[44] __attribute__((aligned(16)));
        static uint8_t lk2[16] __attribute__((aligned(16))), lk3[16] __attribute__((aligned(16)));
        static uint8_t rk1[16] __attribute__((aligned(16))), rk2[16] __attribute__((aligned(16))),
                rk3[16] __attribute__((aligned(16)));
        static uint32_t ls1[4] __attribute__((aligned(16))), ls2[4] __attribute__((aligned(16)));
        static struct gcm_key_data gk;
        uint8_t key[32], exp[16], tagbuf[16 + 16 + 16];
        int v, len, kv, ki;
        long bad0, n;

        /* ---------------- XCBC ---------------- */
        bad0 = n_bad;
        n = 0;
        for (kv = 0; kv < 2; kv++) {
                rnd(key, 16, 4000 + (unsigned) kv);
                ref_aes_xcbc_keys(key, rk1, rk2, rk3);
                for (v = 0; v < NVAR; v++) {
                        struct xcbc_ctx xc = { k1e, rk2, rk3 };
                        uint32_t dust[44] __attribute__((aligned(16)));

                        if (V[v].m == NULL)
                                continue;
                        snprintf(cur_ctx, sizeof(cur_ctx), "xcbc keyexp %s", V[v].name);
                        IMB_AES_XCBC_KEYEXP(V[v].m, key, k1e, lk2, lk3);
                        n_cmp++;
                        if (memcmp(k1e, rk1, 16) || memcmp(lk2, rk2, 16) || memcmp(lk3, rk3, 16))
                                mismatch("aes-xcbc", V[v].name, "keyexp k1/k2/k3", 0, kv, 0);
                        /* job is fed with the reference's K1 (expanded by the lib), K2, K3 */
                        IMB_AES_KEYEXP_128(V[v].m, rk1, k1e, dust);
                        for (len = 0; len <= maxlen; len++) {
                                int rc;

                                snprintf(cur_ctx, sizeof(cur_ctx), "xcbc %s len=%d", V[v].name, len);
                                rnd(MSG, (size_t) len, 4100 + (unsigned) len);
                                ref_aes_xcbc_mac(key, MSG, (size_t) len, exp);
                                memset(tagbuf, 0xCC, sizeof(tagbuf));
                                rc = lib_hash_job(V[v].m, IMB_AUTH_AES_XCBC, MSG, (uint64_t) len,
                                                  tagbuf + 16, 12, xcbc_extra, &xc);
                                check_tag("aes-xcbc", V[v].name, rc, tagbuf, exp, 12, len, kv);
                                n++;
                        }
                }
        }
        printf("done %-22s comparisons=%ld mismatches=%ld\n", "aes-xcbc", n, n_bad - bad0);

        /* ---------------- CMAC 128 / 256 / bit length ---------------- */
        for (ki = 0; ki < 3; ki++) { /* 0: 128 bytes, 1: 256 bytes, 2: 128 bit length */
                const int klen = (ki == 1) ? 32 : 16;
                const char *an = ki == 0 ? "aes-cmac-128" : ki == 1 ? "aes-cmac-256" : "aes-cmac-bitlen";
                const IMB_HASH_ALG h = ki == 0   ? IMB_AUTH_AES_CMAC
                                       : ki == 1 ? IMB_AUTH_AES_CMAC_256
                                                 : IMB_AUTH_AES_CMAC_BITLEN;
                const int top = (ki == 2) ? 520 : maxlen;

                bad0 = n_bad;
                n = 0;
                for (kv = 0; kv < 2; kv++) {
                        rnd(key, 32, 4200 + (unsigned) (kv + 10 * ki));
                        ref_aes_cmac_subkeys(key, klen, rk1, rk2);
                        for (v = 0; v < NVAR; v++) {
                                struct cmac_ctx cc = { K.aes_e, rk1, rk2, 0, ki == 2 };

                                if (V[v].m == NULL)
                                        continue;
                                snprintf(cur_ctx, sizeof(cur_ctx), "%s subkeys %s", an, V[v].name);
                                expand_keys(V[v].m, C_ECB, key, klen);
                                if (klen == 16)
                                        IMB_AES_CMAC_SUBKEY_GEN_128(V[v].m, K.aes_e, ls1, ls2);
                                else
                                        IMB_AES_CMAC_SUBKEY_GEN_256(V[v].m, K.aes_e, ls1, ls2);
                                n_cmp++;
                                if (memcmp(ls1, rk1, 16) || memcmp(ls2, rk2, 16))
                                        mismatch(an, V[v].name, "subkeys", 0, kv, 0);
                                for (len = 0; len <= top; len++) {
                                        const size_t nby = ki == 2 ? (size_t) (len + 7) / 8
                                                                   : (size_t) len;
                                        const uint64_t bits = ki == 2 ? (uint64_t) len
                                                                      : 8 * (uint64_t) len;
                                        int tl;

                                        rnd(MSG, nby + 1, 4300 + (unsigned) len);
                                        ref_aes_cmac(key, klen, MSG, bits, exp);
                                        for (tl = 4; tl <= 16; tl += 12) {
                                                int rc;

                                                snprintf(cur_ctx, sizeof(cur_ctx), "%s %s len=%d tl=%d",
                                                         an, V[v].name, len, tl);
                                                cc.bits = bits;
                                                memset(tagbuf, 0xCC, sizeof(tagbuf));
                                                rc = lib_hash_job(V[v].m, h, MSG, (uint64_t) len,
                                                                  tagbuf + 16, tl, cmac_extra, &cc);
                                                check_tag(an, V[v].name, rc, tagbuf, exp, tl, len, kv);
                                                n++;
                                        }
                                }
                        }
                }
                printf("done %-22s comparisons=%ld mismatches=%ld\n", an, n, n_bad - bad0);
                fflush(stdout);
        }

        /* ---------------- GHASH (direct and job API) ---------------- */
        bad0 = n_bad;
        n = 0;
        for (kv = 0; kv < 2; kv++) {
                static const uint8_t zero_tag[16] = { 0 };

                rnd(key, 16, 4400 + (unsigned) kv);
                for (v = 0; v < NVAR; v++) {
                        struct ghash_ctx gc = { &gk, zero_tag };

                        if (V[v].m == NULL)
                                continue;
                        snprintf(cur_ctx, sizeof(cur_ctx), "ghash pre %s", V[v].name);
                        memset(&gk, 0, sizeof(gk));
                        IMB_GHASH_PRE(V[v].m, key, &gk);
                        for (len = 1; len <= maxlen; len++) {
                                int rc;

                                snprintf(cur_ctx, sizeof(cur_ctx), "ghash %s len=%d", V[v].name, len);
                                rnd(MSG, (size_t) len, 4500 + (unsigned) len);
                                ref_ghash(key, MSG, (size_t) len, exp);
                                memset(tagbuf, 0xCC, sizeof(tagbuf));
                                memset(tagbuf + 16, 0, 16); /* io_tag: start value */
                                IMB_GHASH(V[v].m, &gk, MSG, (uint64_t) len, tagbuf + 16, 16);
                                check_tag("ghash(direct)", V[v].name, imb_get_errno(V[v].m), tagbuf,
                                          exp, 16, len, kv);
                                memset(tagbuf, 0xCC, sizeof(tagbuf));
                                rc = lib_hash_job(V[v].m, IMB_AUTH_GHASH, MSG, (uint64_t) len,
                                                  tagbuf + 16, 16, ghash_extra, &gc);
                                check_tag("ghash(job)", V[v].name, rc, tagbuf, exp, 16, len, kv);
                                n += 2;
                        }
                }
        }
        printf("done %-22s comparisons=%ld mismatches=%ld\n", "ghash", n, n_bad - bad0);

        /* ---------------- Poly1305 ---------------- */
        bad0 = n_bad;
        n = 0;
        for (kv = 0; kv < 3; kv++) {
                static uint8_t pk[32] __attribute__((aligned(16)));

                rnd(pk, 32, 4600 + (unsigned) kv);
                if (kv == 2)
                        memset(pk, 0xff, 32);
                for (len = 0; len <= maxlen; len++) {
                        rnd(MSG, (size_t) len, 4700 + (unsigned) len);
                        if (kv == 2)
                                memset(MSG, 0xff, (size_t) len);
                        ref_poly1305(pk, MSG, (size_t) len, exp);
                        for (v = 0; v < NVAR; v++) {
                                int rc;

                                if (V[v].m == NULL)
                                        continue;
                                snprintf(cur_ctx, sizeof(cur_ctx), "poly1305 %s len=%d", V[v].name,
                                         len);
                                memset(tagbuf, 0xCC, sizeof(tagbuf));
                                rc = lib_hash_job(V[v].m, IMB_AUTH_POLY1305, MSG, (uint64_t) len,
                                                  tagbuf + 16, 16, poly_extra, pk);
                                check_tag("poly1305", V[v].name, rc, tagbuf, exp, 16, len, kv);
                                n++;
                        }
                }
        }
        printf("done %-22s comparisons=%ld mismatches=%ld\n", "poly1305", n, n_bad - bad0);
        fflush(stdout);
}

/* ---- CRCs: job API (4-byte little-endian tag) and direct API ---- */
static uint32_t
lib_crc_direct(IMB_MGR *m, int which, const uint8_t *p, uint64_t len)
{
        switch (which) {
        case REF_CRC32_ETHERNET_FCS: return IMB_CRC32_ETHERNET_FCS(m, p, len);
        case REF_CRC32_SCTP: return IMB_CRC32_SCTP(m, p, len);
        case REF_CRC32_WIMAX_OFDMA_DATA: return IMB_CRC32_WIMAX_OFDMA_DATA(m, p, len);
        case REF_CRC24_LTE_A: return IMB_CRC24_LTE_A(m, p, len);
        case REF_CRC24_LTE_B: return IMB_CRC24_LTE_B(m, p, len);
        case REF_CRC16_X25: return IMB_CRC16_X25(m, p, len);
        case REF_CRC16_FP_DATA: return IMB_CRC16_FP_DATA(m, p, len);
        case REF_CRC11_FP_HEADER: return IMB_CRC11_FP_HEADER(m, p, len);
        case REF_CRC10_IUUP_DATA: return IMB_CRC10_IUUP_DATA(m, p, len);
        case REF_CRC8_WIMAX_OFDMA_HCS: return IMB_CRC8_WIMAX_OFDMA_HCS(m, p, len);
        case REF_CRC7_FP_HEADER: return IMB_CRC7_FP_HEADER(m, p, len);
        default: return IMB_CRC6_IUUP_HEADER(m, p, len);
        }
}

static void
test_crcs(int maxlen)
{
        static const IMB_HASH_ALG H[REF_CRC_NUM] = {
                IMB_AUTH_CRC32_ETHERNET_FCS, IMB_AUTH_CRC32_SCTP, IMB_AUTH_CRC32_WIMAX_OFDMA_DATA,
                IMB_AUTH_CRC24_LTE_A, IMB_AUTH_CRC24_LTE_B, IMB_AUTH_CRC16_X25,
                IMB_AUTH_CRC16_FP_DATA, IMB_AUTH_CRC11_FP_HEADER, IMB_AUTH_CRC10_IUUP_DATA,
                IMB_AUTH_CRC8_WIMAX_OFDMA_HCS, IMB_AUTH_CRC7_FP_HEADER, IMB_AUTH_CRC6_IUUP_HEADER
        };
        static const char *N[REF_CRC_NUM] = { "crc32-ethernet-fcs", "crc32-sctp", "crc32-wimax-data",
                                              "crc24-lte-a", "crc24-lte-b", "crc16-x25",
                                              "crc16-fp-data", "crc11-fp-header", "crc10-iuup-data",
                                              "crc8-wimax-hcs", "crc7-fp-header", "crc6-iuup-header" };
        uint8_t exp[4], tagbuf[16 + 4 + 16];
        int w, v, len;

        for (w = 0; w < REF_CRC_NUM; w++) {
                long bad0 = n_bad, n = 0;

                for (len = 0; len <= maxlen; len++) {
                        uint32_t r;

                        rnd(MSG, (size_t) len, 5000 + (unsigned) (len * 3 + w));
                        r = ref_crc(w, MSG, (size_t) len);
                        exp[0] = (uint8_t) r;
                        exp[1] = (uint8_t) (r >> 8);
                        exp[2] = (uint8_t) (r >> 16);
                        exp[3] = (uint8_t) (r >> 24);
                        for (v = 0; v < NVAR; v++) {
                                int rc;
                                uint32_t d;

                                if (V[v].m == NULL)
                                        continue;
                                snprintf(cur_ctx, sizeof(cur_ctx), "%s %s len=%d", N[w], V[v].name,
                                         len);
                                memset(tagbuf, 0xCC, sizeof(tagbuf));
                                rc = lib_hash_job(V[v].m, H[w], MSG, (uint64_t) len, tagbuf + 16, 4,
                                                  NULL, NULL);
                                check_tag(N[w], V[v].name, rc, tagbuf, exp, 4, len, 0);
                                d = lib_crc_direct(V[v].m, w, MSG, (uint64_t) len);
                                n_cmp++;
                                if (d != r)
                                        mismatch(N[w], V[v].name, "direct-api", len, (long) d,
                                                 (long) r);
                                n += 2;
                        }
                }
                printf("done %-22s comparisons=%ld mismatches=%ld\n", N[w], n, n_bad - bad0);
        }
        fflush(stdout);
}

/* documented-rejection probes: informational */
static void
probe_domain(void)
{
        uint8_t key[32], iv[16], in[64], out[64], niv[16];
        IMB_MGR *m = NULL;
        int v, rc;

        for (v = NVAR - 1; v >= 0; v--)
                if (V[v].m != NULL)
                        m = V[v].m;
        if (m == NULL)
                return;
        rnd(key, 32, 1);
        rnd(iv, 16, 2);
        rnd(in, 64, 3);
        snprintf(cur_ctx, sizeof(cur_ctx), "domain probes");
        expand_keys(m, C_ECB, key, 16);
        memset(out, 0xCC, 64);
        rc = lib_cipher(m, C_DOCSIS, 1, 16, iv, 16, in, out, 0, niv);
        printf("NOTE docsis-aes len 0: rc=%d, dst[0] %s\n", rc, out[0] == 0xCC ? "untouched" : "WRITTEN");
        expand_keys(m, C_DOCSIS_DES, key, 8);
        rc = lib_cipher(m, C_DOCSIS_DES, 1, 8, iv, 8, in, out, 0, niv);
        printf("NOTE docsis-des len 0: rc=%d (%s)\n", rc, rc ? imb_get_strerror(rc) : "accepted");
        expand_keys(m, C_ECB, key, 24);
        rc = lib_cipher(m, C_DOCSIS, 1, 24, iv, 16, in, out, 20, niv);
        printf("NOTE docsis-aes 192-bit key: rc=%d (%s)\n", rc, rc ? imb_get_strerror(rc) : "accepted");
        expand_keys(m, C_ECB, key, 16);
        rc = lib_cipher(m, C_CTRBIT, 1, 16, iv, 12, in, out, 100, niv);
        printf("NOTE ctr-bitlen 12-byte IV: rc=%d (%s)\n", rc, rc ? imb_get_strerror(rc) : "accepted");
        rc = lib_cipher(m, C_CBCS, 1, 16, iv, 16, in, out, 24, niv);
        printf("NOTE cbcs len 24 (not multiple of 16): rc=%d (%s)\n", rc,
               rc ? imb_get_strerror(rc) : "accepted");
        rc = lib_cipher(m, C_CFB, 1, 16, iv, 16, in, out, 20, niv);
        printf("NOTE cfb job len 20 (not multiple of 16): rc=%d (%s)\n", rc,
               rc ? imb_get_strerror(rc) : "accepted");
        {
                uint8_t lip[64], lop[64];

                rnd(in, 64, 9);
                imb_hmac_ipad_opad(m, IMB_AUTH_MD5, in, 65, lip, lop);
                rc = imb_get_errno(m);
                printf("NOTE imb_hmac_ipad_opad MD5 key 65 bytes: errno=%d (%s)\n", rc,
                       rc ? imb_get_strerror(rc) : "accepted");
        }
}

int
main(int argc, char **argv)
{
        const int maxlen = argc > 1 ? atoi(argv[1]) : 600;
        static const struct ivform iv16[] = { { 16, 0 } };
        static const struct ivform iv8[] = { { 8, 0 } };
        static const struct ivform iv12[] = { { 12, 0 } };
        static const struct ivform ctr_forms[] = { { 12, 0 }, { 16, 0 }, { 16, 1 }, { 16, 2 } };
        static const struct ivform ctrbit_forms[] = { { 16, 0 }, { 16, 1 }, { 16, 2 } };
        int v, k;

        signal(SIGSEGV, on_fault);
        signal(SIGBUS, on_fault);
        signal(SIGILL, on_fault);
        setvbuf(stdout, NULL, _IOLBF, 0);

        for (v = 0; v < NVAR; v++) {
                IMB_MGR *m = alloc_mb_mgr(V[v].flags);

                if (m == NULL)
                        continue;
                V[v].init(m);
                if (imb_get_errno(m) != 0) {
                        printf("variant %s not available: %s\n", V[v].name,
                               imb_get_strerror(imb_get_errno(m)));
                        free_mb_mgr(m);
                        continue;
                }
                V[v].m = m;
                printf("variant %-18s arch=%d type=%d\n", V[v].name, (int) m->used_arch,
                       (int) m->used_arch_type);
        }

        probe_domain();

        for (k = 16; k <= 32; k += 8) {
                sweep_cipher(C_ECB, k, 16, (uint64_t) maxlen, 16, iv16, 1);
                sweep_cipher(C_CBC, k, 16, (uint64_t) maxlen, 16, iv16, 1);
                sweep_cipher(C_CTR, k, 1, (uint64_t) maxlen, 1, ctr_forms, 4);
                sweep_cipher(C_CTRBIT, k, 1, 520, 1, ctrbit_forms, 3);
                sweep_cipher(C_CTRBIT, k, 4000, 4200, 1, ctrbit_forms, 1);
                sweep_cipher(C_CFB, k, 16, (uint64_t) maxlen, 16, iv16, 1);
                if (k != 24)
                        sweep_cipher(C_DOCSIS, k, 0, (uint64_t) maxlen, 1, iv16, 1);
        }
        test_cfb_one();
        sweep_cipher(C_CBCS, 16, 16, 960 > maxlen ? 960 : (uint64_t) maxlen, 16, iv16, 1);
        printf("NOTE cbcs out-of-place skipped blocks: untouched=%ld copied-from-src=%ld other=%ld\n",
               cbcs_skipped_untouched, cbcs_skipped_copied, cbcs_skipped_other);
        sweep_cipher(C_DES, 8, 8, (uint64_t) maxlen, 8, iv8, 1);
        sweep_cipher(C_3DES, 24, 8, (uint64_t) maxlen, 8, iv8, 1);
        sweep_cipher(C_DOCSIS_DES, 8, 1, (uint64_t) maxlen, 1, iv8, 1);
        sweep_cipher(C_CHACHA, 32, 1, (uint64_t) maxlen, 1, iv12, 1);
        sweep_cipher(C_SM4_ECB, 16, 16, (uint64_t) maxlen, 16, iv16, 1);
        sweep_cipher(C_SM4_CBC, 16, 16, (uint64_t) maxlen, 16, iv16, 1);
        sweep_cipher(C_SM4_CTR, 16, 1, (uint64_t) maxlen, 1, ctr_forms, 4);

        test_plain_hashes(maxlen);
        test_hmac(maxlen);
        test_macs(maxlen);
        test_crcs(maxlen);

        printf("TOTAL comparisons=%ld mismatches=%ld rejects=%ld\n", n_cmp, n_bad, n_rej);
        for (v = 0; v < NVAR; v++)
                if (V[v].m != NULL)
                        free_mb_mgr(V[v].m);
        return n_bad ? 1 : 0;
}
