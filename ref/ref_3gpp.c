/*
 * ref_3gpp.c - independent, boring, scalar reference implementations of
 *
 *   ZUC-128 EEA3 / EIA3   ETSI/SAGE "Specification of the 3GPP Confidentiality and
 *                         Integrity Algorithms 128-EEA3 & 128-EIA3", doc 1 (v1.1, IV
 *                         building, EIA3 v1.6 tag rule) and doc 2 (ZUC v1.6)
 *   ZUC-256               "The ZUC-256 Stream Cipher" (ZUC design team, 2018)
 *   SNOW 3G UEA2 / UIA2   ETSI/SAGE "Specification of the 3GPP Confidentiality and
 *                         Integrity Algorithms UEA2 & UIA2", doc 1 and doc 2 (v1.1)
 *   KASUMI f8 / f9        3GPP TS 35.201 (f8, f9) and TS 35.202 (KASUMI)
 *   SNOW-V, SNOW-V-GCM    Ekdahl, Johansson, Maximov, Yang: "A new SNOW stream cipher
 *                         called SNOW-V", ToSC 2019(3)
 *
 * Purpose: test oracle for intel-ipsec-mb. Nothing in this file reads, includes or
 * links anything from the library. The constant tables below are FROZEN literal
 * copies (values cross-checked against the pinned library tree when this file was
 * generated, see the comment in front of them). All algorithms are written from the
 * specifications in plain C: one bit / byte / word at a time, no SIMD, no tables
 * other than the specification S-boxes, heap buffers where a keystream has to be
 * kept.
 *
 * Build: gcc -O2 -c ref_3gpp.c      (no external dependency; the self-test links
 *        -lcrypto only because the common build line says so)
 *
 * Bit numbering everywhere: bit 0 of a message is the most significant bit of byte 0
 * (3GPP convention).
 */

#include <stdint.h>
#include <stddef.h>
#include <stdlib.h>
#include <string.h>

#include "ref_3gpp.h"

/* ------------------------------------------------------------------------------------------
 * FROZEN CONSTANT TABLES
 *
 * ZUC_S0 / ZUC_S1   ZUC v1.6 section 3.4.1 S-boxes S0 and S1.
 *                   (the pinned library has no literal copy: S0 was regenerated from the
 *                   P1/P2/P3 4-bit tables of lib/include/zuc_sbox.inc, S1 from the affine
 *                   maps around the AES S-box in the same file; first rows compared with
 *                   the specification print-out)
 * AES_SBOX          FIPS-197 S-box = SNOW 3G S-box "SR" (Rijndael) = SNOW-V AES round S-box.
 * SNOW3G_SQ         SNOW 3G S-box "SQ" (low byte of lib/x86_64/snow3g_tables.c
 *                   snow3g_table_S2[]; inverse-SR(SQ) matched snow3g_invSR_SQ[]).
 * KASUMI_S7 / S9    TS 35.202 section 4.5 (decoded from sso_kasumi_S7e / S9e in
 *                   lib/include/kasumi_internal.h).
 * ------------------------------------------------------------------------------------------ */
static const uint8_t ZUC_S0[256] = {
	0x3e, 0x72, 0x5b, 0x47, 0xca, 0xe0, 0x00, 0x33, 0x04, 0xd1, 0x54, 0x98, 0x09, 0xb9, 0x6d, 0xcb,
	0x7b, 0x1b, 0xf9, 0x32, 0xaf, 0x9d, 0x6a, 0xa5, 0xb8, 0x2d, 0xfc, 0x1d, 0x08, 0x53, 0x03, 0x90,
	0x4d, 0x4e, 0x84, 0x99, 0xe4, 0xce, 0xd9, 0x91, 0xdd, 0xb6, 0x85, 0x48, 0x8b, 0x29, 0x6e, 0xac,
	0xcd, 0xc1, 0xf8, 0x1e, 0x73, 0x43, 0x69, 0xc6, 0xb5, 0xbd, 0xfd, 0x39, 0x63, 0x20, 0xd4, 0x38,
	0x76, 0x7d, 0xb2, 0xa7, 0xcf, 0xed, 0x57, 0xc5, 0xf3, 0x2c, 0xbb, 0x14, 0x21, 0x06, 0x55, 0x9b,
	0xe3, 0xef, 0x5e, 0x31, 0x4f, 0x7f, 0x5a, 0xa4, 0x0d, 0x82, 0x51, 0x49, 0x5f, 0xba, 0x58, 0x1c,
	0x4a, 0x16, 0xd5, 0x17, 0xa8, 0x92, 0x24, 0x1f, 0x8c, 0xff, 0xd8, 0xae, 0x2e, 0x01, 0xd3, 0xad,
	0x3b, 0x4b, 0xda, 0x46, 0xeb, 0xc9, 0xde, 0x9a, 0x8f, 0x87, 0xd7, 0x3a, 0x80, 0x6f, 0x2f, 0xc8,
	0xb1, 0xb4, 0x37, 0xf7, 0x0a, 0x22, 0x13, 0x28, 0x7c, 0xcc, 0x3c, 0x89, 0xc7, 0xc3, 0x96, 0x56,
	0x07, 0xbf, 0x7e, 0xf0, 0x0b, 0x2b, 0x97, 0x52, 0x35, 0x41, 0x79, 0x61, 0xa6, 0x4c, 0x10, 0xfe,
	0xbc, 0x26, 0x95, 0x88, 0x8a, 0xb0, 0xa3, 0xfb, 0xc0, 0x18, 0x94, 0xf2, 0xe1, 0xe5, 0xe9, 0x5d,
	0xd0, 0xdc, 0x11, 0x66, 0x64, 0x5c, 0xec, 0x59, 0x42, 0x75, 0x12, 0xf5, 0x74, 0x9c, 0xaa, 0x23,
	0x0e, 0x86, 0xab, 0xbe, 0x2a, 0x02, 0xe7, 0x67, 0xe6, 0x44, 0xa2, 0x6c, 0xc2, 0x93, 0x9f, 0xf1,
	0xf6, 0xfa, 0x36, 0xd2, 0x50, 0x68, 0x9e, 0x62, 0x71, 0x15, 0x3d, 0xd6, 0x40, 0xc4, 0xe2, 0x0f,
	0x8e, 0x83, 0x77, 0x6b, 0x25, 0x05, 0x3f, 0x0c, 0x30, 0xea, 0x70, 0xb7, 0xa1, 0xe8, 0xa9, 0x65,
	0x8d, 0x27, 0x1a, 0xdb, 0x81, 0xb3, 0xa0, 0xf4, 0x45, 0x7a, 0x19, 0xdf, 0xee, 0x78, 0x34, 0x60
};
static const uint8_t ZUC_S1[256] = {
	0x55, 0xc2, 0x63, 0x71, 0x3b, 0xc8, 0x47, 0x86, 0x9f, 0x3c, 0xda, 0x5b, 0x29, 0xaa, 0xfd, 0x77,
	0x8c, 0xc5, 0x94, 0x0c, 0xa6, 0x1a, 0x13, 0x00, 0xe3, 0xa8, 0x16, 0x72, 0x40, 0xf9, 0xf8, 0x42,
	0x44, 0x26, 0x68, 0x96, 0x81, 0xd9, 0x45, 0x3e, 0x10, 0x76, 0xc6, 0xa7, 0x8b, 0x39, 0x43, 0xe1,
	0x3a, 0xb5, 0x56, 0x2a, 0xc0, 0x6d, 0xb3, 0x05, 0x22, 0x66, 0xbf, 0xdc, 0x0b, 0xfa, 0x62, 0x48,
	0xdd, 0x20, 0x11, 0x06, 0x36, 0xc9, 0xc1, 0xcf, 0xf6, 0x27, 0x52, 0xbb, 0x69, 0xf5, 0xd4, 0x87,
	0x7f, 0x84, 0x4c, 0xd2, 0x9c, 0x57, 0xa4, 0xbc, 0x4f, 0x9a, 0xdf, 0xfe, 0xd6, 0x8d, 0x7a, 0xeb,
	0x2b, 0x53, 0xd8, 0x5c, 0xa1, 0x14, 0x17, 0xfb, 0x23, 0xd5, 0x7d, 0x30, 0x67, 0x73, 0x08, 0x09,
	0xee, 0xb7, 0x70, 0x3f, 0x61, 0xb2, 0x19, 0x8e, 0x4e, 0xe5, 0x4b, 0x93, 0x8f, 0x5d, 0xdb, 0xa9,
	0xad, 0xf1, 0xae, 0x2e, 0xcb, 0x0d, 0xfc, 0xf4, 0x2d, 0x46, 0x6e, 0x1d, 0x97, 0xe8, 0xd1, 0xe9,
	0x4d, 0x37, 0xa5, 0x75, 0x5e, 0x83, 0x9e, 0xab, 0x82, 0x9d, 0xb9, 0x1c, 0xe0, 0xcd, 0x49, 0x89,
	0x01, 0xb6, 0xbd, 0x58, 0x24, 0xa2, 0x5f, 0x38, 0x78, 0x99, 0x15, 0x90, 0x50, 0xb8, 0x95, 0xe4,
	0xd0, 0x91, 0xc7, 0xce, 0xed, 0x0f, 0xb4, 0x6f, 0xa0, 0xcc, 0xf0, 0x02, 0x4a, 0x79, 0xc3, 0xde,
	0xa3, 0xef, 0xea, 0x51, 0xe6, 0x6b, 0x18, 0xec, 0x1b, 0x2c, 0x80, 0xf7, 0x74, 0xe7, 0xff, 0x21,
	0x5a, 0x6a, 0x54, 0x1e, 0x41, 0x31, 0x92, 0x35, 0xc4, 0x33, 0x07, 0x0a, 0xba, 0x7e, 0x0e, 0x34,
	0x88, 0xb1, 0x98, 0x7c, 0xf3, 0x3d, 0x60, 0x6c, 0x7b, 0xca, 0xd3, 0x1f, 0x32, 0x65, 0x04, 0x28,
	0x64, 0xbe, 0x85, 0x9b, 0x2f, 0x59, 0x8a, 0xd7, 0xb0, 0x25, 0xac, 0xaf, 0x12, 0x03, 0xe2, 0xf2
};
static const uint8_t AES_SBOX[256] = {
	0x63, 0x7c, 0x77, 0x7b, 0xf2, 0x6b, 0x6f, 0xc5, 0x30, 0x01, 0x67, 0x2b, 0xfe, 0xd7, 0xab, 0x76,
	0xca, 0x82, 0xc9, 0x7d, 0xfa, 0x59, 0x47, 0xf0, 0xad, 0xd4, 0xa2, 0xaf, 0x9c, 0xa4, 0x72, 0xc0,
	0xb7, 0xfd, 0x93, 0x26, 0x36, 0x3f, 0xf7, 0xcc, 0x34, 0xa5, 0xe5, 0xf1, 0x71, 0xd8, 0x31, 0x15,
	0x04, 0xc7, 0x23, 0xc3, 0x18, 0x96, 0x05, 0x9a, 0x07, 0x12, 0x80, 0xe2, 0xeb, 0x27, 0xb2, 0x75,
	0x09, 0x83, 0x2c, 0x1a, 0x1b, 0x6e, 0x5a, 0xa0, 0x52, 0x3b, 0xd6, 0xb3, 0x29, 0xe3, 0x2f, 0x84,
	0x53, 0xd1, 0x00, 0xed, 0x20, 0xfc, 0xb1, 0x5b, 0x6a, 0xcb, 0xbe, 0x39, 0x4a, 0x4c, 0x58, 0xcf,
	0xd0, 0xef, 0xaa, 0xfb, 0x43, 0x4d, 0x33, 0x85, 0x45, 0xf9, 0x02, 0x7f, 0x50, 0x3c, 0x9f, 0xa8,
	0x51, 0xa3, 0x40, 0x8f, 0x92, 0x9d, 0x38, 0xf5, 0xbc, 0xb6, 0xda, 0x21, 0x10, 0xff, 0xf3, 0xd2,
	0xcd, 0x0c, 0x13, 0xec, 0x5f, 0x97, 0x44, 0x17, 0xc4, 0xa7, 0x7e, 0x3d, 0x64, 0x5d, 0x19, 0x73,
	0x60, 0x81, 0x4f, 0xdc, 0x22, 0x2a, 0x90, 0x88, 0x46, 0xee, 0xb8, 0x14, 0xde, 0x5e, 0x0b, 0xdb,
	0xe0, 0x32, 0x3a, 0x0a, 0x49, 0x06, 0x24, 0x5c, 0xc2, 0xd3, 0xac, 0x62, 0x91, 0x95, 0xe4, 0x79,
	0xe7, 0xc8, 0x37, 0x6d, 0x8d, 0xd5, 0x4e, 0xa9, 0x6c, 0x56, 0xf4, 0xea, 0x65, 0x7a, 0xae, 0x08,
	0xba, 0x78, 0x25, 0x2e, 0x1c, 0xa6, 0xb4, 0xc6, 0xe8, 0xdd, 0x74, 0x1f, 0x4b, 0xbd, 0x8b, 0x8a,
	0x70, 0x3e, 0xb5, 0x66, 0x48, 0x03, 0xf6, 0x0e, 0x61, 0x35, 0x57, 0xb9, 0x86, 0xc1, 0x1d, 0x9e,
	0xe1, 0xf8, 0x98, 0x11, 0x69, 0xd9, 0x8e, 0x94, 0x9b, 0x1e, 0x87, 0xe9, 0xce, 0x55, 0x28, 0xdf,
	0x8c, 0xa1, 0x89, 0x0d, 0xbf, 0xe6, 0x42, 0x68, 0x41, 0x99, 0x2d, 0x0f, 0xb0, 0x54, 0xbb, 0x16
};
static const uint8_t SNOW3G_SQ[256] = {
	0x25, 0x24, 0x73, 0x67, 0xd7, 0xae, 0x5c, 0x30, 0xa4, 0xee, 0x6e, 0xcb, 0x7d, 0xb5, 0x82, 0xdb,
	0xe4, 0x8e, 0x48, 0x49, 0x4f, 0x5d, 0x6a, 0x78, 0x70, 0x88, 0xe8, 0x5f, 0x5e, 0x84, 0x65, 0xe2,
	0xd8, 0xe9, 0xcc, 0xed, 0x40, 0x2f, 0x11, 0x28, 0x57, 0xd2, 0xac, 0xe3, 0x4a, 0x15, 0x1b, 0xb9,
	0xb2, 0x80, 0x85, 0xa6, 0x2e, 0x02, 0x47, 0x29, 0x07, 0x4b, 0x0e, 0xc1, 0x51, 0xaa, 0x89, 0xd4,
	0xca, 0x01, 0x46, 0xb3, 0xef, 0xdd, 0x44, 0x7b, 0xc2, 0x7f, 0xbe, 0xc3, 0x9f, 0x20, 0x4c, 0x64,
	0x83, 0xa2, 0x68, 0x42, 0x13, 0xb4, 0x41, 0xcd, 0xba, 0xc6, 0xbb, 0x6d, 0x4d, 0x71, 0x21, 0xf4,
	0x8d, 0xb0, 0xe5, 0x93, 0xfe, 0x8f, 0xe6, 0xcf, 0x43, 0x45, 0x31, 0x22, 0x37, 0x36, 0x96, 0xfa,
	0xbc, 0x0f, 0x08, 0x52, 0x1d, 0x55, 0x1a, 0xc5, 0x4e, 0x23, 0x69, 0x7a, 0x92, 0xff, 0x5b, 0x5a,
	0xeb, 0x9a, 0x1c, 0xa9, 0xd1, 0x7e, 0x0d, 0xfc, 0x50, 0x8a, 0xb6, 0x62, 0xf5, 0x0a, 0xf8, 0xdc,
	0x03, 0x3c, 0x0c, 0x39, 0xf1, 0xb8, 0xf3, 0x3d, 0xf2, 0xd5, 0x97, 0x66, 0x81, 0x32, 0xa0, 0x00,
	0x06, 0xce, 0xf6, 0xea, 0xb7, 0x17, 0xf7, 0x8c, 0x79, 0xd6, 0xa7, 0xbf, 0x8b, 0x3f, 0x1f, 0x53,
	0x63, 0x75, 0x35, 0x2c, 0x60, 0xfd, 0x27, 0xd3, 0x94, 0xa5, 0x7c, 0xa1, 0x05, 0x58, 0x2d, 0xbd,
	0xd9, 0xc7, 0xaf, 0x6b, 0x54, 0x0b, 0xe0, 0x38, 0x04, 0xc8, 0x9d, 0xe7, 0x14, 0xb1, 0x87, 0x9c,
	0xdf, 0x6f, 0xf9, 0xda, 0x2a, 0xc4, 0x59, 0x16, 0x74, 0x91, 0xab, 0x26, 0x61, 0x76, 0x34, 0x2b,
	0xad, 0x99, 0xfb, 0x72, 0xec, 0x33, 0x12, 0xde, 0x98, 0x3b, 0xc0, 0x9b, 0x3e, 0x18, 0x10, 0x3a,
	0x56, 0xe1, 0x77, 0xc9, 0x1e, 0x9e, 0x95, 0xa3, 0x90, 0x19, 0xa8, 0x6c, 0x09, 0xd0, 0xf0, 0x86
};
static const uint8_t KASUMI_S7[128] = {
	 54,  50,  62,  56,  22,  34,  94,  96,  38,   6,  63,  93,   2,  18, 123,  33,
	 55, 113,  39, 114,  21,  67,  65,  12,  47,  73,  46,  27,  25, 111, 124,  81,
	 53,   9, 121,  79,  52,  60,  58,  48, 101, 127,  40, 120, 104,  70,  71,  43,
	 20, 122,  72,  61,  23, 109,  13, 100,  77,   1,  16,   7,  82,  10, 105,  98,
	117, 116,  76,  11,  89, 106,   0, 125, 118,  99,  86,  69,  30,  57, 126,  87,
	112,  51,  17,   5,  95,  14,  90,  84,  91,   8,  35, 103,  32,  97,  28,  66,
	102,  31,  26,  45,  75,   4,  85,  92,  37,  74,  80,  49,  68,  29, 115,  44,
	 64, 107, 108,  24, 110,  83,  36,  78,  42,  19,  15,  41,  88, 119,  59,   3
};
static const uint16_t KASUMI_S9[512] = {
	167, 239, 161, 379, 391, 334,   9, 338,  38, 226,  48, 358, 452, 385,  90, 397,
	183, 253, 147, 331, 415, 340,  51, 362, 306, 500, 262,  82, 216, 159, 356, 177,
	175, 241, 489,  37, 206,  17,   0, 333,  44, 254, 378,  58, 143, 220,  81, 400,
	 95,   3, 315, 245,  54, 235, 218, 405, 472, 264, 172, 494, 371, 290, 399,  76,
	165, 197, 395, 121, 257, 480, 423, 212, 240,  28, 462, 176, 406, 507, 288, 223,
	501, 407, 249, 265,  89, 186, 221, 428, 164,  74, 440, 196, 458, 421, 350, 163,
	232, 158, 134, 354,  13, 250, 491, 142, 191,  69, 193, 425, 152, 227, 366, 135,
	344, 300, 276, 242, 437, 320, 113, 278,  11, 243,  87, 317,  36,  93, 496,  27,
	487, 446, 482,  41,  68, 156, 457, 131, 326, 403, 339,  20,  39, 115, 442, 124,
	475, 384, 508,  53, 112, 170, 479, 151, 126, 169,  73, 268, 279, 321, 168, 364,
	363, 292,  46, 499, 393, 327, 324,  24, 456, 267, 157, 460, 488, 426, 309, 229,
	439, 506, 208, 271, 349, 401, 434, 236,  16, 209, 359,  52,  56, 120, 199, 277,
	465, 416, 252, 287, 246,   6,  83, 305, 420, 345, 153, 502,  65,  61, 244, 282,
	173, 222, 418,  67, 386, 368, 261, 101, 476, 291, 195, 430,  49,  79, 166, 330,
	280, 383, 373, 128, 382, 408, 155, 495, 367, 388, 274, 107, 459, 417,  62, 454,
	132, 225, 203, 316, 234,  14, 301,  91, 503, 286, 424, 211, 347, 307, 140, 374,
	 35, 103, 125, 427,  19, 214, 453, 146, 498, 314, 444, 230, 256, 329, 198, 285,
	 50, 116,  78, 410,  10, 205, 510, 171, 231,  45, 139, 467,  29,  86, 505,  32,
	 72,  26, 342, 150, 313, 490, 431, 238, 411, 325, 149, 473,  40, 119, 174, 355,
	185, 233, 389,  71, 448, 273, 372,  55, 110, 178, 322,  12, 469, 392, 369, 190,
	  1, 109, 375, 137, 181,  88,  75, 308, 260, 484,  98, 272, 370, 275, 412, 111,
	336, 318,   4, 504, 492, 259, 304,  77, 337, 435,  21, 357, 303, 332, 483,  18,
	 47,  85,  25, 497, 474, 289, 100, 269, 296, 478, 270, 106,  31, 104, 433,  84,
	414, 486, 394,  96,  99, 154, 511, 148, 413, 361, 409, 255, 162, 215, 302, 201,
	266, 351, 343, 144, 441, 365, 108, 298, 251,  34, 182, 509, 138, 210, 335, 133,
	311, 352, 328, 141, 396, 346, 123, 319, 450, 281, 429, 228, 443, 481,  92, 404,
	485, 422, 248, 297,  23, 213, 130, 466,  22, 217, 283,  70, 294, 360, 419, 127,
	312, 377,   7, 468, 194,   2, 117, 295, 463, 258, 224, 447, 247, 187,  80, 398,
	284, 353, 105, 390, 299, 471, 470, 184,  57, 200, 348,  63, 204, 188,  33, 451,
	 97,  30, 310, 219,  94, 160, 129, 493,  64, 179, 263, 102, 189, 207, 114, 402,
	438, 477, 387, 122, 192,  42, 381,   5, 145, 118, 180, 449, 293, 323, 136, 380,
	 43,  66,  60, 455, 341, 445, 202, 432,   8, 237,  15, 376, 436, 464,  59, 461
};
/* ZUC-128 key loading constants d0..d15 (15 bits each), ZUC v1.6 section 3.5 */
static const uint16_t ZUC128_D[16] = {
	0x44D7, 0x26BC, 0x626B, 0x135E, 0x5789, 0x35E2, 0x7135, 0x09AF,
	0x4D78, 0x2F13, 0x6BC4, 0x1AF1, 0x5E26, 0x3C4D, 0x789A, 0x47AC
};

/*
 * ZUC-256 key loading constants d0..d15 (7 bits each), ZUC-256 paper section 2.
 * Row 0: keystream generation (encryption); rows 1..3: MAC with 32-, 64-, 128-bit tag.
 */
static const uint8_t ZUC256_D[4][16] = {
	{ 0x22, 0x2F, 0x24, 0x2A, 0x6D, 0x40, 0x40, 0x40, 0x40, 0x40, 0x40, 0x40, 0x40, 0x52, 0x10, 0x30 },
	{ 0x22, 0x2F, 0x25, 0x2A, 0x6D, 0x40, 0x40, 0x40, 0x40, 0x40, 0x40, 0x40, 0x40, 0x52, 0x10, 0x30 },
	{ 0x23, 0x2F, 0x24, 0x2A, 0x6D, 0x40, 0x40, 0x40, 0x40, 0x40, 0x40, 0x40, 0x40, 0x52, 0x10, 0x30 },
	{ 0x23, 0x2F, 0x25, 0x2A, 0x6D, 0x40, 0x40, 0x40, 0x40, 0x40, 0x40, 0x40, 0x40, 0x52, 0x10, 0x30 }
};

/* KASUMI key schedule constants C1..C8, TS 35.202 section 4.4 */
static const uint16_t KASUMI_C[8] = {
	0x0123, 0x4567, 0x89AB, 0xCDEF, 0xFEDC, 0xBA98, 0x7654, 0x3210
};

/* ------------------------------------------------------------------------------------------
 * small helpers
 * ------------------------------------------------------------------------------------------ */
static uint32_t
rol32(uint32_t x, unsigned n)
{
	n &= 31;
	return n ? ((x << n) | (x >> (32 - n))) : x;
}

static uint16_t
rol16(uint16_t x, unsigned n)
{
	n &= 15;
	return n ? (uint16_t) ((x << n) | (x >> (16 - n))) : x;
}

static uint32_t
be32(const uint8_t *p)
{
	return ((uint32_t) p[0] << 24) | ((uint32_t) p[1] << 16) | ((uint32_t) p[2] << 8) | p[3];
}

static void
put_be32(uint8_t *p, uint32_t v)
{
	p[0] = (uint8_t) (v >> 24);
	p[1] = (uint8_t) (v >> 16);
	p[2] = (uint8_t) (v >> 8);
	p[3] = (uint8_t) v;
}

static uint32_t
le32(const uint8_t *p)
{
	return ((uint32_t) p[3] << 24) | ((uint32_t) p[2] << 16) | ((uint32_t) p[1] << 8) | p[0];
}

static void
put_le32(uint8_t *p, uint32_t v)
{
	p[0] = (uint8_t) v;
	p[1] = (uint8_t) (v >> 8);
	p[2] = (uint8_t) (v >> 16);
	p[3] = (uint8_t) (v >> 24);
}

/* bit i (0 = msb of byte 0) of a message */
static unsigned
msg_bit(const uint8_t *m, uint64_t i)
{
	return (m[i / 8] >> (7 - (unsigned) (i % 8))) & 1u;
}

/* ==========================================================================================
 * ZUC (common core for ZUC-128 and ZUC-256)
 * ========================================================================================== */
struct zuc {
	uint32_t s[16]; /* LFSR, 31-bit cells */
	uint32_t r1, r2; /* FSM */
	uint32_t x[4];  /* bit reorganisation output */
};

#define ZUC_P 0x7FFFFFFFu /* 2^31 - 1 */

/* LFSR feedback value v = 2^15 s15 + 2^17 s13 + 2^21 s10 + 2^20 s4 + (1 + 2^8) s0 + u mod p */
static void
zuc_lfsr_step(struct zuc *z, uint32_t u)
{
	uint64_t v;
	uint32_t s16;
	int i;

	v = ((uint64_t) z->s[15] << 15) + ((uint64_t) z->s[13] << 17) + ((uint64_t) z->s[10] << 21) +
	    ((uint64_t) z->s[4] << 20) + ((uint64_t) z->s[0] << 8) + (uint64_t) z->s[0] + (uint64_t) u;
	s16 = (uint32_t) (v % ZUC_P);
	if (s16 == 0)
		s16 = ZUC_P;
	for (i = 0; i < 15; i++)
		z->s[i] = z->s[i + 1];
	z->s[15] = s16;
}

static void
zuc_bit_reorg(struct zuc *z)
{
	const uint32_t *s = z->s;

	/* sH = bits 30..15, sL = bits 15..0 */
	z->x[0] = (((s[15] >> 15) & 0xFFFF) << 16) | (s[14] & 0xFFFF);
	z->x[1] = ((s[11] & 0xFFFF) << 16) | ((s[9] >> 15) & 0xFFFF);
	z->x[2] = ((s[7] & 0xFFFF) << 16) | ((s[5] >> 15) & 0xFFFF);
	z->x[3] = ((s[2] & 0xFFFF) << 16) | ((s[0] >> 15) & 0xFFFF);
}

static uint32_t
zuc_sbox32(uint32_t x)
{
	return ((uint32_t) ZUC_S0[(x >> 24) & 0xFF] << 24) | ((uint32_t) ZUC_S1[(x >> 16) & 0xFF] << 16) |
	       ((uint32_t) ZUC_S0[(x >> 8) & 0xFF] << 8) | (uint32_t) ZUC_S1[x & 0xFF];
}

static uint32_t
zuc_l1(uint32_t x)
{
	return x ^ rol32(x, 2) ^ rol32(x, 10) ^ rol32(x, 18) ^ rol32(x, 24);
}

static uint32_t
zuc_l2(uint32_t x)
{
	return x ^ rol32(x, 8) ^ rol32(x, 14) ^ rol32(x, 22) ^ rol32(x, 30);
}

/* nonlinear function F: returns W, updates R1, R2 */
static uint32_t
zuc_f(struct zuc *z)
{
	uint32_t w, w1, w2;

	w = (z->x[0] ^ z->r1) + z->r2;
	w1 = z->r1 + z->x[1];
	w2 = z->r2 ^ z->x[2];
	z->r1 = zuc_sbox32(zuc_l1((w1 << 16) | (w2 >> 16)));
	z->r2 = zuc_sbox32(zuc_l2((w2 << 16) | (w1 >> 16)));
	return w;
}

/* initialisation stage (32 rounds) followed by the first, discarded, working round */
static void
zuc_run_init(struct zuc *z)
{
	int i;
	uint32_t w;

	z->r1 = 0;
	z->r2 = 0;
	for (i = 0; i < 32; i++) {
		zuc_bit_reorg(z);
		w = zuc_f(z);
		zuc_lfsr_step(z, w >> 1);
	}
	zuc_bit_reorg(z);
	(void) zuc_f(z);
	zuc_lfsr_step(z, 0);
}

static uint32_t
zuc_next_word(struct zuc *z)
{
	uint32_t w;

	zuc_bit_reorg(z);
	w = zuc_f(z) ^ z->x[3];
	zuc_lfsr_step(z, 0);
	return w;
}

/* ZUC-128 key/IV loading: s_i = k_i || d_i || iv_i (8 || 15 || 8 bits) */
static void
zuc128_init(struct zuc *z, const uint8_t key[16], const uint8_t iv[16])
{
	int i;

	for (i = 0; i < 16; i++)
		z->s[i] = ((uint32_t) key[i] << 23) | ((uint32_t) ZUC128_D[i] << 8) | (uint32_t) iv[i];
	zuc_run_init(z);
}

/*
 * ZUC-256 IV convention.
 *
 * The ZUC-256 specification defines a 184-bit IV made of 17 bytes IV0..IV16 followed by
 * eight 6-bit values IV17..IV24.
 *
 *  - ivlen == 25: one value per byte; iv[17..24] carry the 6-bit values in their low six
 *    bits (the two top bits are ignored: the library masks them with 0x3f, so does this
 *    reference).
 *  - ivlen == 23: the library's packed form (job->iv_len_in_bytes == 23 for
 *    IMB_CIPHER_ZUC_EEA3 with a 32-byte key, job->u.ZUC_EIA3._iv23 for
 *    IMB_AUTH_ZUC256_EIA3_BITLEN). iv[0..16] are IV0..IV16; iv[17..22] hold the 48-bit
 *    string IV17 || IV18 || ... || IV24 most significant bit first, i.e. with
 *    V = iv[17]<<40 | iv[18]<<32 | ... | iv[22] (big endian), IVj = (V >> (6*(24-j))) & 0x3f
 *    for j = 17..24. (lib/sse_t1/mb_mgr_zuc_submit_flush_sse.asm, %%_iv_size_23 /
 *    EXPAND_FROM_6_TO_8_BYTES; same in the avx2/avx512 managers; the 23-byte vectors
 *    of test/kat-app/zuc_eea3_256.json.c / zuc_eia3_256.json.c use this form.)
 */
static void
zuc256_expand_iv(const uint8_t *iv, int ivlen, uint8_t iv25[25])
{
	int j;

	memcpy(iv25, iv, 17);
	if (ivlen == 23) {
		uint64_t v = 0;

		for (j = 17; j < 23; j++)
			v = (v << 8) | iv[j];
		for (j = 17; j < 25; j++)
			iv25[j] = (uint8_t) ((v >> (6 * (24 - j))) & 0x3F);
	} else {
		for (j = 17; j < 25; j++)
			iv25[j] = iv[j] & 0x3F;
	}
}

/* ZUC-256 key/IV loading, ZUC-256 paper section 2; cells are 8 || 7 || 8 || 8 bits */
static uint32_t
zuc256_cell(uint8_t a, uint8_t b7, uint8_t c, uint8_t d)
{
	return ((uint32_t) a << 23) | ((uint32_t) (b7 & 0x7F) << 16) | ((uint32_t) c << 8) | (uint32_t) d;
}

static void
zuc256_init(struct zuc *z, const uint8_t k[32], const uint8_t *iv_in, int ivlen, const uint8_t d[16])
{
	uint8_t iv[25];

	zuc256_expand_iv(iv_in, ivlen, iv);

	z->s[0] = zuc256_cell(k[0], d[0], k[21], k[16]);
	z->s[1] = zuc256_cell(k[1], d[1], k[22], k[17]);
	z->s[2] = zuc256_cell(k[2], d[2], k[23], k[18]);
	z->s[3] = zuc256_cell(k[3], d[3], k[24], k[19]);
	z->s[4] = zuc256_cell(k[4], d[4], k[25], k[20]);
	z->s[5] = zuc256_cell(iv[0], d[5] | iv[17], k[5], k[26]);
	z->s[6] = zuc256_cell(iv[1], d[6] | iv[18], k[6], k[27]);
	z->s[7] = zuc256_cell(iv[10], d[7] | iv[19], k[7], iv[2]);
	z->s[8] = zuc256_cell(k[8], d[8] | iv[20], iv[3], iv[11]);
	z->s[9] = zuc256_cell(k[9], d[9] | iv[21], iv[12], iv[4]);
	z->s[10] = zuc256_cell(iv[5], d[10] | iv[22], k[10], k[28]);
	z->s[11] = zuc256_cell(k[11], d[11] | iv[23], iv[6], iv[13]);
	z->s[12] = zuc256_cell(k[12], d[12] | iv[24], iv[7], iv[14]);
	z->s[13] = zuc256_cell(k[13], d[13], iv[15], iv[8]);
	z->s[14] = zuc256_cell(k[14], d[14] | (k[31] >> 4), iv[16], iv[9]);
	z->s[15] = zuc256_cell(k[15], d[15] | (k[31] & 0x0F), k[30], k[29]);
	zuc_run_init(z);
}

/* keystream XOR, one big-endian 32-bit word after the other */
static void
zuc_xor(struct zuc *z, const uint8_t *in, uint8_t *out, size_t len)
{
	size_t i;
	uint8_t ks[4];

	for (i = 0; i < len; i++) {
		if ((i % 4) == 0)
			put_be32(ks, zuc_next_word(z));
		out[i] = in[i] ^ ks[i % 4];
	}
}

/* 32-bit word of the keystream z[] starting at keystream bit i */
static uint32_t
zuc_ks_word_at(const uint32_t *z, uint64_t i)
{
	const uint64_t j = i / 32;
	const unsigned r = (unsigned) (i % 32);

	if (r == 0)
		return z[j];
	return (z[j] << r) | (z[j + 1] >> (32 - r));
}

/*
 * 128-EEA3. "iv" is the complete 128-bit IV of EEA3/EIA3 doc 1 (COUNT || BEARER || DIR ||
 * 0..0 repeated twice, see ref_zuc_eea3_iv_gen): the library's job API takes exactly these
 * 16 bytes.
 */
void
ref_zuc_eea3(const uint8_t key[16], const uint8_t iv[16], const uint8_t *in, uint8_t *out,
             size_t len_bytes)
{
	struct zuc z;

	zuc128_init(&z, key, iv);
	zuc_xor(&z, in, out, len_bytes);
}

/*
 * 128-EIA3 (doc 1 v1.6 and later): L = ceil(LENGTH/32) + 2 keystream words,
 * T = XOR of z_i (32-bit window at keystream bit i) over all set message bits i,
 * T ^= z_LENGTH, MAC = T ^ z[32*(L-1)]. Tag written big endian.
 */
void
ref_zuc_eia3(const uint8_t key[16], const uint8_t iv[16], const uint8_t *msg, uint64_t len_bits,
             uint8_t tag[4])
{
	struct zuc z;
	const uint64_t L = (len_bits + 31) / 32 + 2;
	uint32_t *ks = (uint32_t *) malloc((size_t) (L + 1) * sizeof(uint32_t));
	uint32_t t = 0;
	uint64_t i;

	if (ks == NULL)
		abort();
	zuc128_init(&z, key, iv);
	for (i = 0; i < L; i++)
		ks[i] = zuc_next_word(&z);
	ks[L] = 0; /* never contributes, keeps the window helper in bounds */

	for (i = 0; i < len_bits; i++)
		if (msg_bit(msg, i))
			t ^= zuc_ks_word_at(ks, i);
	t ^= zuc_ks_word_at(ks, len_bits);
	t ^= ks[L - 1];
	put_be32(tag, t);
	free(ks);
}

void
ref_zuc256_eea3(const uint8_t key[32], const uint8_t *iv, int ivlen, const uint8_t *in, uint8_t *out,
                size_t len_bytes)
{
	struct zuc z;

	zuc256_init(&z, key, iv, ivlen, ZUC256_D[0]);
	zuc_xor(&z, in, out, len_bytes);
}

/*
 * ZUC-256 MAC, tag of t = 32, 64 or 128 bits (ZUC-256 paper section 3):
 * the d constants depend on t; L = ceil(l/32) + 2*t/32 keystream words;
 * Tag = first t keystream bits; for every set message bit i Tag ^= W_{t+i};
 * finally Tag ^= W_{l+t}, where W_j is the t-bit keystream window starting at bit j.
 */
void
ref_zuc256_eia3(const uint8_t key[32], const uint8_t *iv, int ivlen, const uint8_t *msg,
                uint64_t len_bits, uint8_t *tag, int tag_len)
{
	struct zuc z;
	const unsigned tw = (unsigned) tag_len / 4; /* tag words */
	const uint64_t t = (uint64_t) tag_len * 8;
	const uint64_t L = (len_bits + 31) / 32 + 2 * (uint64_t) tw;
	uint32_t *ks = (uint32_t *) malloc((size_t) (L + 1) * sizeof(uint32_t));
	uint32_t T[4] = { 0, 0, 0, 0 };
	const uint8_t *d;
	uint64_t i;
	unsigned k;

	if (ks == NULL)
		abort();
	d = (tag_len == 4) ? ZUC256_D[1] : (tag_len == 8) ? ZUC256_D[2] : ZUC256_D[3];
	zuc256_init(&z, key, iv, ivlen, d);
	for (i = 0; i < L; i++)
		ks[i] = zuc_next_word(&z);
	ks[L] = 0;

	for (k = 0; k < tw; k++)
		T[k] = ks[k];
	for (i = 0; i < len_bits; i++)
		if (msg_bit(msg, i))
			for (k = 0; k < tw; k++)
				T[k] ^= zuc_ks_word_at(ks, t + i + 32 * (uint64_t) k);
	for (k = 0; k < tw; k++)
		T[k] ^= zuc_ks_word_at(ks, len_bits + t + 32 * (uint64_t) k);
	for (k = 0; k < tw; k++)
		put_be32(tag + 4 * k, T[k]);
	free(ks);
}

/*
 * 128-EEA3 / 128-EIA3 IV construction (doc 1 sections 3.3 and 4.3).
 * EEA3: IV[0..3] = COUNT, IV[4] = BEARER(5) || DIRECTION(1) || 00, IV[5..7] = 0,
 *       IV[8..15] = IV[0..7].
 * EIA3: IV[0..3] = COUNT, IV[4] = BEARER(5) || 000, IV[5..7] = 0,
 *       IV[8] = IV[0] ^ (DIRECTION << 7), IV[9..13] = IV[1..5],
 *       IV[14] = IV[6] ^ (DIRECTION << 7), IV[15] = IV[7].
 */
void
ref_zuc_eea3_iv_gen(uint32_t count, uint8_t bearer, uint8_t dir, uint8_t iv[16])
{
	put_be32(iv, count);
	iv[4] = (uint8_t) (((bearer & 0x1F) << 3) | ((dir & 1) << 2));
	iv[5] = iv[6] = iv[7] = 0;
	memcpy(iv + 8, iv, 8);
}

void
ref_zuc_eia3_iv_gen(uint32_t count, uint8_t bearer, uint8_t dir, uint8_t iv[16])
{
	put_be32(iv, count);
	iv[4] = (uint8_t) ((bearer & 0x1F) << 3);
	iv[5] = iv[6] = iv[7] = 0;
	memcpy(iv + 8, iv, 8);
	iv[8] ^= (uint8_t) ((dir & 1) << 7);
	iv[14] ^= (uint8_t) ((dir & 1) << 7);
}

/* ==========================================================================================
 * SNOW 3G
 * ========================================================================================== */
struct snow3g {
	uint32_t s[16];
	uint32_t r1, r2, r3;
};

/* MULx and MULxPOW over GF(2^8), doc 2 sections 3.1.1 / 3.1.2 */
static uint8_t
s3g_mulx(uint8_t v, uint8_t c)
{
	if (v & 0x80)
		return (uint8_t) ((v << 1) ^ c);
	return (uint8_t) (v << 1);
}

static uint8_t
s3g_mulxpow(uint8_t v, unsigned i, uint8_t c)
{
	while (i-- > 0)
		v = s3g_mulx(v, c);
	return v;
}

static uint32_t
s3g_mul_alpha(uint8_t c)
{
	return ((uint32_t) s3g_mulxpow(c, 23, 0xA9) << 24) | ((uint32_t) s3g_mulxpow(c, 245, 0xA9) << 16) |
	       ((uint32_t) s3g_mulxpow(c, 48, 0xA9) << 8) | (uint32_t) s3g_mulxpow(c, 239, 0xA9);
}

static uint32_t
s3g_div_alpha(uint8_t c)
{
	return ((uint32_t) s3g_mulxpow(c, 16, 0xA9) << 24) | ((uint32_t) s3g_mulxpow(c, 39, 0xA9) << 16) |
	       ((uint32_t) s3g_mulxpow(c, 6, 0xA9) << 8) | (uint32_t) s3g_mulxpow(c, 64, 0xA9);
}

/* 32x32-bit S-box: byte S-box followed by the MixColumn-like map with polynomial constant c */
static uint32_t
s3g_sbox32(uint32_t w, const uint8_t *box, uint8_t c)
{
	const uint8_t b0 = box[(w >> 24) & 0xFF];
	const uint8_t b1 = box[(w >> 16) & 0xFF];
	const uint8_t b2 = box[(w >> 8) & 0xFF];
	const uint8_t b3 = box[w & 0xFF];
	const uint8_t r0 = s3g_mulx(b0, c) ^ b1 ^ b2 ^ s3g_mulx(b3, c) ^ b3;
	const uint8_t r1 = s3g_mulx(b0, c) ^ b0 ^ s3g_mulx(b1, c) ^ b2 ^ b3;
	const uint8_t r2 = b0 ^ s3g_mulx(b1, c) ^ b1 ^ s3g_mulx(b2, c) ^ b3;
	const uint8_t r3 = b0 ^ b1 ^ s3g_mulx(b2, c) ^ b2 ^ s3g_mulx(b3, c);

	return ((uint32_t) r0 << 24) | ((uint32_t) r1 << 16) | ((uint32_t) r2 << 8) | (uint32_t) r3;
}

static uint32_t
s3g_s1(uint32_t w)
{
	return s3g_sbox32(w, AES_SBOX, 0x1B);
}

static uint32_t
s3g_s2(uint32_t w)
{
	return s3g_sbox32(w, SNOW3G_SQ, 0x69);
}

static uint32_t
s3g_clock_fsm(struct snow3g *g)
{
	const uint32_t f = (g->s[15] + g->r1) ^ g->r2;
	const uint32_t r = g->r2 + (g->r3 ^ g->s[5]);

	g->r3 = s3g_s2(g->r2);
	g->r2 = s3g_s1(g->r1);
	g->r1 = r;
	return f;
}

/* f = FSM output in initialisation mode, 0 in keystream mode */
static void
s3g_clock_lfsr(struct snow3g *g, uint32_t f)
{
	const uint32_t s0 = g->s[0], s11 = g->s[11];
	const uint32_t v = (s0 << 8) ^ s3g_mul_alpha((uint8_t) (s0 >> 24)) ^ g->s[2] ^ (s11 >> 8) ^
			   s3g_div_alpha((uint8_t) (s11 & 0xFF)) ^ f;
	int i;

	for (i = 0; i < 15; i++)
		g->s[i] = g->s[i + 1];
	g->s[15] = v;
}

/*
 * Key / IV byte convention (UEA2/UIA2 doc 1): the 128-bit key K[0..127] is
 * k3 || k2 || k1 || k0 and the 128-bit IV is IV3 || IV2 || IV1 || IV0, each word big endian,
 * i.e. key[0..3] = k3 ... key[12..15] = k0, iv[0..3] = IV3 ... iv[12..15] = IV0.
 * This is the layout of the 16-byte key given to IMB_SNOW3G_INIT_KEY_SCHED and of the
 * 16-byte IV given to the job API (job->iv / job->u.SNOW3G_UIA2._iv).
 */
static void
s3g_init(struct snow3g *g, const uint8_t key[16], const uint8_t iv[16])
{
	const uint32_t k3 = be32(key), k2 = be32(key + 4), k1 = be32(key + 8), k0 = be32(key + 12);
	const uint32_t iv3 = be32(iv), iv2 = be32(iv + 4), iv1 = be32(iv + 8), iv0 = be32(iv + 12);
	const uint32_t ones = 0xFFFFFFFFu;
	int i;

	g->s[15] = k3 ^ iv0;
	g->s[14] = k2;
	g->s[13] = k1;
	g->s[12] = k0 ^ iv1;
	g->s[11] = k3 ^ ones;
	g->s[10] = k2 ^ ones ^ iv2;
	g->s[9] = k1 ^ ones ^ iv3;
	g->s[8] = k0 ^ ones;
	g->s[7] = k3;
	g->s[6] = k2;
	g->s[5] = k1;
	g->s[4] = k0;
	g->s[3] = k3 ^ ones;
	g->s[2] = k2 ^ ones;
	g->s[1] = k1 ^ ones;
	g->s[0] = k0 ^ ones;
	g->r1 = g->r2 = g->r3 = 0;

	for (i = 0; i < 32; i++) {
		const uint32_t f = s3g_clock_fsm(g);

		s3g_clock_lfsr(g, f);
	}
	/* first keystream-mode clock: FSM output discarded */
	(void) s3g_clock_fsm(g);
	s3g_clock_lfsr(g, 0);
}

static uint32_t
s3g_next_word(struct snow3g *g)
{
	const uint32_t f = s3g_clock_fsm(g);
	const uint32_t z = f ^ g->s[0];

	s3g_clock_lfsr(g, 0);
	return z;
}

/*
 * UEA2 (f8). The message is a bit string starting at bit 0 of in[]. ceil(len_bits/8) bytes
 * are written: the last byte is in ^ keystream for the WHOLE byte (bits beyond len_bits are
 * not masked - the caller masks / ignores them when comparing).
 *
 * Library note (pinned tree, IMB_CIPHER_SNOW3G_UEA2_BITLEN, bit offset 0, all arch variants,
 * measured with xcheck_3gpp.c): the bits of the last destination byte beyond len_bits receive
 * the plain keystream bits, i.e. the library treats the source bits beyond the length as 0.
 * Only the first len_bits bits are defined by the specification.
 */
void
ref_snow3g_uea2(const uint8_t key[16], const uint8_t iv[16], const uint8_t *in, uint8_t *out,
                uint64_t len_bits)
{
	struct snow3g g;
	const uint64_t nbytes = (len_bits + 7) / 8;
	uint64_t i;
	uint8_t ks[4];

	s3g_init(&g, key, iv);
	for (i = 0; i < nbytes; i++) {
		if ((i % 4) == 0)
			put_be32(ks, s3g_next_word(&g));
		out[i] = in[i] ^ ks[i % 4];
	}
}

/* V * x in GF(2^64), doc 1 section 4.3.1 */
static uint64_t
mul64x(uint64_t v, uint64_t c)
{
	if (v & 0x8000000000000000ULL)
		return (v << 1) ^ c;
	return v << 1;
}

static uint64_t
mul64xpow(uint64_t v, unsigned i, uint64_t c)
{
	while (i-- > 0)
		v = mul64x(v, c);
	return v;
}

static uint64_t
mul64(uint64_t v, uint64_t p, uint64_t c)
{
	uint64_t r = 0;
	unsigned i;

	for (i = 0; i < 64; i++)
		if ((p >> i) & 1)
			r ^= mul64xpow(v, i, c);
	return r;
}

/*
 * UIA2 (f9), doc 1 section 4. "iv" is the 16-byte IV IV3||IV2||IV1||IV0 as built by
 * ref_snow3g_f9_iv_gen (COUNT, FRESH, DIR<<31 ^ COUNT, FRESH ^ DIR<<15) - the library's
 * IMB_AUTH_SNOW3G_UIA2(_BITLEN) job takes this IV in job->u.SNOW3G_UIA2._iv.
 * Bits of the last message byte beyond len_bits are treated as zero (spec padding); the
 * library's *_BITLEN MAC jobs (ZUC EIA3, ZUC-256 EIA3, SNOW3G UIA2) ignore them as well.
 */
void
ref_snow3g_uia2(const uint8_t key[16], const uint8_t iv[16], const uint8_t *msg, uint64_t len_bits,
                uint8_t tag[4])
{
	struct snow3g g;
	uint32_t z[5];
	uint64_t P, Q, eval = 0;
	const uint64_t nblocks = (len_bits + 63) / 64; /* D - 1 */
	uint64_t blk, b;
	int i;

	s3g_init(&g, key, iv);
	for (i = 0; i < 5; i++)
		z[i] = s3g_next_word(&g);
	P = ((uint64_t) z[0] << 32) | z[1];
	Q = ((uint64_t) z[2] << 32) | z[3];

	for (blk = 0; blk < nblocks; blk++) {
		uint64_t m = 0;

		/* gather the 64 message bits of this block one at a time; missing bits are 0 */
		for (b = 0; b < 64; b++) {
			const uint64_t pos = blk * 64 + b;

			m <<= 1;
			if (pos < len_bits)
				m |= msg_bit(msg, pos);
		}
		eval = mul64(eval ^ m, P, 0x1B);
	}
	eval ^= len_bits;
	eval = mul64(eval, Q, 0x1B);
	put_be32(tag, (uint32_t) (eval >> 32) ^ z[4]);
}

/*
 * UEA2: IV3 = COUNT, IV2 = BEARER(5)||DIRECTION(1)||0^26, IV1 = IV3, IV0 = IV2.
 * UIA2: IV3 = COUNT, IV2 = FRESH, IV1 = COUNT ^ (DIRECTION << 31), IV0 = FRESH ^ (DIRECTION << 15).
 * Bytes = IV3 || IV2 || IV1 || IV0, big endian words.
 */
void
ref_snow3g_f8_iv_gen(uint32_t count, uint8_t bearer, uint8_t dir, uint8_t iv[16])
{
	const uint32_t bd = ((uint32_t) (bearer & 0x1F) << 27) | ((uint32_t) (dir & 1) << 26);

	put_be32(iv, count);
	put_be32(iv + 4, bd);
	put_be32(iv + 8, count);
	put_be32(iv + 12, bd);
}

void
ref_snow3g_f9_iv_gen(uint32_t count, uint32_t fresh, uint8_t dir, uint8_t iv[16])
{
	put_be32(iv, count);
	put_be32(iv + 4, fresh);
	put_be32(iv + 8, count ^ ((uint32_t) (dir & 1) << 31));
	put_be32(iv + 12, fresh ^ ((uint32_t) (dir & 1) << 15));
}

/* ==========================================================================================
 * KASUMI
 * ========================================================================================== */
struct kasumi_ks {
	uint16_t kl1[8], kl2[8];
	uint16_t ko1[8], ko2[8], ko3[8];
	uint16_t ki1[8], ki2[8], ki3[8];
};

/* TS 35.202 section 4.4 */
static void
kasumi_key_schedule(struct kasumi_ks *ks, const uint8_t key[16])
{
	uint16_t k[8], kp[8];
	int i;

	for (i = 0; i < 8; i++) {
		k[i] = (uint16_t) ((key[2 * i] << 8) | key[2 * i + 1]);
		kp[i] = k[i] ^ KASUMI_C[i];
	}
	for (i = 0; i < 8; i++) {
		ks->kl1[i] = rol16(k[i], 1);
		ks->kl2[i] = kp[(i + 2) % 8];
		ks->ko1[i] = rol16(k[(i + 1) % 8], 5);
		ks->ko2[i] = rol16(k[(i + 5) % 8], 8);
		ks->ko3[i] = rol16(k[(i + 6) % 8], 13);
		ks->ki1[i] = kp[(i + 4) % 8];
		ks->ki2[i] = kp[(i + 3) % 8];
		ks->ki3[i] = kp[(i + 7) % 8];
	}
}

/* TS 35.202 section 4.5: FI */
static uint16_t
kasumi_fi(uint16_t in, uint16_t subkey)
{
	uint16_t nine = (uint16_t) (in >> 7);
	uint16_t seven = (uint16_t) (in & 0x7F);

	nine = (uint16_t) (KASUMI_S9[nine] ^ seven);
	seven = (uint16_t) (KASUMI_S7[seven] ^ (nine & 0x7F));
	seven ^= (uint16_t) (subkey >> 9);
	nine ^= (uint16_t) (subkey & 0x1FF);
	nine = (uint16_t) (KASUMI_S9[nine] ^ seven);
	seven = (uint16_t) (KASUMI_S7[seven] ^ (nine & 0x7F));
	return (uint16_t) ((seven << 9) | nine);
}

/* TS 35.202 section 4.4: FO, round i (0-based) */
static uint32_t
kasumi_fo(const struct kasumi_ks *ks, uint32_t in, int i)
{
	uint16_t l = (uint16_t) (in >> 16);
	uint16_t r = (uint16_t) in;
	uint16_t t;

	t = (uint16_t) (kasumi_fi((uint16_t) (l ^ ks->ko1[i]), ks->ki1[i]) ^ r);
	l = r;
	r = t;
	t = (uint16_t) (kasumi_fi((uint16_t) (l ^ ks->ko2[i]), ks->ki2[i]) ^ r);
	l = r;
	r = t;
	t = (uint16_t) (kasumi_fi((uint16_t) (l ^ ks->ko3[i]), ks->ki3[i]) ^ r);
	l = r;
	r = t;
	return ((uint32_t) l << 16) | r;
}

/* TS 35.202 section 4.3: FL, round i (0-based) */
static uint32_t
kasumi_fl(const struct kasumi_ks *ks, uint32_t in, int i)
{
	uint16_t l = (uint16_t) (in >> 16);
	uint16_t r = (uint16_t) in;

	r ^= rol16((uint16_t) (l & ks->kl1[i]), 1);
	l ^= rol16((uint16_t) (r | ks->kl2[i]), 1);
	return ((uint32_t) l << 16) | r;
}

/* one 64-bit block, in place, big endian */
static void
kasumi_block(const struct kasumi_ks *ks, uint8_t blk[8])
{
	uint32_t l = be32(blk), r = be32(blk + 4);
	int i;

	for (i = 0; i < 8; i++) {
		uint32_t f, t;

		if ((i % 2) == 0) /* odd rounds 1,3,5,7 of the spec: FL then FO */
			f = kasumi_fo(ks, kasumi_fl(ks, l, i), i);
		else /* even rounds: FO then FL */
			f = kasumi_fl(ks, kasumi_fo(ks, l, i), i);
		t = r ^ f;
		r = l;
		l = t;
	}
	put_be32(blk, l);
	put_be32(blk + 4, r);
}

/*
 * f8 (TS 35.201 section 3). iv[8] = COUNT(32) || BEARER(5) || DIRECTION(1) || 0^26, the
 * 64-bit register "A" initial value, exactly the 8 bytes that the library's
 * IMB_CIPHER_KASUMI_UEA1_BITLEN job takes in job->iv (iv_len_in_bytes = 8).
 * A = KASUMI[A]_{CK ^ KM}, KM = 0x55..55; KSB_n = KASUMI[A ^ BLKCNT ^ KSB_{n-1}]_CK.
 * Message = bit string from bit 0 of in[]; ceil(len_bits/8) bytes written, the last byte
 * is XORed as a whole byte (caller masks).
 *
 * Library note (pinned tree, IMB_CIPHER_KASUMI_UEA1_BITLEN, bit offset 0, all arch variants,
 * measured with xcheck_3gpp.c): the bits of the last destination byte beyond len_bits are left
 * as they were in the destination buffer. Only the first len_bits bits are defined by the
 * specification.
 */
void
ref_kasumi_f8(const uint8_t key[16], const uint8_t iv[8], const uint8_t *in, uint8_t *out,
              uint64_t len_bits)
{
	struct kasumi_ks ck, ckm;
	uint8_t kmod[16], a[8], ksb[8];
	const uint64_t nbytes = (len_bits + 7) / 8;
	uint64_t i, blkcnt = 0;
	int j;

	for (j = 0; j < 16; j++)
		kmod[j] = key[j] ^ 0x55;
	kasumi_key_schedule(&ck, key);
	kasumi_key_schedule(&ckm, kmod);

	memcpy(a, iv, 8);
	kasumi_block(&ckm, a);
	memset(ksb, 0, 8);

	for (i = 0; i < nbytes; i++) {
		if ((i % 8) == 0) {
			for (j = 0; j < 8; j++)
				ksb[j] ^= a[j] ^ (uint8_t) (blkcnt >> (8 * (7 - j)));
			kasumi_block(&ck, ksb);
			blkcnt++;
		}
		out[i] = in[i] ^ ksb[i % 8];
	}
}

/*
 * f9 (TS 35.201 section 4) over an ALREADY FORMATTED message, the convention of the
 * library's IMB_AUTH_KASUMI_UIA1 job (and IMB_KASUMI_F9_1_BUFFER): the caller supplies
 *
 *     PS = COUNT(32) || FRESH(32) || MESSAGE || DIRECTION(1) || 1 || 0..0
 *
 * as bytes; job->msg_len_to_hash_in_bytes counts these bytes (the zero padding needs only
 * reach the next byte boundary). This function (like lib/include/kasumi_internal.h
 * kasumi_f9_1_buffer) zero-pads a trailing partial 64-bit block, it does NOT add COUNT,
 * FRESH, DIRECTION or the '1' bit itself. See test/kat-app/kasumi_f9.json.c vectors 1..10
 * (pre-formatted) versus 101..105 (raw message + IV + direction for the *_USER direct API).
 * A = B = 0; per block: A = KASUMI[A ^ PS_n]_IK, B ^= A; B = KASUMI[B]_{IK ^ KM},
 * KM = 0xAA..AA; MAC = left 32 bits of B.
 */
void
ref_kasumi_f9(const uint8_t key[16], const uint8_t *formatted_msg, size_t len_bytes, uint8_t tag[4])
{
	struct kasumi_ks ik, ikm;
	uint8_t kmod[16], a[8], b[8];
	size_t off;
	int j;

	for (j = 0; j < 16; j++)
		kmod[j] = key[j] ^ 0xAA;
	kasumi_key_schedule(&ik, key);
	kasumi_key_schedule(&ikm, kmod);
	memset(a, 0, 8);
	memset(b, 0, 8);

	for (off = 0; off < len_bytes; off += 8) {
		for (j = 0; j < 8; j++)
			if (off + (size_t) j < len_bytes)
				a[j] ^= formatted_msg[off + (size_t) j];
		kasumi_block(&ik, a);
		for (j = 0; j < 8; j++)
			b[j] ^= a[j];
	}
	kasumi_block(&ikm, b);
	memcpy(tag, b, 4);
}

/* f8: IV = COUNT || BEARER(5) || DIRECTION(1) || 0^26.  f9: IV = COUNT || FRESH. */
void
ref_kasumi_f8_iv_gen(uint32_t count, uint8_t bearer, uint8_t dir, uint8_t iv[8])
{
	put_be32(iv, count);
	iv[4] = (uint8_t) (((bearer & 0x1F) << 3) | ((dir & 1) << 2));
	iv[5] = iv[6] = iv[7] = 0;
}

void
ref_kasumi_f9_iv_gen(uint32_t count, uint32_t fresh, uint8_t iv[8])
{
	put_be32(iv, count);
	put_be32(iv + 4, fresh);
}

/* ==========================================================================================
 * SNOW-V
 * ========================================================================================== */
struct snowv {
	uint16_t a[16], b[16];           /* LFSR-A, LFSR-B, 16-bit cells */
	uint8_t r1[16], r2[16], r3[16]; /* FSM registers, byte 0 = least significant byte */
};

static uint8_t
aes_xtime(uint8_t v)
{
	return (uint8_t) ((v << 1) ^ ((v & 0x80) ? 0x1B : 0x00));
}

/* one AES encryption round with an all-zero round key (FIPS-197 state: byte 4*c + r) */
static void
aes_round_zero_key(uint8_t out[16], const uint8_t in[16])
{
	uint8_t t[16];
	int c, r;

	/* SubBytes + ShiftRows */
	for (c = 0; c < 4; c++)
		for (r = 0; r < 4; r++)
			t[4 * c + r] = AES_SBOX[in[4 * ((c + r) % 4) + r]];
	/* MixColumns */
	for (c = 0; c < 4; c++) {
		const uint8_t s0 = t[4 * c], s1 = t[4 * c + 1], s2 = t[4 * c + 2], s3 = t[4 * c + 3];

		out[4 * c + 0] = (uint8_t) (aes_xtime(s0) ^ (aes_xtime(s1) ^ s1) ^ s2 ^ s3);
		out[4 * c + 1] = (uint8_t) (s0 ^ aes_xtime(s1) ^ (aes_xtime(s2) ^ s2) ^ s3);
		out[4 * c + 2] = (uint8_t) (s0 ^ s1 ^ aes_xtime(s2) ^ (aes_xtime(s3) ^ s3));
		out[4 * c + 3] = (uint8_t) ((aes_xtime(s0) ^ s0) ^ s1 ^ s2 ^ aes_xtime(s3));
	}
}

static uint16_t
snowv_mul_x(uint16_t v, uint16_t c)
{
	if (v & 0x8000)
		return (uint16_t) ((v << 1) ^ c);
	return (uint16_t) (v << 1);
}

static uint16_t
snowv_mul_x_inv(uint16_t v, uint16_t d)
{
	if (v & 0x0001)
		return (uint16_t) ((v >> 1) ^ d);
	return (uint16_t) (v >> 1);
}

/* z = (R1 [+]32 T1) ^ R2 with T1 = (b15, ..., b8); bytes out least significant first */
static void
snowv_output(const struct snowv *s, uint8_t z[16])
{
	int i;

	for (i = 0; i < 4; i++) {
		const uint32_t t1 = ((uint32_t) s->b[2 * i + 9] << 16) | s->b[2 * i + 8];
		const uint32_t v = (t1 + le32(s->r1 + 4 * i)) ^ le32(s->r2 + 4 * i);

		put_le32(z + 4 * i, v);
	}
}

static void
snowv_fsm_update(struct snowv *s)
{
	static const uint8_t sigma[16] = { 0, 4, 8, 12, 1, 5, 9, 13, 2, 6, 10, 14, 3, 7, 11, 15 };
	uint8_t sum[16], r1new[16], r2new[16], r3new[16];
	int i;

	/* R1' = sigma((T2 ^ R3) [+]32 R2), T2 = (a7, ..., a0) */
	for (i = 0; i < 4; i++) {
		const uint32_t t2 = ((uint32_t) s->a[2 * i + 1] << 16) | s->a[2 * i];

		put_le32(sum + 4 * i, (t2 ^ le32(s->r3 + 4 * i)) + le32(s->r2 + 4 * i));
	}
	for (i = 0; i < 16; i++)
		r1new[i] = sum[sigma[i]];
	aes_round_zero_key(r3new, s->r2);
	aes_round_zero_key(r2new, s->r1);
	memcpy(s->r1, r1new, 16);
	memcpy(s->r2, r2new, 16);
	memcpy(s->r3, r3new, 16);
}

/* 8 single steps of both LFSRs */
static void
snowv_lfsr_update(struct snowv *s)
{
	int i, j;

	for (i = 0; i < 8; i++) {
		const uint16_t u = (uint16_t) (snowv_mul_x(s->a[0], 0x990F) ^ s->a[1] ^
					       snowv_mul_x_inv(s->a[8], 0xCC87) ^ s->b[0]);
		const uint16_t v = (uint16_t) (snowv_mul_x(s->b[0], 0xC963) ^ s->b[3] ^
					       snowv_mul_x_inv(s->b[8], 0xE4B1) ^ s->a[0]);

		for (j = 0; j < 15; j++) {
			s->a[j] = s->a[j + 1];
			s->b[j] = s->b[j + 1];
		}
		s->a[15] = u;
		s->b[15] = v;
	}
}

static void
snowv_keystream_block(struct snowv *s, uint8_t z[16])
{
	snowv_output(s, z);
	snowv_fsm_update(s);
	snowv_lfsr_update(s);
}

/* SNOW-V paper, Algorithm 1 (initialisation); aead != 0 loads the SNOW-V-GCM constants */
static void
snowv_init(struct snowv *s, const uint8_t key[32], const uint8_t iv[16], int aead)
{
	static const uint16_t aead_b[8] = { 0x6C41, 0x7865, 0x6B45, 0x2064,
					    0x694A, 0x676E, 0x6854, 0x6D6F }; /* "AlexEkd JingThom" */
	uint8_t z[16];
	int i, j;

	for (i = 0; i < 8; i++) {
		s->a[i] = (uint16_t) ((iv[2 * i + 1] << 8) | iv[2 * i]);
		s->a[i + 8] = (uint16_t) ((key[2 * i + 1] << 8) | key[2 * i]);
		s->b[i] = aead ? aead_b[i] : 0;
		s->b[i + 8] = (uint16_t) ((key[2 * i + 17] << 8) | key[2 * i + 16]);
	}
	memset(s->r1, 0, 16);
	memset(s->r2, 0, 16);
	memset(s->r3, 0, 16);

	for (i = 0; i < 16; i++) {
		snowv_keystream_block(s, z);
		for (j = 0; j < 8; j++)
			s->a[j + 8] ^= (uint16_t) ((z[2 * j + 1] << 8) | z[2 * j]);
		if (i == 14)
			for (j = 0; j < 16; j++)
				s->r1[j] ^= key[j];
		if (i == 15)
			for (j = 0; j < 16; j++)
				s->r1[j] ^= key[16 + j];
	}
}

static void
snowv_xor(struct snowv *s, const uint8_t *in, uint8_t *out, size_t len)
{
	uint8_t z[16];
	size_t i;

	for (i = 0; i < len; i++) {
		if ((i % 16) == 0)
			snowv_keystream_block(s, z);
		out[i] = in[i] ^ z[i % 16];
	}
}

/* SNOW-V-AEAD: GHASH key H (keystream block 0 of the AEAD-mode initialisation) and the endpad (block 1);
 * exported for the residue scanner (C13): both are derived key material */
void
ref_snowv_aead_hkey(const uint8_t key[32], const uint8_t iv[16], uint8_t h[16], uint8_t endpad[16])
{
	struct snowv s;

	snowv_init(&s, key, iv, 1);
	snowv_keystream_block(&s, h);
	snowv_keystream_block(&s, endpad);
}

void
ref_snowv(const uint8_t key[32], const uint8_t iv[16], const uint8_t *in, uint8_t *out,
          size_t len_bytes)
{
	struct snowv s;

	snowv_init(&s, key, iv, 0);
	snowv_xor(&s, in, out, len_bytes);
}

/* ---- GHASH (NIST SP 800-38D), bit by bit ---- */

/* x = x * h in GF(2^128), GCM bit order (bit 0 = msb of byte 0) */
static void
gf128_mul(uint8_t x[16], const uint8_t h[16])
{
	uint8_t z[16], v[16];
	int i, j;

	memset(z, 0, 16);
	memcpy(v, h, 16);
	for (i = 0; i < 128; i++) {
		const int lsb = v[15] & 1;

		if ((x[i / 8] >> (7 - (i % 8))) & 1)
			for (j = 0; j < 16; j++)
				z[j] ^= v[j];
		for (j = 15; j > 0; j--)
			v[j] = (uint8_t) ((v[j] >> 1) | (v[j - 1] << 7));
		v[0] >>= 1;
		if (lsb)
			v[0] ^= 0xE1;
	}
	memcpy(x, z, 16);
}

/* absorb data, zero padded to a multiple of 16 bytes */
static void
ghash_update(uint8_t y[16], const uint8_t h[16], const uint8_t *data, size_t len)
{
	size_t off;
	int j;

	for (off = 0; off < len; off += 16) {
		for (j = 0; j < 16; j++)
			if (off + (size_t) j < len)
				y[j] ^= data[off + (size_t) j];
		gf128_mul(y, h);
	}
}

/*
 * SNOW-V-GCM (SNOW-V paper section 6; library: IMB_CIPHER_SNOW_V_AEAD + IMB_AUTH_SNOW_V_AEAD,
 * lib/include/job_api_snowv.h submit_snow_v_aead_job):
 *  - SNOW-V is initialised in AEAD mode: LFSR-B low half b0..b7 preloaded with
 *    0x6C41 0x7865 0x6B45 0x2064 0x694A 0x676E 0x6854 0x6D6F instead of zero;
 *  - keystream block 0 (16 bytes, in keystream byte order) is the GHASH key H, taken as
 *    the 16-byte GCM hash subkey exactly as AES-GCM would take E(K, 0^128)
 *    (library: IMB_GHASH_PRE(hkey_endpad[0]));
 *  - keystream block 1 is "endpad", the final tag mask;
 *  - keystream blocks 2.. encrypt the message;
 *  - tag = GHASH_H(AAD pad0 || CT pad0 || [len(AAD) in bits]_64 || [len(CT) in bits]_64) ^ endpad,
 *    lengths big endian; 16-byte tag.
 */
static void
snowv_gcm(const uint8_t key[32], const uint8_t iv[16], const uint8_t *aad, size_t aad_len,
          const uint8_t *in, uint8_t *out, size_t len, uint8_t tag[16], int decrypt)
{
	struct snowv s;
	uint8_t h[16], endpad[16], y[16], lens[16];
	int j;

	snowv_init(&s, key, iv, 1);
	snowv_keystream_block(&s, h);
	snowv_keystream_block(&s, endpad);

	memset(y, 0, 16);
	ghash_update(y, h, aad, aad_len);
	if (decrypt) {
		ghash_update(y, h, in, len); /* in = ciphertext */
		snowv_xor(&s, in, out, len);
	} else {
		snowv_xor(&s, in, out, len);
		ghash_update(y, h, out, len); /* out = ciphertext */
	}
	for (j = 0; j < 8; j++) {
		lens[j] = (uint8_t) (((uint64_t) aad_len * 8) >> (8 * (7 - j)));
		lens[8 + j] = (uint8_t) (((uint64_t) len * 8) >> (8 * (7 - j)));
	}
	ghash_update(y, h, lens, 16);
	for (j = 0; j < 16; j++)
		tag[j] = y[j] ^ endpad[j];
}

void
ref_snowv_aead_enc(const uint8_t key[32], const uint8_t iv[16], const uint8_t *aad, size_t aad_len,
                   const uint8_t *pt, uint8_t *ct, size_t len, uint8_t tag[16])
{
	snowv_gcm(key, iv, aad, aad_len, pt, ct, len, tag, 0);
}

void
ref_snowv_aead_dec(const uint8_t key[32], const uint8_t iv[16], const uint8_t *aad, size_t aad_len,
                   const uint8_t *ct, uint8_t *pt, size_t len, uint8_t tag[16])
{
	snowv_gcm(key, iv, aad, aad_len, ct, pt, len, tag, 1);
}
