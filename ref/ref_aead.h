/*
 * ref_aead.h - independent, byte-oriented reference model of AEAD and
 * combined modes, used as a test oracle against intel-ipsec-mb.
 *
 * Only the raw block functions come from OpenSSL (AES_encrypt/AES_decrypt,
 * EVP_sm4_ecb single block); everything else is written from the
 * specifications in plain scalar C (see ref_aead.c).  No dependency on the
 * library under test.
 *
 * General conventions
 *  - raw keys in, klen = 16 / 24 / 32 bytes
 *  - in == out is allowed everywhere
 *  - tag buffers always receive the FULL tag (16 bytes for the AEADs) unless
 *    a taglen parameter exists; truncation is the caller's business
 *  - on "decrypt" no tag comparison is made: the function outputs the tag it
 *    computed and the caller compares
 */
#ifndef REF_AEAD_H
#define REF_AEAD_H

#include <stdint.h>
#include <stddef.h>

/* AES-GCM, NIST SP 800-38D.  Any ivlen >= 1 (ivlen == 12: J0 = IV||0^31||1,
 * otherwise J0 = GHASH(IV || 0-pad || 0^64 || [8*ivlen]_64)).
 * dec: tag is computed over the ciphertext `in`. */
void ref_gcm(int enc, const uint8_t *key, int klen, const uint8_t *iv, size_t ivlen,
             const uint8_t *aad, size_t aadlen, const uint8_t *in, uint8_t *out, size_t len,
             uint8_t tag[16]);

/* AES-GMAC = GCM with empty plaintext and msg as AAD */
void ref_gmac(const uint8_t *key, int klen, const uint8_t *iv, size_t ivlen, const uint8_t *msg,
              size_t len, uint8_t tag[16]);

/* H = E_K(0^128) */
void ref_gcm_hashkey(const uint8_t *key, int klen, uint8_t h[16]);

/* AES-CCM, NIST SP 800-38C / RFC 3610.  noncelen 7..13 (L = 15 - noncelen),
 * taglen 4,6,..,16.  AAD length encoding: 2 bytes (< 0xFF00), 0xFFFE + 4 bytes,
 * 0xFFFF + 8 bytes.  dec: decrypts, then MACs the recovered plaintext.
 * `tag` receives taglen bytes.
 * Library note: intel-ipsec-mb accepts only klen 16/32 and aadlen <= 46, and
 * must be driven HASH_CIPHER on encrypt / CIPHER_HASH on decrypt. */
void ref_ccm(int enc, const uint8_t *key, int klen, const uint8_t *nonce, int noncelen,
             const uint8_t *aad, size_t aadlen, const uint8_t *in, uint8_t *out, size_t len,
             uint8_t *tag, int taglen);

/* AEAD_CHACHA20_POLY1305, RFC 8439 sect. 2.8 (one-time key = block 0,
 * payload from block counter 1, MAC over aad|pad|ct|pad|le64 lens). */
void ref_chacha20_poly1305(int enc, const uint8_t key[32], const uint8_t iv[12],
                           const uint8_t *aad, size_t aadlen, const uint8_t *in, uint8_t *out,
                           size_t len, uint8_t tag[16]);

/* SM4-GCM (RFC 8998): exactly the SP 800-38D construction with SM4 as the
 * block cipher.  Library note: intel-ipsec-mb accepts ivlen == 12 only. */
void ref_sm4_gcm(int enc, const uint8_t key[16], const uint8_t *iv, size_t ivlen,
                 const uint8_t *aad, size_t aadlen, const uint8_t *in, uint8_t *out, size_t len,
                 uint8_t tag[16]);

/* Ethernet FCS: reflected 0x04C11DB7 (0xEDB88320), init ~0, final ~.
 * {1,2,3,4} -> 0xB63CFBCD.  On the wire / in frames the value is stored
 * little-endian (byte 0 = bits 7..0). */
uint32_t ref_crc32_ethernet(const uint8_t *msg, size_t len);

/*
 * DOCSIS SEC BPI (AES) + Ethernet CRC32, as IMB_CIPHER_DOCSIS_SEC_BPI +
 * IMB_AUTH_DOCSIS_CRC32 jobs define it (job: src = frame, dst = frame +
 * cipher_off i.e. in place, hash_start_src_offset = hash_off, msg_len_to_hash
 * = hash_len, cipher_start_src_offset = cipher_off, msg_len_to_cipher =
 * cipher_len, iv_len 16, tag len 4, chain order HASH_CIPHER on encrypt,
 * CIPHER_HASH on decrypt).
 *
 * encrypt:
 *   1. if hash_len >= 14 (IMB_DOCSIS_CRC32_MIN_ETH_PDU_SIZE):
 *        crc = ref_crc32_ethernet(frame + hash_off, hash_len);
 *        the 4 CRC bytes (little-endian) are WRITTEN INTO THE FRAME at
 *        frame[hash_off + hash_len .. +4) and also into tag[0..4).
 *      if hash_len < 14: no CRC is computed and the frame is not touched by the
 *        hash stage.  The content of auth_tag_output is then UNDEFINED in the
 *        library: the SSE and AVX2 managers (C code in docsis_common.h) do not
 *        write it at all, the AVX512 managers write 0 on encrypt and an
 *        unspecified value on decrypt.  This model sets tag[0..4) = 0 (caller
 *        must not compare).
 *   2. BPI-encrypt frame[cipher_off .. cipher_off + cipher_len):
 *        cipher_len >= 16: AES-CBC(iv) over the floor(len/16) full blocks, then
 *            the residual r = len % 16 bytes (if any) are XORed with the first
 *            r bytes of E_K(last full CIPHERTEXT block)   (CFB residual);
 *        0 < cipher_len < 16: out = in XOR E_K(iv)[0..len)  (CFB, one block);
 *        cipher_len == 0: nothing.
 *      The cipher range normally covers the CRC bytes just written.
 * decrypt:
 *   1. BPI-decrypt the same range (residual first: P = C XOR E_K(last full
 *      ciphertext block); then CBC-decrypt the full blocks; short: as above).
 *   2. if hash_len >= 14: tag = CRC32 over the DECIPHERED frame[hash_off ..
 *      hash_off+hash_len).  The CRC bytes that follow the range in the frame
 *      are NOT overwritten (they hold the received, deciphered CRC; the caller
 *      compares tag against them).  hash_len < 14: tag untouched by the
 *      library (0 here).
 *
 * Constraints enforced by the library (mb_mgr_job_check.h), only when both
 * hash_len and cipher_len are non-zero:
 *      cipher_off >= hash_off + 12   (DA+SA are never ciphered; note that the
 *                                     comment in the header says "<=" but the
 *                                     code rejects "<")
 *      cipher_len + 8 <= hash_len    (i.e. cipher_len <= hash_len - 12 + 4)
 * so with cipher_off = hash_off + 12 the cipher range can end at most at the
 * end of the CRC field.  The library does not check that cipher_off +
 * cipher_len stays inside hash range + 4 for larger cipher_off.
 * Key lengths accepted by the library: 16 and 32 (this model also takes 24).
 *
 * Measured against the pinned library (xcheck_aead.c):
 *  - SSE t1-t3 and AVX2 t1-t2 agree with this model for every accepted geometry.
 *  - AVX512 t1/t2 use a stitched CRC+cipher kernel that IGNORES msg_len_to_hash
 *    whenever cipher_len != 0: it takes the CRC range to be
 *    [hash_off, cipher_off + cipher_len - 4), i.e. it silently assumes the
 *    canonical geometry cipher_off + cipher_len == hash_off + hash_len + 4
 *    (cipher runs exactly to the end of the CRC field; all kat-app vectors have
 *    it).  For that geometry with cipher_len >= 5 they agree with this model;
 *    for accepted jobs whose cipher range stops earlier they produce a different
 *    CRC/frame than SSE/AVX2, and for cipher_len 1..4 (cipher range lies inside
 *    the CRC field) their decrypt-side CRC is wrong (cipher_len 4: bitwise
 *    complement of the correct CRC).
 */
void ref_docsis_crc32(int enc, const uint8_t *key, int klen, const uint8_t iv[16], uint8_t *frame,
                      size_t hash_off, size_t hash_len, size_t cipher_off, size_t cipher_len,
                      uint8_t tag[4]);

/*
 * PON: IMB_CIPHER_PON_AES_CNTR + IMB_AUTH_PON_CRC_BIP  (job: src = frame,
 * hash_start_src_offset = 0, msg_len_to_hash = frame_len, dst = frame + 8,
 * cipher_start_src_offset = 8, msg_len_to_cipher = frame_len - 8 (or 0 for the
 * no-CTR variant), key 16 bytes, iv_len 16, tag len 8).
 *
 * Frame: 8-byte XGEM header (big-endian 64 bit: PLI = top 14 bits, then 37
 * more payload-format bits, HEC = low 13 bits) followed by the payload padded
 * by the caller so that frame_len is a multiple of 4, frame_len >= 8 and
 * PLI <= frame_len - 8 (library: IMB_ERR_JOB_PON_PLI otherwise; test vectors
 * pad short payloads to 8 bytes, the library only requires multiples of 4).
 *
 * encrypt (library order: CRC32, AES-CTR, BIP):
 *   1. the HEC field of the header is recomputed (ref_hec64) and the header
 *      is stored back into the frame;
 *   2. if PLI > 4: crc = Ethernet CRC32 over payload[0 .. PLI-4) and its 4
 *      bytes (little-endian) are written into payload[PLI-4 .. PLI) (source
 *      buffer, before ciphering) and into tag[4..8);
 *      if PLI <= 4: nothing is computed or written to the frame; tag[4..8) is
 *      UNDEFINED in the library (SSE/AVX2 kernels store an uninitialised
 *      register there, the AVX512 kernel leaves the 4 bytes untouched) - this
 *      model writes 0, callers must not compare these 4 bytes when PLI <= 4;
 *   3. key != NULL: AES-128-CTR over ALL frame_len - 8 payload bytes (CRC and
 *      padding included).  Counter block = the 16-byte IV as is, incremented
 *      as a 128-bit big-endian integer per block (first block uses IV itself);
 *      key == NULL ("no CTR", library: msg_len_to_cipher_in_bytes == 0, key
 *      and IV pointers may be NULL): payload left as is;
 *   4. BIP = XOR of all 4-byte words of header (with the updated HEC) +
 *      payload as they leave the function (i.e. over CIPHERTEXT), frame_len
 *      bytes; tag[i] = XOR of frame[4k+i], i = 0..3 (memory order, no swap).
 * decrypt (library order: BIP, AES-CTR, CRC32):
 *   1. BIP over the frame as received (ciphertext, header untouched: HEC is
 *      NOT recomputed on decrypt);
 *   2. key != NULL: AES-128-CTR over frame_len - 8 bytes;
 *   3. PLI > 4: CRC32 over the deciphered payload[0 .. PLI-4) -> tag[4..8)
 *      only; the frame's CRC field is not overwritten (caller compares).
 * tag layout = what the library writes to its 8-byte auth_tag_output:
 *      tag[0..4) = BIP, tag[4..8) = CRC (little-endian Ethernet FCS bytes, the
 *      same 4 bytes that are placed in the frame).
 * Note: when the library is given 0 < msg_len_to_cipher < msg_len_to_hash - 8
 * it ciphers and BIPs only 8 + msg_len_to_cipher bytes; this model always
 * uses frame_len - 8.
 */
void ref_pon(int enc, const uint8_t *key /* NULL = no-CTR */, const uint8_t iv[16], uint8_t *frame,
             size_t frame_len /* = msg_len_to_hash */, uint8_t tag[8]);

/*
 * XGEM header HEC (ITU-T G.987.3 / G.989.3): the header is a big-endian bit
 * string whose last 13 bits are the HEC = 12-bit BCH remainder followed by one
 * parity bit.
 *      rem12  = (D(x) * x^12) mod g(x),  g(x) = x^12+x^10+x^8+x^5+x^4+x^3+1
 *               where D = the leading 19 (HEC_32) or 51 (HEC_64) bits
 *      parity = 1 bit making the number of ones in the whole header even
 * The 13 HEC bits present in the input are ignored.
 * IMB_HEC_32 / IMB_HEC_64 return "the header with updated HEC in BE format
 * (ready for store)": an integer that, stored little-endian (x86 store), gives
 * the header bytes in network order.  These functions return exactly that:
 *      ret = out[0] | out[1] << 8 | ...   with out[] the updated header bytes.
 */
uint32_t ref_hec32(const uint8_t in[4]);
uint64_t ref_hec64(const uint8_t in[8]);

#endif /* REF_AEAD_H */
