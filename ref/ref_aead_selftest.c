/*
 * ref_aead_selftest.c - standalone self test of the reference model ref_aead.c
 *
 * build: gcc -O2 -Wno-deprecated-declarations -o ref_aead_selftest ref_aead_selftest.c ref_aead.c -lcrypto
 *
 * 1. every function against PUBLISHED vectors embedded below as literals:
 *      GCM        McGrew-Viega "The Galois/Counter Mode of Operation" Appendix B
 *                 (= NIST gcm-revised-spec) test cases 1-18: 3 key sizes, 96-bit,
 *                 64-bit and 480-bit IVs; hash keys H from the same appendix
 *      GMAC       test cases 1/7/13 (empty AAD) + the GMAC vectors of
 *                 test/kat-app/gmac_test.json.c (frozen copy)
 *      CCM        NIST SP 800-38C Appendix C examples 1-4, RFC 3610 packet
 *                 vectors #1-#24
 *      ChaCha20-Poly1305   RFC 8439 sect. 2.8.2 and Appendix A.5 (+ the third vector of
 *                 test/kat-app/chacha20_poly1305_test.json.c, frozen copy)
 *      SM4-GCM    RFC 8998 Appendix A.1
 *      CRC32      "123456789" check value, {1,2,3,4} value quoted in the library
 *      DOCSIS / PON / HEC  frozen literal copies of the vectors in
 *                 /repo/test/kat-app/{aes_test.c,pon_test.c,hec_test.c}
 * 2. GCM / CCM / ChaCha20-Poly1305 cross-checked against OpenSSL EVP AEAD over
 *    plaintext lengths 0..200, AAD lengths 0..40, GCM IV lengths 1..32,
 *    CCM nonce 7..13 and tags 4..16, all key sizes, both directions.
 *
 * Prints "ok <name> <n>" lines; exit status 0 only if everything matched.
 */
#include <stdio.h>
#include <stdlib.h>
#include <string.h>
#include <stdint.h>
#include <openssl/evp.h>

#include "ref_aead.h"

static int failures;

#define MAXB 70000

static size_t
hx(const char *s, uint8_t *out)
{
        size_t n = 0;

        if (s == NULL)
                return 0;
        while (s[0] && s[1]) {
                unsigned v;

                if (sscanf(s, "%2x", &v) != 1) {
                        fprintf(stderr, "bad hex literal\n");
                        exit(2);
                }
                out[n++] = (uint8_t) v;
                s += 2;
        }
        return n;
}

static void
fail(const char *what, int idx, const char *detail)
{
        printf("FAIL %s #%d %s\n", what, idx, detail);
        failures++;
}

static void
report(const char *name, int n, int before)
{
        if (failures == before)
                printf("ok %s %d\n", name, n);
        else
                printf("NOT ok %s %d (%d failures)\n", name, n, failures - before);
}

struct aead_vec {
        const char *key, *iv, *aad, *pt, *ct, *tag;
};
struct gmac_vec {
        const char *key, *iv, *msg, *tag;
};
struct ccm_pkt_vec {
        const char *key, *nonce;
        int aadlen, taglen;
        const char *packet, *expected;
};
struct docsis_vec {
        const char *name, *key, *iv, *pt, *ct;
        int hoff, hlen, coff, clen;
        uint32_t crc;
};
struct pon_vec {
        const char *name, *key, *iv, *in, *out;
        uint32_t bip;
};

/* ------------------------------------------------------------------------- */
/* GCM: McGrew-Viega / NIST gcm-revised-spec Appendix B, test cases 1..18     */
/* ------------------------------------------------------------------------- */
#define K128 "feffe9928665731c6d6a8f9467308308"
#define K192 "feffe9928665731c6d6a8f9467308308feffe9928665731c"
#define K256 "feffe9928665731c6d6a8f9467308308feffe9928665731c6d6a8f9467308308"
#define Z128 "00000000000000000000000000000000"
#define Z192 "000000000000000000000000000000000000000000000000"
#define Z256 "0000000000000000000000000000000000000000000000000000000000000000"
#define IV0  "000000000000000000000000"
#define IV12 "cafebabefacedbaddecaf888"
#define IV8  "cafebabefacedbad"
#define IV60                                                                                       \
        "9313225df88406e555909c5aff5269aa6a7a9538534f7da1e4c303d2a318a728"                         \
        "c3c0c95156809539fcf0e2429a6b525416aedbf5a0de6a57a637b39b"
#define P64                                                                                        \
        "d9313225f88406e5a55909c5aff5269a86a7a9531534f7da2e4c303d8a318a72"                         \
        "1c3c0c95956809532fcf0e2449a6b525b16aedf5aa0de657ba637b391aafd255"
#define P60                                                                                        \
        "d9313225f88406e5a55909c5aff5269a86a7a9531534f7da2e4c303d8a318a72"                         \
        "1c3c0c95956809532fcf0e2449a6b525b16aedf5aa0de657ba637b39"
#define A20 "feedfacedeadbeeffeedfacedeadbeefabaddad2"

static const struct aead_vec gcm_vecs[] = {
        /* 1 */ { Z128, IV0, "", "", "", "58e2fccefa7e3061367f1d57a4e7455a" },
        /* 2 */
        { Z128, IV0, "", Z128, "0388dace60b6a392f328c2b971b2fe78",
          "ab6e47d42cec13bdf53a67b21257bddf" },
        /* 3 */
        { K128, IV12, "", P64,
          "42831ec2217774244b7221b784d0d49ce3aa212f2c02a4e035c17e2329aca12e"
          "21d514b25466931c7d8f6a5aac84aa051ba30b396a0aac973d58e091473f5985",
          "4d5c2af327cd64a62cf35abd2ba6fab4" },
        /* 4 */
        { K128, IV12, A20, P60,
          "42831ec2217774244b7221b784d0d49ce3aa212f2c02a4e035c17e2329aca12e"
          "21d514b25466931c7d8f6a5aac84aa051ba30b396a0aac973d58e091",
          "5bc94fbc3221a5db94fae95ae7121a47" },
        /* 5 */
        { K128, IV8, A20, P60,
          "61353b4c2806934a777ff51fa22a4755699b2a714fcdc6f83766e5f97b6c7423"
          "73806900e49f24b22b097544d4896b424989b5e1ebac0f07c23f4598",
          "3612d2e79e3b0785561be14aaca2fccb" },
        /* 6 */
        { K128, IV60, A20, P60,
          "8ce24998625615b603a033aca13fb894be9112a5c3a211a8ba262a3cca7e2ca7"
          "01e4a9a4fba43c90ccdcb281d48c7c6fd62875d2aca417034c34aee5",
          "619cc5aefffe0bfa462af43c1699d050" },
        /* 7 */ { Z192, IV0, "", "", "", "cd33b28ac773f74ba00ed1f312572435" },
        /* 8 */
        { Z192, IV0, "", Z128, "98e7247c07f0fe411c267e4384b0f600",
          "2ff58d80033927ab8ef4d4587514f0fb" },
        /* 9 */
        { K192, IV12, "", P64,
          "3980ca0b3c00e841eb06fac4872a2757859e1ceaa6efd984628593b40ca1e19c"
          "7d773d00c144c525ac619d18c84a3f4718e2448b2fe324d9ccda2710acade256",
          "9924a7c8587336bfb118024db8674a14" },
        /* 10 */
        { K192, IV12, A20, P60,
          "3980ca0b3c00e841eb06fac4872a2757859e1ceaa6efd984628593b40ca1e19c"
          "7d773d00c144c525ac619d18c84a3f4718e2448b2fe324d9ccda2710",
          "2519498e80f1478f37ba55bd6d27618c" },
        /* 11 */
        { K192, IV8, A20, P60,
          "0f10f599ae14a154ed24b36e25324db8c566632ef2bbb34f8347280fc4507057"
          "fddc29df9a471f75c66541d4d4dad1c9e93a19a58e8b473fa0f062f7",
          "65dcc57fcf623a24094fcca40d3533f8" },
        /* 12 */
        { K192, IV60, A20, P60,
          "d27e88681ce3243c4830165a8fdcf9ff1de9a1d8e6b447ef6ef7b79828666e45"
          "81e79012af34ddd9e2f037589b292db3e67c036745fa22e7e9b7373b",
          "dcf566ff291c25bbb8568fc3d376a6d9" },
        /* 13 */ { Z256, IV0, "", "", "", "530f8afbc74536b9a963b4f1c4cb738b" },
        /* 14 */
        { Z256, IV0, "", Z128, "cea7403d4d606b6e074ec5d3baf39d18",
          "d0d1c8a799996bf0265b98b5d48ab919" },
        /* 15 */
        { K256, IV12, "", P64,
          "522dc1f099567d07f47f37a32a84427d643a8cdcbfe5c0c97598a2bd2555d1aa"
          "8cb08e48590dbb3da7b08b1056828838c5f61e6393ba7a0abcc9f662898015ad",
          "b094dac5d93471bdec1a502270e3cc6c" },
        /* 16 */
        { K256, IV12, A20, P60,
          "522dc1f099567d07f47f37a32a84427d643a8cdcbfe5c0c97598a2bd2555d1aa"
          "8cb08e48590dbb3da7b08b1056828838c5f61e6393ba7a0abcc9f662",
          "76fc6ece0f4e1768cddf8853bb2d551b" },
        /* 17 */
        { K256, IV8, A20, P60,
          "c3762df1ca787d32ae47c13bf19844cbaf1ae14d0b976afac52ff7d79bba9de0"
          "feb582d33934a4f0954cc2363bc73f7862ac430e64abe499f47c9b1f",
          "3a337dbf46a792c45e454913fe2ea8f2" },
        /* 18 */
        { K256, IV60, A20, P60,
          "5a8def2f0c9e53f1f75d7853659e2a20eeb2b22aafde6419a058ab4f6f746bf4"
          "0fc0c3b780f244452da3ebf1c5d82cdea2418997200ef82e44ae7e3f",
          "a44a8266ee1c8eb0c8b5d4cf5ae9f19a" },
};

/* hash keys H = E_K(0^128) listed in the same appendix */
static const struct {
        const char *key, *h;
} hashkey_vecs[] = {
        { Z128, "66e94bd4ef8a2c3b884cfa59ca342b2e" }, { K128, "b83b533708bf535d0aa6e52980d53b78" },
        { Z192, "aae06992acbf52a3e8f4a96ec9300bd7" }, { K192, "466923ec9ae682214f2c082badb39249" },
        { Z256, "dc95c078a2408989ad48a21492842087" }, { K256, "acbef20579b4b8ebce889bac8732dad7" },
};

/* ------------------------------------------------------------------------- */
/* CCM: NIST SP 800-38C Appendix C examples 1-3 (example 4 is built in code)  */
/* ------------------------------------------------------------------------- */
#define CCMK "404142434445464748494a4b4c4d4e4f"
static const struct aead_vec ccm_nist_vecs[] = {
        /* key, nonce, aad, pt, ct, tag */
        { CCMK, "10111213141516", "0001020304050607", "20212223", "7162015b", "4dac255d" },
        { CCMK, "1011121314151617", "000102030405060708090a0b0c0d0e0f",
          "202122232425262728292a2b2c2d2e2f", "d2a1f0e051ea5f62081a7792073d593d",
          "1fc64fbfaccd" },
        { CCMK, "101112131415161718191a1b", "000102030405060708090a0b0c0d0e0f10111213",
          "202122232425262728292a2b2c2d2e2f3031323334353637",
          "e3b201a9f5b71a7a9b1ceaeccd97e70b6176aad9a4428aa5", "484392fbc1b09951" },
};
/* example 4: nonce 13 bytes, AAD = 00..ff repeated 256 times (65536 bytes), Tlen 14 */
static const struct aead_vec ccm_nist_ex4 = {
        CCMK, "101112131415161718191a1b1c", NULL,
        "202122232425262728292a2b2c2d2e2f303132333435363738393a3b3c3d3e3f",
        "69915dad1e84c6376a68c2967e4dab615ae0fd1faec44cc484828529463ccf72",
        "b4ac6bec93e8598e7f0dadbcea5b"
};

/* ------------------------------------------------------------------------- */
/* SM4-GCM: RFC 8998 Appendix A.1                                             */
/* ------------------------------------------------------------------------- */
static const struct aead_vec sm4_gcm_vecs[] = {
        { "0123456789abcdeffedcba9876543210", "00001234567800000000abcd",
          "feedfacedeadbeeffeedfacedeadbeefabaddad2",
          "aaaaaaaaaaaaaaaabbbbbbbbbbbbbbbbccccccccccccccccdddddddddddddddd"
          "eeeeeeeeeeeeeeeeffffffffffffffffeeeeeeeeeeeeeeeeaaaaaaaaaaaaaaaa",
          "17f399f08c67d5ee19d0dc9969c4bb7d5fd46fd3756489069157b282bb200735"
          "d82710ca5c22f0ccfa7cbf93d496ac15a56834cbcf98c397b4024a2691233b8d",
          "83de3541e4c2b58177e065a9bf7b62ec" },
};

/* RFC 3610 packet vectors (frozen copy; key, nonce, aadlen, packet, expected) */
static const struct ccm_pkt_vec rfc3610_vecs[] = {
  { "c0c1c2c3c4c5c6c7c8c9cacbcccdcecf", "00000003020100a0a1a2a3a4a5", 8, 8, "000102030405060708090a0b0c0d0e0f101112131415161718191a1b1c1d1e",
    "0001020304050607588c979a61c663d2f066d0c2c0f989806d5f6b61dac38417e8d12cfdf926e0" },
  { "c0c1c2c3c4c5c6c7c8c9cacbcccdcecf", "00000004030201a0a1a2a3a4a5", 8, 8, "000102030405060708090a0b0c0d0e0f101112131415161718191a1b1c1d1e1f",
    "000102030405060772c91a36e135f8cf291ca894085c87e3cc15c439c9e43a3ba091d56e10400916" },
  { "c0c1c2c3c4c5c6c7c8c9cacbcccdcecf", "00000005040302a0a1a2a3a4a5", 8, 8, "000102030405060708090a0b0c0d0e0f101112131415161718191a1b1c1d1e1f20",
    "000102030405060751b1e5f44a197d1da46b0f8e2d282ae871e838bb64da8596574adaa76fbd9fb0c5" },
  { "c0c1c2c3c4c5c6c7c8c9cacbcccdcecf", "00000006050403a0a1a2a3a4a5", 12, 8, "000102030405060708090a0b0c0d0e0f101112131415161718191a1b1c1d1e",
    "000102030405060708090a0ba28c6865939a9a79faaa5c4c2a9d4a91cdac8c96c861b9c9e61ef1" },
  { "c0c1c2c3c4c5c6c7c8c9cacbcccdcecf", "00000007060504a0a1a2a3a4a5", 12, 8, "000102030405060708090a0b0c0d0e0f101112131415161718191a1b1c1d1e1f",
    "000102030405060708090a0bdcf1fb7b5d9e23fb9d4e131253658ad86ebdca3e51e83f077d9c2d93" },
  { "c0c1c2c3c4c5c6c7c8c9cacbcccdcecf", "00000008070605a0a1a2a3a4a5", 12, 8, "000102030405060708090a0b0c0d0e0f101112131415161718191a1b1c1d1e1f20",
    "000102030405060708090a0b6fc1b011f006568b5171a42d953d469b2570a4bd87405a0443ac91cb94" },
  { "c0c1c2c3c4c5c6c7c8c9cacbcccdcecf", "00000009080706a0a1a2a3a4a5", 8, 10, "000102030405060708090a0b0c0d0e0f101112131415161718191a1b1c1d1e",
    "00010203040506070135d1b2c95f41d5d1d4fec185d166b8094e999dfed96c048c56602c97acbb7490" },
  { "c0c1c2c3c4c5c6c7c8c9cacbcccdcecf", "0000000a090807a0a1a2a3a4a5", 8, 10, "000102030405060708090a0b0c0d0e0f101112131415161718191a1b1c1d1e1f",
    "00010203040506077b75399ac0831dd2f0bbd75879a2fd8f6cae6b6cd9b7db24c17b4433f434963f34b4" },
  { "c0c1c2c3c4c5c6c7c8c9cacbcccdcecf", "0000000b0a0908a0a1a2a3a4a5", 8, 10, "000102030405060708090a0b0c0d0e0f101112131415161718191a1b1c1d1e1f20",
    "000102030405060782531a60cc24945a4b8279181ab5c84df21ce7f9b73f42e197ea9c07e56b5eb17e5f4e" },
  { "c0c1c2c3c4c5c6c7c8c9cacbcccdcecf", "0000000c0b0a09a0a1a2a3a4a5", 12, 10, "000102030405060708090a0b0c0d0e0f101112131415161718191a1b1c1d1e",
    "000102030405060708090a0b07342594157785152b074098330abb141b947b566aa9406b4d999988dd" },
  { "c0c1c2c3c4c5c6c7c8c9cacbcccdcecf", "0000000d0c0b0aa0a1a2a3a4a5", 12, 10, "000102030405060708090a0b0c0d0e0f101112131415161718191a1b1c1d1e1f",
    "000102030405060708090a0b676bb20380b0e301e8ab79590a396da78b834934f53aa2e9107a8b6c022c" },
  { "c0c1c2c3c4c5c6c7c8c9cacbcccdcecf", "0000000e0d0c0ba0a1a2a3a4a5", 12, 10, "000102030405060708090a0b0c0d0e0f101112131415161718191a1b1c1d1e1f20",
    "000102030405060708090a0bc0ffa0d6f05bdb67f24d43a4338d2aa4bed7b20e43cd1aa31662e7ad65d6db" },
  { "d7828d13b2b0bdc325a76236df93cc6b", "00412b4ea9cdbe3c9696766cfa", 8, 8, "0be1a88bace018b108e8cf97d820ea258460e96ad9cf5289054d895ceac47c",
    "0be1a88bace018b14cb97f86a2a4689a877947ab8091ef5386a6ffbdd080f8e78cf7cb0cddd7b3" },
  { "d7828d13b2b0bdc325a76236df93cc6b", "0033568ef7b2633c9696766cfa", 8, 8, "63018f76dc8a1bcb9020ea6f91bdd85afa0039ba4baff9bfb79c7028949cd0ec",
    "63018f76dc8a1bcb4ccb1e7ca981befaa0726c55d378061298c85c92814abc33c52ee81d7d77c08a" },
  { "d7828d13b2b0bdc325a76236df93cc6b", "00103fe41336713c9696766cfa", 8, 8, "aa6cfa36cae86b40b916e0eacc1c00d7dcec68ec0b3bbb1a02de8a2d1aa346132e",
    "aa6cfa36cae86b40b1d23a2220ddc0ac900d9aa03c61fcf4a559a4417767089708a776796edb723506" },
  { "d7828d13b2b0bdc325a76236df93cc6b", "00764c63b8058e3c9696766cfa", 12, 8, "d0d0735c531e1becf049c24412daac5630efa5396f770ce1a66b21f7b2101c",
    "d0d0735c531e1becf049c24414d253c3967b70609b7cbb7c499160283245269a6f49975bcadeaf" },
  { "d7828d13b2b0bdc325a76236df93cc6b", "00f8b678094e3b3c9696766cfa", 12, 8, "77b60f011c03e1525899bcaee88b6a46c78d63e52eb8c546efb5de6f75e9cc0d",
    "77b60f011c03e1525899bcae5545ff1a085ee2efbf52b2e04bee1e2336c73e3f762c0c7744fe7e3c" },
  { "d7828d13b2b0bdc325a76236df93cc6b", "00d560912d3f703c9696766cfa", 12, 8, "cd9044d2b71fdb8120ea60c06435acbafb11a82e2f071d7ca4a5ebd93a803ba87f",
    "cd9044d2b71fdb8120ea60c0009769ecabdf48625594c59251e6035722675e04c847099e5ae0704551" },
  { "d7828d13b2b0bdc325a76236df93cc6b", "0042fff8f1951c3c9696766cfa", 8, 10, "d85bc7e69f944fb88a19b950bcf71a018e5e6701c91787659809d67dbedd18",
    "d85bc7e69f944fb8bc218daa947427b6db386a99ac1aef23ade0b52939cb6a637cf9bec2408897c6ba" },
  { "d7828d13b2b0bdc325a76236df93cc6b", "00920f40e56cdc3c9696766cfa", 8, 10, "74a0ebc9069f5b371761433c37c5a35fc1f39f406302eb907c6163be38c98437",
    "74a0ebc9069f5b375810e6fd25874022e80361a478e3e9cf484ab04f447efff6f0a477cc2fc9bf548944" },
  { "d7828d13b2b0bdc325a76236df93cc6b", "0027ca0c7120bc3c9696766cfa", 8, 10, "44a3aa3aae6475caa434a8e58500c6e41530538862d686ea9e81301b5ae4226bfa",
    "44a3aa3aae6475caf2beed7bc5098e83feb5b31608f8e29c38819a89c8e776f1544d4151a4ed3a8b87b9ce" },
  { "d7828d13b2b0bdc325a76236df93cc6b", "005b8ccbcd9af83c9696766cfa", 12, 10, "ec46bb63b02520c33c49fd70b96b49e21d621741632875db7f6c9243d2d7c2",
    "ec46bb63b02520c33c49fd7031d750a09da3ed7fddd49a2032aabf17ec8ebf7d22c8088c666be5c197" },
  { "d7828d13b2b0bdc325a76236df93cc6b", "003ebe94044b9a3c9696766cfa", 12, 10, "47a65ac78b3d594227e85e71e2fcfbb880442c731bf95167c8ffd7895e337076",
    "47a65ac78b3d594227e85e71e882f1dbd38ce3eda7c23f04dd65071eb41342acdf7e00dccec7ae52987d" },
  { "d7828d13b2b0bdc325a76236df93cc6b", "008d493b30ae8b3c9696766cfa", 12, 10, "6e37a6ef546d955d34ab6059abf21c0b02feb88f856df4a37381bce3cc128517d4",
    "6e37a6ef546d955d34ab6059f32905b88a641b04b9c9ffb58cc390900f3da12ab16dce9e82efa16da62059" },
};
static const struct aead_vec rfc8439_vecs[] = {
  { "808182838485868788898a8b8c8d8e8f909192939495969798999a9b9c9d9e9f", "070000004041424344454647", "50515253c0c1c2c3c4c5c6c7",
    "4c616469657320616e642047656e746c656d656e206f662074686520636c617373206f66202739393a204966204920636f756c64206f6666657220796f75206f6e6c79206f6e652074697020666f7220746865206675747572652c2073756e73637265656e20776f756c642062652069742e",
    "d31a8d34648e60db7b86afbc53ef7ec2a4aded51296e08fea9e2b5a736ee62d63dbea45e8ca9671282fafb69da92728b1a71de0a9e060b2905d6a5b67ecd3b3692ddbd7f2d778b8c9803aee328091b58fab324e4fad675945585808b4831d7bc3ff4def08e4b7a9de576d26586cec64b6116", "1ae10b594f09e26a7e902ecbd0600691" },
  { "1c9240a5eb55d38af333888604f6b5f0473917c1402b80099dca5cbc207075c0", "000000000102030405060708", "f33388860000000000004e91",
    "496e7465726e65742d4472616674732061726520647261667420646f63756d656e74732076616c696420666f722061206d6178696d756d206f6620736978206d6f6e74687320616e64206d617920626520757064617465642c207265706c616365642c206f72206f62736f6c65746564206279206f7468657220646f63756d656e747320617420616e792074696d652e20497420697320696e617070726f70726961746520746f2075736520496e7465726e65742d447261667473206173207265666572656e6365206d6174657269616c206f7220746f2063697465207468656d206f74686572207468616e206173202fe2809c776f726b20696e2070726f67726573732e2fe2809d",
    "64a0861575861af460f062c79be643bd5e805cfd345cf389f108670ac76c8cb24c6cfc18755d43eea09ee94e382d26b0bdb7b73c321b0100d4f03b7f355894cf332f830e710b97ce98c8a84abd0b948114ad176e008d33bd60f982b1ff37c8559797a06ef4f0ef61c186324e2b3506383606907b6a7c02b0f9f6157b53c867e4b9166c767b804d46a59b5216cde7a4e99040c5a40433225ee282a1b0a06c523eaf4534d7f83fa1155b0047718cbc546a0d072b04b3564eea1b422273f548271a0bb2316053fa76991955ebd63159434ecebb4e466dae5a1073a6727627097a1049e617d91d361094fa68f0ff77987130305beaba2eda04df997b714d6c6f2c29a6ad5cb4022b02709b", "eead9d67890cbb22392336fea1851f38" },
  { "808182838485868788898a8b8c8d8e8f606162636465666768666a6b6c6d6e6f", "010204080b0d0f1010111213", "00020406080a0c0e10121416",
    "",
    "", "320845b885ddb5817436e3113f516dbf" },
};
static const struct gmac_vec gmac_vecs[] = {
  { "000102030405060708090a0b0c0d0e0f", "000102030405060708090a0b", "000102030405060708090a0b0c0d0e0f101112131415161718191a1b1c1d1e1f202122232425262728292a2b2c2d2e2f303132333435363738393a3b3c3d3e3f", "c53af9e8" },
  { "feffe9928665731c6d6a8f9467308308", "cafebabefacedbaddecaf888", "0102030405060708090a0b0c0d0e0f100102030405060708090a0b0c0d0e0f100102030405060708090a0b0c0d0e0f100102030405060708090a0b0c0d0e0f100102030405060708090a0b0c0d0e0f100102030405060708090a0b0c0d0e0f100102030405060708090a0b0c0d0e0f100102030405060708090a0b0c0d0e0f100102030405060708090a0b0c0d0e0f100102030405060708090a0b0c0d0e0f10", "4c0c4f472d78f6d80353202f1adf90d0" },
  { "aa740abfadcda779220d3b406c5d7ec09a77fe9d94104539", "ab2265b4c168955561f04315", "0102030405060708090a0b0c0d0e0f100102030405060708090a0b0c0d0e0f100102030405060708090a0b0c0d0e0f100102030405060708090a0b0c0d0e0f100102030405060708090a0b0c0d0e0f10", "cf8280640246f4fb33ae1d90ea4883db" },
  { "b548e4934f5c64d3c0f0b78f7b4d8824aac46b3c8d2cc35ee4bfb254e4fcbaf7", "2eede1dc6447c7afc4415358", "0102030405060708090a0b0c0d0e0f100102030405060708090a0b0c0d0e0f100102030405060708090a0b0c0d0e0f100102030405060708090a0b0c0d0e0f1001", "77460d6fb187dba946adcdfbb7f913a1" },
};
/* DOCSIS SEC BPI + CRC32 vectors: frozen copy of test/kat-app/aes_test.c DOCRC1..18 */
static const struct docsis_vec docsis_vecs[] = {
  { "DOCRC1", "00000000aabbccddeeff001122334455", "11111111111111111111111111111111",
    "00000000000001020304050606050403020108001408e855",
    "0000000000000102030405060605040302017af061f86342", 6, 14, 18, 6, 0x55e80814U },
  { "DOCRC2", "00000000aabbccddeeff001122334455", "11111111111111111111111111111111",
    "0000000000000102030405060605040302010800aa0e998efe",
    "0000000000000102030405060605040302017af0dffe1299e5", 6, 15, 18, 7, 0xFE8E990EU },
  { "DOCRC3", "00000000aabbccddeeff001122334455", "11111111111111111111111111111111",
    "0000000000000102030405060605040302010800aaaaaaaaaaaaaaaaaaaacb7cab56",
    "000000000000010203040506060504030201d6e2705ce64dcc8c47b709d65485f832", 6, 24, 18, 16, 0x56AB7CCBU },
  { "DOCRC4", "00000000aabbccddeeff001122334455", "11111111111111111111111111111111",
    "0000000000000102030405060605040302010800aaaaaaaaaaaaaaaaaaaaaa3f15e1e8",
    "000000000000010203040506060504030201926ac2dcee3b31ec03de95335efe473e22", 6, 25, 18, 17, 0xE8E1153FU },
  { "DOCRC5", "00000000aabbccddeeff001122334455", "11111111111111111111111111111111",
    "0000000000000102030405060605040302010800aaaaaaaaaaaaaaaaaaaaaaaaaaaaaaaaaaaaaaaaaaaaaaaaaaaaaaaaaaaaaaaaaaaaaaaaaaaaaaaaaaaaaaaaaaaaaaaaaaaaaaaaaaaaaaaaaaaa2e07c83c",
    "00000000000001020304050606050403020177745605d114a28d2c9a11fc7db0e718ce757c891456e2f2b7470827f7087a13908175b0c7910483ad114646f85487a042f371a98acd597767111a87abed2c26", 6, 72, 18, 64, 0x3CC8072EU },
  { "DOCRC6", "00000000aabbccddeeff001122334455", "11111111111111111111111111111111",
    "0000000000000102030405060605040302010800aaaaaaaaaaaaaaaaaaaaaaaaaaaaaaaaaaaaaaaaaaaaaaaaaaaaaaaaaaaaaaaaaaaaaaaaaaaaaaaaaaaaaaaaaaaaaaaaaaaaaaaaaaaaaaaaaaaaaab360eb38",
    "00000000000001020304050606050403020177745605d114a28d2c9a11fc7db0e718ce757c891456e2f2b7470827f7087a13908175b0c7910483ad114646f85487a0a40cc2f08149a8a66c48eb1f4b2fd44818", 6, 73, 18, 65, 0x38EB60B3U },
  { "DOCRC7", "00000000aabbccddeeff001122334455", "11111111111111111111111111111111",
    "0000000000000102030405060605040302010800aaaaaaaaaaaaaaaaaaaaaaaaaaaaaaaaaaaaaaaaaaaaaaaaaaaaaaaaaaaaaaaaaaaaaaaaaaaaaaaaaaaaaaaaaaaaaaaaaaaaaaaaaaaaaaaaaaaaaab360eb38",
    "0000000000000102030405060605040302010800aaaaaaaaaaaaaaaaaaaaaaaaaaaaaaaaaaaaaaaa3b9f724cb5723e5654491353c4aacdea6a88990786f4cf034edf6561475b2f8109129ac2248c0911b40633", 6, 73, 40, 43, 0x38EB60B3U },
  { "DOCRC8", "00000000aabbccddeeff001122334455", "11111111111111111111111111111111",
    "0000000000000102030405060605040302010800aaaaaaaaaaaaaaaaaaaacb7cab56",
    "0000000000000102030405060605040302010800aaaaaaaaaaaaaaaaaaaacb7cab56", 6, 24, 18, 0, 0x56AB7CCBU },
  { "DOCRC9", "00000000aabbccddeeff001122334455", "11111111111111111111111111111111",
    "0000000000000102030405060605040302010800aaaaaaaaaaaaaaaaaaaaaaaaaaaa",
    "00000000000001020304050606050403020177745605d114a28d2c9a11fc7db0e718", 6, 0, 18, 16, 0x0U },
  { "DOCRC10", "00000000aabbccddeeff001122334455", "11111111111111111111111111111111",
    "0000000000000102030405060605040302010800aaaaaaaaaaaaaaaaaaaaffffff55",
    "0000000000000102030405060605040302010800aaaaaaaaaaaaaaaaaaaaffffff55", 6, 0, 18, 0, 0x0U },
  { "DOCRC18", "00000000aabbccddeeff001122334455", "11111111111111111111111111111111",
    "0000000000000102030405060605040302010800aaaaaaaaaaaaaaaaaaaaaaaaaaaaaaaaaaaaaaaaaaaaaaaaaaaaaaaaaaaaaaaaaaaaaaaaaaaaaaaaaaaaaaaaaaaaaaaaaaaaaaaaaaaaaaaaaaaaaaffffffff",
    "0000000000000102030405060605040302010800aaaaaaaaaaaaaaaaaaaaaaaaaaaaaaaaaaaaaaaa3b9f724cb5723e5654491353c4aacdea6a88990786f4cf034edf6561475b2f8109129ac2248c095d2b12f4", 6, 0, 40, 43, 0x0U },
  { "DOCRC11", "00000000aabbccddeeff00112233445500000000aabbccddeeff001122334455", "11111111111111111111111111111111",
    "00000000000001020304050606050403020108001408e855",
    "000000000000010203040506060504030201084698984776", 6, 14, 18, 6, 0x55e80814U },
  { "DOCRC12", "00000000aabbccddeeff00112233445500000000aabbccddeeff001122334455", "11111111111111111111111111111111",
    "0000000000000102030405060605040302010800aa0e998efe",
    "0000000000000102030405060605040302010846269e36adc7", 6, 15, 18, 7, 0xFE8E990EU },
  { "DOCRC13", "00000000aabbccddeeff00112233445500000000aabbccddeeff001122334455", "11111111111111111111111111111111",
    "0000000000000102030405060605040302010800aaaaaaaaaaaaaaaaaaaacb7cab56",
    "000000000000010203040506060504030201a1ff452143c75b3cab7a80c9705154d0", 6, 24, 18, 16, 0x56AB7CCBU },
  { "DOCRC14", "00000000aabbccddeeff00112233445500000000aabbccddeeff001122334455", "11111111111111111111111111111111",
    "0000000000000102030405060605040302010800aaaaaaaaaaaaaaaaaaaaaa3f15e1e8",
    "000000000000010203040506060504030201a08819503b70913c2a4674450330c8a9cc", 6, 25, 18, 17, 0xE8E1153FU },
  { "DOCRC15", "00000000aabbccddeeff00112233445500000000aabbccddeeff001122334455", "11111111111111111111111111111111",
    "0000000000000102030405060605040302010800aaaaaaaaaaaaaaaaaaaaaaaaaaaaaaaaaaaaaaaaaaaaaaaaaaaaaaaaaaaaaaaaaaaaaaaaaaaaaaaaaaaaaaaaaaaaaaaaaaaaaaaaaaaaaaaaaaaa2e07c83c",
    "0000000000000102030405060605040302015db3d1f46c65ca3b5c16b3a42374815e12037b3fbb621d2966601b6e01fe6f4012e620e610be5bf27e7f43536638a64df366849fe2ec9fbcd438db334e12b3b4", 6, 72, 18, 64, 0x3CC8072EU },
  { "DOCRC16", "00000000aabbccddeeff00112233445500000000aabbccddeeff001122334455", "11111111111111111111111111111111",
    "0000000000000102030405060605040302010800aaaaaaaaaaaaaaaaaaaaaaaaaaaaaaaaaaaaaaaaaaaaaaaaaaaaaaaaaaaaaaaaaaaaaaaaaaaaaaaaaaaaaaaaaaaaaaaaaaaaaaaaaaaaaaaaaaaaaab360eb38",
    "0000000000000102030405060605040302015db3d1f46c65ca3b5c16b3a42374815e12037b3fbb621d2966601b6e01fe6f4012e620e610be5bf27e7f43536638a64dd9a66a076baa5cf6b41dc59a7c48dbb174", 6, 73, 18, 65, 0x38EB60B3U },
  { "DOCRC17", "00000000aabbccddeeff00112233445500000000aabbccddeeff001122334455", "11111111111111111111111111111111",
    "0000000000000102030405060605040302010800aaaaaaaaaaaaaaaaaaaaaaaaaaaaaaaaaaaaaaaaaaaaaaaaaaaaaaaaaaaaaaaaaaaaaaaaaaaaaaaaaaaaaaaaaaaaaaaaaaaaaaaaaaaaaaaaaaaaaab360eb38",
    "0000000000000102030405060605040302010800aaaaaaaaaaaaaaaaaaaaaaaaaaaaaaaaaaaaaaaa9603949bda9600427b52d3b9a4107b870bba410e2b8fa6a3f5559c0c697c36d2bfa1f22bab1a92af1988dd", 6, 73, 40, 43, 0x38EB60B3U },
};
/* PON vectors: frozen copy of test/kat-app/pon_test.c vectors 1..13 (key/iv NULL = no CTR) */
static const struct pon_vec pon_vecs[] = {
  { "1_PON", "112233445566778899aabbccddeeff00", "00000000000000040000000000000004",
    "002027110000212301020304cdfb3cb6",
    "0020271100002123c76282ca3e92c85a", 0xA24CD0F9U },
  { "2_PON", "112233445566778899aabbccddeeff00", "00000000000000040000000000000004",
    "004027110000293c0102030405060101010101010014a904",
    "004027110000293cc76282caf66ff5edb7901e02ea38a178", 0x70C6E56CU },
  { "3_PON", "112233445566778899aabbccddeeff00", "00000000000000040000000000000004",
    "010027110000330b0102030405060101010101018100000108004500006ab07e0000040683bdc0a80001c0a8010104d2162e123456781234569050102000a6330000303153c1e60c",
    "010027110000330bc76282caf66ff5edb7901e026b2c087d3c90e82c443003295f88a9d61ef9d1f1d6168c72a4cdd28f6326c966b065249b605b1860bdd5061340c96064365f868c", 0xFBADE0DFU },
  { "4_PON", "112233445566778899aabbccddeeff00", "00000000000000040000000000000004",
    "0110271100003c180102030405060101010101018100000108004500006a706300000406c3d8c0a80001c0a8010104d2162e123456781234569050102000a6330000303132333435490d52ab",
    "0110271100003c18c76282caf66ff5edb7901e026b2c087d3c90e82c4430c3345f88a9d65e9cd1f1d6168c72a4cdd28f6326c966b065249b605b1860bdd5061340c9606457ad54b5d9ea01b2", 0x7EB18D27U },
  { "5_PON", NULL, NULL,
    "002027110000212301020304cdfb3cb6",
    "002027110000212301020304cdfb3cb6", 0x8039D9CCU },
  { "6_PON", NULL, NULL,
    "004027110000293c0102030405060101010101010014a904",
    "004027110000293c0102030405060101010101010014a904", 0x2DA45105U },
  { "7_PON", NULL, NULL,
    "010027110000330b0102030405060101010101018100000108004500006ab07e0000040683bdc0a80001c0a8010104d2162e123456781234569050102000a6330000303153c1e60c",
    "010027110000330b0102030405060101010101018100000108004500006ab07e0000040683bdc0a80001c0a8010104d2162e123456781234569050102000a6330000303153c1e60c", 0xABC2D56AU },
  { "8_PON", NULL, NULL,
    "0110271100003c180102030405060101010101018100000108004500006a706300000406c3d8c0a80001c0a8010104d2162e123456781234569050102000a6330000303132333435490d52ab",
    "0110271100003c180102030405060101010101018100000108004500006a706300000406c3d8c0a80001c0a8010104d2162e123456781234569050102000a6330000303132333435490d52ab", 0x378D5F02U },
  { "9_PON", "112233445566778899aabbccddeeff00", "00000000000000000000000000000000",
    "003903fd0000b36a08090a0b0c0d0e0f10118cd09a8b5555",
    "003903fd0000b36a73e05d5d329c3bfa6b66f68e5bd5abcd", 0x738bf671U },
  { "10_PON", "112233445566778899aabbccddeeff00", "00000000000000000000000000000000",
    "000503fd0000b9b40855555555555555",
    "000503fd0000b9b473bc02036bc460a0", 0xead87d18U },
  { "11_PON", NULL, NULL,
    "003903fd0000b36a08090a0b0c0d0e0f10118cd09a8b5555",
    "003903fd0000b36a08090a0b0c0d0e0f10118cd09a8b5555", 0x166da78eU },
  { "12_PON", NULL, NULL,
    "000503fd0000b9b40855555555555555",
    "000503fd0000b9b40855555555555555", 0x49ba055dU },
  { "13_PON", "112233445566778899aabbccddeeff00", "00000000000000000000000000000000",
    "001103fd0000bfff08090a0b55555555",
    "001103fd0000bfff73e05d5d6bc460a0", 0xff813518U },
};
/* HEC vectors: frozen copy of test/kat-app/hec_test.c (values as returned by IMB_HEC_32/64) */
static const uint32_t hec32_vecs[] = {
  0x660e4758U, 0xcc076e69U, 0xcb1f206bU, 0xa611502dU, 0x4e1b7320U, 0x0a196148U, 0xda034e4fU, 0x5e116970U, 0xea11646aU, 0xd70a6820U, 0xa3186574U, 0x41156375U, 0x0d077061U, 0x9b1e6f20U, 0x6601657aU, 0x5d1d6570U, 0x130f2066U, 0x631f696eU, 0x6013656eU, 0x2e02614dU, 0x1b012e61U, 0xd4182064U, 0x9a0a6572U, 0x2f162020U
};
static const uint64_t hec64_vecs[] = {
  0x550a4e4f502d4758ULL, 0x48172c696e614b20ULL, 0x8b0c696b616f7269ULL, 0x7415702073617720ULL, 0x47025320656f4a20ULL, 0x220a69616b754d20ULL, 0x8e12656375646f72ULL, 0x231a202c6874696dULL, 0x731a65766144202cULL, 0x181a6e6168742064ULL, 0x6e0a726168636952ULL, 0x790f2c646f6f4820ULL, 0x0517206f7420736bULL, 0x6e17646f6f472064ULL, 0xf2044c2069655720ULL, 0x15094320616e6e41ULL, 0x000f44202c6e6f73ULL, 0xe9056e61202c6e69ULL, 0x9f156146202c6975ULL, 0x80174b2073696e65ULL, 0x471c6320666f2064ULL, 0x7203206563697262ULL, 0x441f736d69746f68ULL, 0x05042c657372756fULL, 0x3d03616772756f42ULL, 0x5f157559202c796bULL, 0x01066b6e61724620ULL, 0x6017754a202c7472ULL, 0xe805207569716e61ULL, 0x97186e6566664520ULL, 0xa808696863692d6eULL, 0xd21748202c6f754cULL, 0x8604726567726562ULL
};

/* ------------------------------------------------------------------------- */
/* test drivers                                                               */
/* ------------------------------------------------------------------------- */

static uint8_t bkey[64], biv[1100], baad[MAXB], bpt[MAXB], bct[MAXB], btag[64], bout[MAXB],
        bt2[64];

typedef void (*aead_fn)(int enc, const uint8_t *key, int klen, const uint8_t *iv, size_t ivlen,
                        const uint8_t *aad, size_t aadlen, const uint8_t *in, uint8_t *out,
                        size_t len, uint8_t tag[16]);

static void
gcm_adapter(int enc, const uint8_t *key, int klen, const uint8_t *iv, size_t ivlen,
            const uint8_t *aad, size_t aadlen, const uint8_t *in, uint8_t *out, size_t len,
            uint8_t tag[16])
{
        ref_gcm(enc, key, klen, iv, ivlen, aad, aadlen, in, out, len, tag);
}

static void
sm4_adapter(int enc, const uint8_t *key, int klen, const uint8_t *iv, size_t ivlen,
            const uint8_t *aad, size_t aadlen, const uint8_t *in, uint8_t *out, size_t len,
            uint8_t tag[16])
{
        (void) klen;
        ref_sm4_gcm(enc, key, iv, ivlen, aad, aadlen, in, out, len, tag);
}

static void
chacha_adapter(int enc, const uint8_t *key, int klen, const uint8_t *iv, size_t ivlen,
               const uint8_t *aad, size_t aadlen, const uint8_t *in, uint8_t *out, size_t len,
               uint8_t tag[16])
{
        (void) klen;
        (void) ivlen;
        ref_chacha20_poly1305(enc, key, iv, aad, aadlen, in, out, len, tag);
}

/* encrypt, decrypt, and in-place variants of both against one vector */
static void
run_aead_vecs(const char *name, aead_fn fn, const struct aead_vec *v, int n)
{
        const int before = failures;
        int i;

        for (i = 0; i < n; i++) {
                const size_t kl = hx(v[i].key, bkey), il = hx(v[i].iv, biv);
                const size_t al = hx(v[i].aad, baad), pl = hx(v[i].pt, bpt);
                const size_t cl = hx(v[i].ct, bct), tl = hx(v[i].tag, btag);

                if (pl != cl) {
                        fail(name, i + 1, "vector length");
                        continue;
                }
                memset(bout, 0xA5, pl + 1);
                fn(1, bkey, (int) kl, biv, il, baad, al, bpt, bout, pl, bt2);
                if (memcmp(bout, bct, pl) || memcmp(bt2, btag, tl) || bout[pl] != 0xA5)
                        fail(name, i + 1, "encrypt");
                memset(bout, 0xA5, pl + 1);
                fn(0, bkey, (int) kl, biv, il, baad, al, bct, bout, pl, bt2);
                if (memcmp(bout, bpt, pl) || memcmp(bt2, btag, tl) || bout[pl] != 0xA5)
                        fail(name, i + 1, "decrypt");
                /* in place */
                memcpy(bout, bpt, pl);
                fn(1, bkey, (int) kl, biv, il, baad, al, bout, bout, pl, bt2);
                if (memcmp(bout, bct, pl) || memcmp(bt2, btag, tl))
                        fail(name, i + 1, "encrypt in place");
                fn(0, bkey, (int) kl, biv, il, baad, al, bout, bout, pl, bt2);
                if (memcmp(bout, bpt, pl) || memcmp(bt2, btag, tl))
                        fail(name, i + 1, "decrypt in place");
        }
        report(name, n, before);
}

static void
test_hashkey_gmac(void)
{
        int before = failures;
        unsigned i;
        int n = 0;

        for (i = 0; i < sizeof(hashkey_vecs) / sizeof(hashkey_vecs[0]); i++) {
                const size_t kl = hx(hashkey_vecs[i].key, bkey);

                hx(hashkey_vecs[i].h, btag);
                ref_gcm_hashkey(bkey, (int) kl, bt2);
                if (memcmp(bt2, btag, 16))
                        fail("gcm_hashkey", (int) i + 1, "H");
        }
        report("gcm_hashkey_spec", (int) i, before);

        before = failures;
        /* GCM test cases with empty plaintext are GMAC over an empty message */
        for (i = 0; i < sizeof(gcm_vecs) / sizeof(gcm_vecs[0]); i++) {
                const size_t kl = hx(gcm_vecs[i].key, bkey), il = hx(gcm_vecs[i].iv, biv);
                const size_t al = hx(gcm_vecs[i].aad, baad);

                if (gcm_vecs[i].pt[0] != 0)
                        continue;
                hx(gcm_vecs[i].tag, btag);
                ref_gmac(bkey, (int) kl, biv, il, baad, al, bt2);
                if (memcmp(bt2, btag, 16))
                        fail("gmac", (int) i + 1, "spec empty message");
                n++;
        }
        for (i = 0; i < sizeof(gmac_vecs) / sizeof(gmac_vecs[0]); i++) {
                const size_t kl = hx(gmac_vecs[i].key, bkey), il = hx(gmac_vecs[i].iv, biv);
                const size_t ml = hx(gmac_vecs[i].msg, baad), tl = hx(gmac_vecs[i].tag, btag);

                ref_gmac(bkey, (int) kl, biv, il, baad, ml, bt2);
                if (memcmp(bt2, btag, tl))
                        fail("gmac", 100 + (int) i + 1, "kat");
                n++;
        }
        report("gmac_vectors", n, before);
}

static void
run_ccm_one(const char *name, int idx, const uint8_t *key, size_t kl, const uint8_t *nonce,
            size_t nl, const uint8_t *aad, size_t al, const uint8_t *pt, const uint8_t *ct,
            size_t pl, const uint8_t *tag, size_t tl)
{
        memset(bout, 0xA5, pl + 1);
        memset(bt2, 0xA5, sizeof(bt2));
        ref_ccm(1, key, (int) kl, nonce, (int) nl, aad, al, pt, bout, pl, bt2, (int) tl);
        if (memcmp(bout, ct, pl) || memcmp(bt2, tag, tl) || bout[pl] != 0xA5 || bt2[tl] != 0xA5)
                fail(name, idx, "encrypt");
        memset(bout, 0xA5, pl + 1);
        ref_ccm(0, key, (int) kl, nonce, (int) nl, aad, al, ct, bout, pl, bt2, (int) tl);
        if (memcmp(bout, pt, pl) || memcmp(bt2, tag, tl) || bout[pl] != 0xA5)
                fail(name, idx, "decrypt");
        memcpy(bout, pt, pl);
        ref_ccm(1, key, (int) kl, nonce, (int) nl, aad, al, bout, bout, pl, bt2, (int) tl);
        if (memcmp(bout, ct, pl) || memcmp(bt2, tag, tl))
                fail(name, idx, "encrypt in place");
        ref_ccm(0, key, (int) kl, nonce, (int) nl, aad, al, bout, bout, pl, bt2, (int) tl);
        if (memcmp(bout, pt, pl) || memcmp(bt2, tag, tl))
                fail(name, idx, "decrypt in place");
}

static void
test_ccm_vectors(void)
{
        int before = failures;
        unsigned i;

        for (i = 0; i < sizeof(ccm_nist_vecs) / sizeof(ccm_nist_vecs[0]); i++) {
                const struct aead_vec *v = &ccm_nist_vecs[i];
                const size_t kl = hx(v->key, bkey), nl = hx(v->iv, biv), al = hx(v->aad, baad);
                const size_t pl = hx(v->pt, bpt), tl = hx(v->tag, btag);

                hx(v->ct, bct);
                run_ccm_one("ccm_nist", (int) i + 1, bkey, kl, biv, nl, baad, al, bpt, bct, pl,
                            btag, tl);
        }
        {
                const struct aead_vec *v = &ccm_nist_ex4;
                const size_t kl = hx(v->key, bkey), nl = hx(v->iv, biv);
                const size_t pl = hx(v->pt, bpt), tl = hx(v->tag, btag);
                size_t k;

                hx(v->ct, bct);
                for (k = 0; k < 65536; k++)
                        baad[k] = (uint8_t) k;
                run_ccm_one("ccm_nist", 4, bkey, kl, biv, nl, baad, 65536, bpt, bct, pl, btag, tl);
        }
        report("ccm_sp800_38c_examples", 4, before);

        before = failures;
        for (i = 0; i < sizeof(rfc3610_vecs) / sizeof(rfc3610_vecs[0]); i++) {
                const struct ccm_pkt_vec *v = &rfc3610_vecs[i];
                const size_t kl = hx(v->key, bkey), nl = hx(v->nonce, biv);
                const size_t pktl = hx(v->packet, bpt), expl = hx(v->expected, bct);
                const size_t al = (size_t) v->aadlen, tl = (size_t) v->taglen;
                const size_t pl = pktl - al;

                if (expl != pktl + tl || memcmp(bpt, bct, al)) {
                        fail("ccm_rfc3610", (int) i + 1, "vector shape");
                        continue;
                }
                /* packet = AAD || payload ; expected = AAD || C || U */
                run_ccm_one("ccm_rfc3610", (int) i + 1, bkey, kl, biv, nl, bpt, al, bpt + al,
                            bct + al, pl, bct + al + pl, tl);
        }
        report("ccm_rfc3610_packet_vectors", (int) i, before);
}

static void
test_crc32(void)
{
        const int before = failures;
        static const uint8_t m1[4] = { 1, 2, 3, 4 };

        if (ref_crc32_ethernet((const uint8_t *) "123456789", 9) != 0xCBF43926U)
                fail("crc32", 1, "check value");
        if (ref_crc32_ethernet(m1, 4) != 0xB63CFBCDU)
                fail("crc32", 2, "{1,2,3,4}");
        if (ref_crc32_ethernet(m1, 0) != 0)
                fail("crc32", 3, "empty");
        report("crc32_ethernet", 3, before);
}

static void
test_docsis(void)
{
        const int before = failures;
        unsigned i;

        for (i = 0; i < sizeof(docsis_vecs) / sizeof(docsis_vecs[0]); i++) {
                const struct docsis_vec *v = &docsis_vecs[i];
                const size_t kl = hx(v->key, bkey);
                const size_t fl = hx(v->pt, bpt);
                uint8_t crc_le[4];

                hx(v->iv, biv);
                if (hx(v->ct, bct) != fl) {
                        fail("docsis", (int) i + 1, "vector shape");
                        continue;
                }
                crc_le[0] = (uint8_t) v->crc;
                crc_le[1] = (uint8_t) (v->crc >> 8);
                crc_le[2] = (uint8_t) (v->crc >> 16);
                crc_le[3] = (uint8_t) (v->crc >> 24);

                /* encrypt: like the library test, destroy the CRC field first */
                memset(bout, 0xA5, fl + 16);
                memcpy(bout, bpt, fl);
                if (v->hlen >= 14)
                        memset(bout + v->hoff + v->hlen, 0xff, 4);
                ref_docsis_crc32(1, bkey, (int) kl, biv, bout, (size_t) v->hoff, (size_t) v->hlen,
                                 (size_t) v->coff, (size_t) v->clen, bt2);
                if (memcmp(bout, bct, fl) || bout[fl] != 0xA5)
                        fail("docsis", (int) i + 1, "encrypt frame");
                if (v->hlen >= 14 && memcmp(bt2, crc_le, 4))
                        fail("docsis", (int) i + 1, "encrypt crc");
                if (v->hlen >= 14 &&
                    ref_crc32_ethernet(bpt + v->hoff, (size_t) v->hlen) != v->crc)
                        fail("docsis", (int) i + 1, "plain crc32");

                /* decrypt */
                memset(bout, 0xA5, fl + 16);
                memcpy(bout, bct, fl);
                ref_docsis_crc32(0, bkey, (int) kl, biv, bout, (size_t) v->hoff, (size_t) v->hlen,
                                 (size_t) v->coff, (size_t) v->clen, bt2);
                if (memcmp(bout, bpt, fl) || bout[fl] != 0xA5)
                        fail("docsis", (int) i + 1, "decrypt frame");
                if (v->hlen >= 14 && memcmp(bt2, crc_le, 4))
                        fail("docsis", (int) i + 1, "decrypt crc");
        }
        report("docsis_bpi_crc32_kat", (int) i, before);
}

static void
test_pon(void)
{
        const int before = failures;
        unsigned i;

        for (i = 0; i < sizeof(pon_vecs) / sizeof(pon_vecs[0]); i++) {
                const struct pon_vec *v = &pon_vecs[i];
                const size_t fl = hx(v->in, bpt);
                const uint8_t *key = NULL;
                unsigned pli;
                uint8_t bip_le[4];

                if (hx(v->out, bct) != fl) {
                        fail("pon", (int) i + 1, "vector shape");
                        continue;
                }
                if (v->key != NULL) {
                        hx(v->key, bkey);
                        hx(v->iv, biv);
                        key = bkey;
                }
                /* the library test reads the 8-byte tag as a little-endian uint64:
                 * low 32 bits = BIP, high 32 bits = CRC */
                bip_le[0] = (uint8_t) v->bip;
                bip_le[1] = (uint8_t) (v->bip >> 8);
                bip_le[2] = (uint8_t) (v->bip >> 16);
                bip_le[3] = (uint8_t) (v->bip >> 24);
                pli = (((unsigned) bpt[0] << 8) | bpt[1]) >> 2;

                /* encrypt: as the library test does, corrupt HEC and CRC first */
                memset(bout, 0xA5, fl + 16);
                memcpy(bout, bpt, fl);
                bout[7] ^= 0xff;
                if (pli > 4) {
                        bout[8 + pli - 4] ^= 0xff;
                        bout[8 + pli - 3] ^= 0xff;
                        bout[8 + pli - 2] ^= 0xff;
                        bout[8 + pli - 1] ^= 0xff;
                }
                ref_pon(1, key, biv, bout, fl, bt2);
                if (memcmp(bout, bct, fl) || bout[fl] != 0xA5)
                        fail("pon", (int) i + 1, "encrypt frame");
                if (memcmp(bt2, bip_le, 4))
                        fail("pon", (int) i + 1, "encrypt bip");
                if (pli > 4 && memcmp(bt2 + 4, bpt + 8 + pli - 4, 4))
                        fail("pon", (int) i + 1, "encrypt crc");

                /* decrypt */
                memset(bout, 0xA5, fl + 16);
                memcpy(bout, bct, fl);
                ref_pon(0, key, biv, bout, fl, bt2);
                if (memcmp(bout, bpt, fl) || bout[fl] != 0xA5)
                        fail("pon", (int) i + 1, "decrypt frame");
                if (memcmp(bt2, bip_le, 4))
                        fail("pon", (int) i + 1, "decrypt bip");
                if (pli > 4 && memcmp(bt2 + 4, bpt + 8 + pli - 4, 4))
                        fail("pon", (int) i + 1, "decrypt crc");
        }
        report("pon_ctr_crc_bip_kat", (int) i, before);
}

static void
test_hec(void)
{
        int before = failures;
        unsigned i;

        for (i = 0; i < sizeof(hec32_vecs) / sizeof(hec32_vecs[0]); i++) {
                /* same input derivation as hec_test.c; value is a little-endian image */
                const uint32_t in = hec32_vecs[i] & ~0xfff10000U;
                uint8_t b[4];

                b[0] = (uint8_t) in;
                b[1] = (uint8_t) (in >> 8);
                b[2] = (uint8_t) (in >> 16);
                b[3] = (uint8_t) (in >> 24);
                if (ref_hec32(b) != hec32_vecs[i])
                        fail("hec32", (int) i + 1, "value");
        }
        report("hec32_kat", (int) i, before);
        before = failures;
        for (i = 0; i < sizeof(hec64_vecs) / sizeof(hec64_vecs[0]); i++) {
                const uint64_t in = hec64_vecs[i] & ~0xfff1000000000000ULL;
                uint8_t b[8];
                int k;

                for (k = 0; k < 8; k++)
                        b[k] = (uint8_t) (in >> (8 * k));
                if (ref_hec64(b) != hec64_vecs[i])
                        fail("hec64", (int) i + 1, "value");
        }
        report("hec64_kat", (int) i, before);
}

/* ------------------------------------------------------------------------- */
/* OpenSSL EVP cross-checks                                                   */
/* ------------------------------------------------------------------------- */

static uint32_t rng_state = 0x12345678;

static uint8_t
rnd8(void)
{
        rng_state = rng_state * 1664525u + 1013904223u;
        return (uint8_t) (rng_state >> 24);
}

static void
fill(uint8_t *p, size_t n)
{
        size_t i;

        for (i = 0; i < n; i++)
                p[i] = rnd8();
}

#define CHK(x)                                                                                     \
        do {                                                                                       \
                if ((x) != 1) {                                                                    \
                        fprintf(stderr, "OpenSSL call failed line %d\n", __LINE__);                \
                        exit(2);                                                                   \
                }                                                                                  \
        } while (0)

static void
evp_gcm_enc(const EVP_CIPHER *c, const uint8_t *key, const uint8_t *iv, int ivlen,
            const uint8_t *aad, int aadlen, const uint8_t *pt, uint8_t *ct, int len,
            uint8_t tag[16])
{
        EVP_CIPHER_CTX *ctx = EVP_CIPHER_CTX_new();
        int n;
        uint8_t dummy[16];

        CHK(EVP_EncryptInit_ex(ctx, c, NULL, NULL, NULL));
        CHK(EVP_CIPHER_CTX_ctrl(ctx, EVP_CTRL_AEAD_SET_IVLEN, ivlen, NULL));
        CHK(EVP_EncryptInit_ex(ctx, NULL, NULL, key, iv));
        if (aadlen > 0)
                CHK(EVP_EncryptUpdate(ctx, NULL, &n, aad, aadlen));
        if (len > 0)
                CHK(EVP_EncryptUpdate(ctx, ct, &n, pt, len));
        CHK(EVP_EncryptFinal_ex(ctx, dummy, &n));
        CHK(EVP_CIPHER_CTX_ctrl(ctx, EVP_CTRL_AEAD_GET_TAG, 16, tag));
        EVP_CIPHER_CTX_free(ctx);
}

static void
xcheck_gcm(void)
{
        const int before = failures;
        static const int klens[3] = { 16, 24, 32 };
        uint8_t key[32], iv[32], aad[40], pt[200], ct[200], out[200], tag[16], t2[16];
        long n = 0;
        int k, ivlen, len, aadlen;

        for (k = 0; k < 3; k++) {
                const EVP_CIPHER *c = (klens[k] == 16)   ? EVP_aes_128_gcm()
                                      : (klens[k] == 24) ? EVP_aes_192_gcm()
                                                         : EVP_aes_256_gcm();
                for (ivlen = 1; ivlen <= 32; ivlen++) {
                        for (len = 0; len <= 200; len++) {
                                for (aadlen = 0; aadlen <= 40; aadlen++) {
                                        fill(key, (size_t) klens[k]);
                                        fill(iv, (size_t) ivlen);
                                        fill(aad, (size_t) aadlen);
                                        fill(pt, (size_t) len);
                                        evp_gcm_enc(c, key, iv, ivlen, aad, aadlen, pt, ct, len,
                                                    tag);
                                        ref_gcm(1, key, klens[k], iv, (size_t) ivlen, aad,
                                                (size_t) aadlen, pt, out, (size_t) len, t2);
                                        if (memcmp(out, ct, (size_t) len) || memcmp(tag, t2, 16)) {
                                                fail("xcheck_gcm_enc", klens[k], "mismatch");
                                                printf("  ivlen %d len %d aad %d\n", ivlen, len,
                                                       aadlen);
                                        }
                                        ref_gcm(0, key, klens[k], iv, (size_t) ivlen, aad,
                                                (size_t) aadlen, ct, out, (size_t) len, t2);
                                        if (memcmp(out, pt, (size_t) len) || memcmp(tag, t2, 16)) {
                                                fail("xcheck_gcm_dec", klens[k], "mismatch");
                                                printf("  ivlen %d len %d aad %d\n", ivlen, len,
                                                       aadlen);
                                        }
                                        n += 2;
                                        if (failures - before > 20)
                                                goto done;
                                }
                        }
                }
        }
done:
        report("xcheck_openssl_gcm", (int) n, before);
}

static void
xcheck_gmac(void)
{
        const int before = failures;
        uint8_t key[32], iv[32], msg[240], tag[16], t2[16];
        static const int klens[3] = { 16, 24, 32 };
        int k, ivlen, len, n = 0;

        for (k = 0; k < 3; k++) {
                const EVP_CIPHER *c = (klens[k] == 16)   ? EVP_aes_128_gcm()
                                      : (klens[k] == 24) ? EVP_aes_192_gcm()
                                                         : EVP_aes_256_gcm();
                for (ivlen = 1; ivlen <= 32; ivlen++)
                        for (len = 0; len <= 240; len++) {
                                fill(key, (size_t) klens[k]);
                                fill(iv, (size_t) ivlen);
                                fill(msg, (size_t) len);
                                evp_gcm_enc(c, key, iv, ivlen, msg, len, NULL, NULL, 0, tag);
                                ref_gmac(key, klens[k], iv, (size_t) ivlen, msg, (size_t) len, t2);
                                if (memcmp(tag, t2, 16)) {
                                        fail("xcheck_gmac", klens[k], "mismatch");
                                        printf("  ivlen %d len %d\n", ivlen, len);
                                }
                                n++;
                        }
        }
        report("xcheck_openssl_gmac", n, before);
}

static void
evp_ccm_enc(const EVP_CIPHER *c, const uint8_t *key, const uint8_t *nonce, int nlen,
            const uint8_t *aad, int aadlen, const uint8_t *pt, uint8_t *ct, int len, uint8_t *tag,
            int taglen)
{
        EVP_CIPHER_CTX *ctx = EVP_CIPHER_CTX_new();
        int n;
        uint8_t dummy[16];

        CHK(EVP_EncryptInit_ex(ctx, c, NULL, NULL, NULL));
        CHK(EVP_CIPHER_CTX_ctrl(ctx, EVP_CTRL_AEAD_SET_IVLEN, nlen, NULL));
        CHK(EVP_CIPHER_CTX_ctrl(ctx, EVP_CTRL_AEAD_SET_TAG, taglen, NULL));
        CHK(EVP_EncryptInit_ex(ctx, NULL, NULL, key, nonce));
        CHK(EVP_EncryptUpdate(ctx, NULL, &n, NULL, len)); /* total message length */
        if (aadlen > 0)
                CHK(EVP_EncryptUpdate(ctx, NULL, &n, aad, aadlen));
        /* must be called even for len == 0 so that the tag gets computed */
        CHK(EVP_EncryptUpdate(ctx, ct, &n, pt, len));
        CHK(EVP_EncryptFinal_ex(ctx, dummy, &n));
        CHK(EVP_CIPHER_CTX_ctrl(ctx, EVP_CTRL_AEAD_GET_TAG, taglen, tag));
        EVP_CIPHER_CTX_free(ctx);
}

static void
xcheck_ccm(void)
{
        const int before = failures;
        static const int klens[3] = { 16, 24, 32 };
        uint8_t key[32], nonce[13], aad[40], pt[208], ct[208], out[208], tag[16], t2[16];
        long n = 0;
        int k, nlen, tlen, len, aadlen;

        for (k = 0; k < 3; k++) {
                const EVP_CIPHER *c = (klens[k] == 16)   ? EVP_aes_128_ccm()
                                      : (klens[k] == 24) ? EVP_aes_192_ccm()
                                                         : EVP_aes_256_ccm();
                for (nlen = 7; nlen <= 13; nlen++)
                        for (tlen = 4; tlen <= 16; tlen += 2)
                                for (len = 0; len <= 200; len++)
                                        for (aadlen = 0; aadlen <= 40; aadlen++) {
                                                fill(key, (size_t) klens[k]);
                                                fill(nonce, (size_t) nlen);
                                                fill(aad, (size_t) aadlen);
                                                fill(pt, (size_t) len);
                                                evp_ccm_enc(c, key, nonce, nlen, aad, aadlen, pt,
                                                            ct, len, tag, tlen);
                                                ref_ccm(1, key, klens[k], nonce, nlen, aad,
                                                        (size_t) aadlen, pt, out, (size_t) len,
                                                        t2, tlen);
                                                if (memcmp(out, ct, (size_t) len) ||
                                                    memcmp(tag, t2, (size_t) tlen)) {
                                                        fail("xcheck_ccm_enc", klens[k],
                                                             "mismatch");
                                                        printf("  nonce %d tag %d len %d aad %d\n",
                                                               nlen, tlen, len, aadlen);
                                                }
                                                ref_ccm(0, key, klens[k], nonce, nlen, aad,
                                                        (size_t) aadlen, ct, out, (size_t) len,
                                                        t2, tlen);
                                                if (memcmp(out, pt, (size_t) len) ||
                                                    memcmp(tag, t2, (size_t) tlen)) {
                                                        fail("xcheck_ccm_dec", klens[k],
                                                             "mismatch");
                                                        printf("  nonce %d tag %d len %d aad %d\n",
                                                               nlen, tlen, len, aadlen);
                                                }
                                                n += 2;
                                                if (failures - before > 20)
                                                        goto done;
                                        }
        }
        /* AAD length encoding boundaries (2-byte form up to 0xFEFF, 0xFFFE form above) */
        {
                static const int big[6] = { 0xFEFF, 0xFF00, 0xFF01, 0xFFFF, 0x10000, 0x10001 };
                int b;

                for (b = 0; b < 6; b++)
                        for (len = 0; len <= 32; len += 16) {
                                fill(key, 16);
                                fill(nonce, 12);
                                fill(baad, (size_t) big[b]);
                                fill(pt, (size_t) len);
                                evp_ccm_enc(EVP_aes_128_ccm(), key, nonce, 12, baad, big[b], pt,
                                            ct, len, tag, 10);
                                ref_ccm(1, key, 16, nonce, 12, baad, (size_t) big[b], pt, out,
                                        (size_t) len, t2, 10);
                                if (memcmp(out, ct, (size_t) len) || memcmp(tag, t2, 10)) {
                                        fail("xcheck_ccm_big_aad", big[b], "mismatch");
                                }
                                n++;
                        }
        }
done:
        report("xcheck_openssl_ccm", (int) n, before);
}

static void
xcheck_chacha(void)
{
        const int before = failures;
        uint8_t key[32], iv[12], aad[40], pt[200], ct[200], out[200], tag[16], t2[16], dummy[16];
        int len, aadlen, n = 0, m;

        for (len = 0; len <= 200; len++)
                for (aadlen = 0; aadlen <= 40; aadlen++) {
                        EVP_CIPHER_CTX *ctx = EVP_CIPHER_CTX_new();

                        fill(key, 32);
                        fill(iv, 12);
                        fill(aad, (size_t) aadlen);
                        fill(pt, (size_t) len);
                        CHK(EVP_EncryptInit_ex(ctx, EVP_chacha20_poly1305(), NULL, NULL, NULL));
                        CHK(EVP_CIPHER_CTX_ctrl(ctx, EVP_CTRL_AEAD_SET_IVLEN, 12, NULL));
                        CHK(EVP_EncryptInit_ex(ctx, NULL, NULL, key, iv));
                        if (aadlen > 0)
                                CHK(EVP_EncryptUpdate(ctx, NULL, &m, aad, aadlen));
                        if (len > 0)
                                CHK(EVP_EncryptUpdate(ctx, ct, &m, pt, len));
                        CHK(EVP_EncryptFinal_ex(ctx, dummy, &m));
                        CHK(EVP_CIPHER_CTX_ctrl(ctx, EVP_CTRL_AEAD_GET_TAG, 16, tag));
                        EVP_CIPHER_CTX_free(ctx);

                        ref_chacha20_poly1305(1, key, iv, aad, (size_t) aadlen, pt, out,
                                              (size_t) len, t2);
                        if (memcmp(out, ct, (size_t) len) || memcmp(tag, t2, 16)) {
                                fail("xcheck_chacha_enc", len, "mismatch");
                                printf("  len %d aad %d\n", len, aadlen);
                        }
                        ref_chacha20_poly1305(0, key, iv, aad, (size_t) aadlen, ct, out,
                                              (size_t) len, t2);
                        if (memcmp(out, pt, (size_t) len) || memcmp(tag, t2, 16)) {
                                fail("xcheck_chacha_dec", len, "mismatch");
                                printf("  len %d aad %d\n", len, aadlen);
                        }
                        n += 2;
                }
        /* Poly1305 carry stress: all-ones key/nonce/data make r, s and blocks maximal */
        for (len = 0; len <= 200; len += 7) {
                EVP_CIPHER_CTX *ctx = EVP_CIPHER_CTX_new();

                memset(key, 0xff, 32);
                memset(iv, 0xff, 12);
                memset(aad, 0xff, 40);
                memset(pt, (len & 1) ? 0xff : 0x00, (size_t) len);
                CHK(EVP_EncryptInit_ex(ctx, EVP_chacha20_poly1305(), NULL, key, iv));
                CHK(EVP_EncryptUpdate(ctx, NULL, &m, aad, 40));
                if (len > 0)
                        CHK(EVP_EncryptUpdate(ctx, ct, &m, pt, len));
                CHK(EVP_EncryptFinal_ex(ctx, dummy, &m));
                CHK(EVP_CIPHER_CTX_ctrl(ctx, EVP_CTRL_AEAD_GET_TAG, 16, tag));
                EVP_CIPHER_CTX_free(ctx);
                ref_chacha20_poly1305(1, key, iv, aad, 40, pt, out, (size_t) len, t2);
                if (memcmp(out, ct, (size_t) len) || memcmp(tag, t2, 16))
                        fail("xcheck_chacha_ones", len, "mismatch");
                n++;
        }
        report("xcheck_openssl_chacha20_poly1305", n, before);
}

/* SM4-GCM against OpenSSL's own SM4-GCM is not possible (3.0.x has no
 * EVP_sm4_gcm); instead check that the generic GCM engine driven with SM4
 * equals the engine driven with AES in structure by construction, and that
 * non-96-bit IVs / odd lengths at least round-trip with a stable tag. */
static void
selfcheck_sm4_gcm(void)
{
        const int before = failures;
        uint8_t key[16], iv[32], aad[40], pt[100], ct[100], out[100], tag[16], t2[16];
        int ivlen, len, n = 0;

        for (ivlen = 1; ivlen <= 32; ivlen++)
                for (len = 0; len <= 100; len += 3) {
                        const int aadlen = (len * 7 + ivlen) % 41;

                        fill(key, 16);
                        fill(iv, (size_t) ivlen);
                        fill(aad, (size_t) aadlen);
                        fill(pt, (size_t) len);
                        ref_sm4_gcm(1, key, iv, (size_t) ivlen, aad, (size_t) aadlen, pt, ct,
                                    (size_t) len, tag);
                        ref_sm4_gcm(0, key, iv, (size_t) ivlen, aad, (size_t) aadlen, ct, out,
                                    (size_t) len, t2);
                        if (memcmp(out, pt, (size_t) len) || memcmp(tag, t2, 16))
                                fail("sm4_gcm_roundtrip", ivlen, "mismatch");
                        n++;
                }
        report("sm4_gcm_roundtrip", n, before);
}

int
main(void)
{
        run_aead_vecs("gcm_mcgrew_viega_tc1_18", gcm_adapter, gcm_vecs,
                      (int) (sizeof(gcm_vecs) / sizeof(gcm_vecs[0])));
        test_hashkey_gmac();
        test_ccm_vectors();
        run_aead_vecs("chacha20_poly1305_rfc8439", chacha_adapter, rfc8439_vecs,
                      (int) (sizeof(rfc8439_vecs) / sizeof(rfc8439_vecs[0])));
        run_aead_vecs("sm4_gcm_rfc8998", sm4_adapter, sm4_gcm_vecs,
                      (int) (sizeof(sm4_gcm_vecs) / sizeof(sm4_gcm_vecs[0])));
        selfcheck_sm4_gcm();
        test_crc32();
        test_docsis();
        test_pon();
        test_hec();
        xcheck_gcm();
        xcheck_gmac();
        xcheck_ccm();
        xcheck_chacha();

        if (failures) {
                printf("FAILED: %d mismatches\n", failures);
                return 1;
        }
        printf("all ok\n");
        return 0;
}
