/*
 * ref_modes.h - independent, byte-oriented reference model of block-cipher
 * modes, hashes, MACs and CRCs used as a test oracle for intel-ipsec-mb.
 *
 * Block primitives (AES, DES, SM4 single blocks, SHA-x/MD5/SM3 digests and
 * SHA/MD5 compression calls) come from OpenSSL; every mode, framing, MAC
 * construction, GHASH, Poly1305, ChaCha20 and CRC is written here from the
 * specification in plain scalar C. No dependence on intel-ipsec-mb headers or
 * objects.
 *
 * Raw keys in, bytes out. `klen` is the AES key length in bytes (16/24/32).
 * All functions allow in == out (exact overlap).
 *
 * Library conventions that a standard leaves open are documented next to the
 * function that implements them in ref_modes.c.
 */
#ifndef REF_MODES_H
#define REF_MODES_H

#include <stdint.h>
#include <stddef.h>

void ref_aes_block(int enc, const uint8_t *key, int klen, const uint8_t in[16], uint8_t out[16]);
void ref_aes_ecb(int enc, const uint8_t *key, int klen, const uint8_t *in, uint8_t *out, size_t len);            /* len % 16 == 0 */
void ref_aes_cbc(int enc, const uint8_t *key, int klen, const uint8_t iv[16], const uint8_t *in, uint8_t *out, size_t len); /* len % 16 == 0 */
/* CTR: ivlen 12 -> counter block = iv || 00000001 ; ivlen 16 -> iv is the full
 * initial counter block; the block counter is the LAST 32 BITS, big-endian,
 * incremented modulo 2^32 (upper 96 bits never change) */
void ref_aes_ctr(const uint8_t *key, int klen, const uint8_t *iv, int ivlen, const uint8_t *in, uint8_t *out, size_t len);
/* CTR with bit length (IMB_CIPHER_CNTR_BITLEN, 3GPP 128-EEA2): processes
 * ceil(len_bits/8) bytes; in the last byte only the top (len_bits%8) bits are
 * keystream-xored; the remaining low bits of the last output byte are
 * PRESERVED FROM THE DESTINATION buffer (its content before the call).
 * NOTE the counter in this mode is the LOW 64 BITS of the counter block,
 * incremented modulo 2^64 (TS 33.401 B.1.3; the library does the same), not
 * the 32-bit counter of ref_aes_ctr(). See ref_modes.c. */
void ref_aes_ctr_bits(const uint8_t *key, int klen, const uint8_t *iv, int ivlen, const uint8_t *in, uint8_t *out, uint64_t len_bits);
void ref_aes_cfb128(int enc, const uint8_t *key, int klen, const uint8_t iv[16], const uint8_t *in, uint8_t *out, size_t len); /* any len; last block partial */
/* CBCS 1:9 pattern (ISO/IEC 23001-7 'cbcs'): blocks 0,10,20,... are CBC
 * processed (chain continues across skipped blocks), the 9 blocks after each
 * are left in the clear (copied in -> out). next_iv = last ciphertext block
 * processed (iv itself if len < 16). See ref_modes.c for the library notes. */
void ref_aes_cbcs_1_9(int enc, const uint8_t key[16], const uint8_t iv[16], const uint8_t *in, uint8_t *out, size_t len, uint8_t next_iv[16]);
/* DOCSIS BPI (AES): CBC over the full 16-byte blocks, residual termination
 * block with CFB using the last ciphertext block (or the IV if len < 16);
 * len 0 is a no-op */
void ref_docsis_aes(int enc, const uint8_t *key, int klen, const uint8_t iv[16], const uint8_t *in, uint8_t *out, size_t len);
void ref_des_cbc(int enc, const uint8_t key[8], const uint8_t iv[8], const uint8_t *in, uint8_t *out, size_t len);   /* len % 8 == 0 */
void ref_3des_cbc(int enc, const uint8_t key[24], const uint8_t iv[8], const uint8_t *in, uint8_t *out, size_t len); /* EDE, k1|k2|k3 */
void ref_docsis_des(int enc, const uint8_t key[8], const uint8_t iv[8], const uint8_t *in, uint8_t *out, size_t len);/* DES-CBC + CFB residual */
void ref_chacha20(const uint8_t key[32], const uint8_t iv[12], uint32_t counter, const uint8_t *in, uint8_t *out, size_t len); /* RFC 8439 */
void ref_sm4_ecb(int enc, const uint8_t key[16], const uint8_t *in, uint8_t *out, size_t len);
void ref_sm4_cbc(int enc, const uint8_t key[16], const uint8_t iv[16], const uint8_t *in, uint8_t *out, size_t len);
void ref_sm4_ctr(const uint8_t key[16], const uint8_t *iv, int ivlen, const uint8_t *in, uint8_t *out, size_t len); /* same counter convention as AES-CTR */

enum { REF_SHA1, REF_SHA224, REF_SHA256, REF_SHA384, REF_SHA512, REF_MD5, REF_SM3 };
int  ref_hash_size(int alg);  /* 20,28,32,48,64,16,32 */
int  ref_hash_block(int alg); /* 64 or 128 */
void ref_hash(int alg, const uint8_t *msg, size_t len, uint8_t *out);
void ref_hmac(int alg, const uint8_t *key, size_t keylen, const uint8_t *msg, size_t len, uint8_t *out); /* RFC 2104, keys longer than the block hashed first */
/* Intermediate HMAC state as imb_hmac_ipad_opad() produces it: the hash
 * chaining value after compressing the single block (key^0x36.. / key^0x5c..).
 * Layout (bytes written): SHA-1 20, SHA-224 32, SHA-256 32, SHA-384 64,
 * SHA-512 64, MD5 16, SM3 32; every state word is stored as a native
 * little-endian word (SHA-224/384 keep all 8 words) - see ref_modes.c. Either
 * output pointer may be NULL. */
void ref_hmac_ipad_opad(int alg, const uint8_t *key, size_t keylen, uint8_t *ipad_state, uint8_t *opad_state);

void ref_aes_xcbc_mac(const uint8_t key[16], const uint8_t *msg, size_t len, uint8_t out[16]);          /* RFC 3566, full 16 bytes (AES-XCBC-MAC-96 = first 12) */
void ref_aes_xcbc_keys(const uint8_t key[16], uint8_t k1[16], uint8_t k2[16], uint8_t k3[16]);
void ref_aes_cmac(const uint8_t *key, int klen, const uint8_t *msg, uint64_t len_bits, uint8_t out[16]); /* NIST SP 800-38B / RFC 4493; len_bits may be a non-multiple of 8 */
void ref_aes_cmac_subkeys(const uint8_t *key, int klen, uint8_t k1[16], uint8_t k2[16]);
void ref_ghash(const uint8_t h[16], const uint8_t *msg, size_t len, uint8_t out[16]); /* plain GHASH_H over msg zero-padded to 16, start value 0, no length block */
void ref_poly1305(const uint8_t key[32], const uint8_t *msg, size_t len, uint8_t out[16]);

enum { REF_CRC32_ETHERNET_FCS, REF_CRC32_SCTP, REF_CRC32_WIMAX_OFDMA_DATA, REF_CRC24_LTE_A, REF_CRC24_LTE_B, REF_CRC16_X25, REF_CRC16_FP_DATA, REF_CRC11_FP_HEADER, REF_CRC10_IUUP_DATA, REF_CRC8_WIMAX_OFDMA_HCS, REF_CRC7_FP_HEADER, REF_CRC6_IUUP_HEADER, REF_CRC_NUM };
uint32_t ref_crc(int which, const uint8_t *msg, size_t len);

#endif /* REF_MODES_H */
