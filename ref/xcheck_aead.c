/*
 * xcheck_aead.c - throw-away cross-check of the reference model ref_aead.c
 * against the real intel-ipsec-mb library (job API), all reachable
 * architecture variants.
 *
 * build (scratch static library built OUTSIDE /repo and /verif):
 *   cmake -G Ninja -S /repo -B /tmp/refB_build -DBUILD_SHARED_LIBS=OFF \
 *         -DBUILD_LIBRARY_ONLY=ON -DCMAKE_BUILD_TYPE=RelWithDebInfo
 *   cmake --build /tmp/refB_build -j6
 *   gcc -O2 -Wno-deprecated-declarations -I/repo/lib -o xcheck_aead xcheck_aead.c ref_aead.c \
 *       /tmp/refB_build/lib/libIPSec_MB.a -lcrypto
 * run:  ./xcheck_aead [alg ...]     alg = gcm gmac hkey ccm chacha sm4gcm docsis pon hec crc
 *
 * The reference result is computed once per case; the same case is then run
 * on every manager variant (sse t1/t2/t3, avx2 t1/t2, avx512 t1/t2 as far as
 * the host reaches them).  Jobs are submitted in batches of BATCH different
 * jobs and then flushed so that multi-lane schedulers hold different jobs.
 * ALWAYS sets both enc_keys and dec_keys (known library defects F2/F6).
 *
 * Exit status 1 if anything mismatched.  Result on the pinned tree (2026-10-02,
 * 7 variants, 3.83M reference cases, 26.8M library jobs): everything equal
 * except DOCSIS-BPI+CRC32 on the two AVX512 variants outside the canonical
 * geometry (see the "Measured against the pinned library" note in ref_aead.h);
 * set XCHECK_ALL=1 to print every mismatch instead of the first 4 per class.
 */
#include <stdio.h>
#include <stdlib.h>
#include <string.h>
#include <stdint.h>
#include <stddef.h>
#include <signal.h>
#include <unistd.h>

#include <intel-ipsec-mb.h>

#include "ref_aead.h"

#define MAXF  720
#define GUARD 64
#define BATCH 37
#define PAT   0xA5

enum alg { A_GCM, A_GMAC, A_CCM, A_CHACHA, A_SM4GCM, A_DOCSIS, A_PON };
static const char *alg_name[] = { "GCM", "GMAC", "CCM", "CHACHA20-POLY1305", "SM4-GCM",
                                  "DOCSIS-BPI-CRC32", "PON" };

struct slot {
        enum alg alg;
        int enc, klen, inplace, noctr;
        int cls; /* result class inside the algorithm, see cls_name[][] */
        uint8_t key[32], iv[64], aad[80];
        size_t ivlen, aadlen, len, taglen;
        size_t hash_off, hash_len, cipher_off, frame_len;
        uint8_t in[MAXF];      /* pristine input data / frame */
        uint8_t exp[MAXF];     /* expected output data / frame */
        size_t data_len;       /* bytes of in/exp that matter */
        uint8_t exp_tag[32];   /* expected image of the 32-byte tag area */
        uint8_t tag_mask[32];  /* 1 = compare this byte */
        /* per run */
        uint8_t buf[GUARD + MAXF + GUARD];
        uint8_t tag[32];
        int done, err;
        DECLARE_ALIGNED(uint8_t eks[16 * 15], 16);
        DECLARE_ALIGNED(uint8_t dks[16 * 15], 16);
        struct gcm_key_data gkd;
};

struct variant {
        const char *name;
        IMB_MGR *mgr;
};

static struct variant variants[8];
static int nvariants;
static struct slot *slots;
static int nslots;
static long total_cases, total_jobs, total_fail;
static long alg_cases[8], alg_fail[8];
static long var_fail[8];
#define NCLS 6
static long cls_cases[8][NCLS], cls_fail[8][NCLS][8];
static const char *cls_name[8][NCLS] = {
        /* GCM */ { "iv96", "iv-other" },
        /* GMAC */ { "iv96", "iv-other" },
        /* CCM */ { "all" },
        /* CHACHA */ { "all" },
        /* SM4GCM */ { "all" },
        /* DOCSIS */
        { "crc-only(hash>=14,cipher=0)", "cipher-to-end-of-crc,cipher_len>=5",
          "cipher-to-end-of-crc,cipher_len1..4(inside-crc-field)",
          "cipher-stops-before-end-of-crc", "hash_len<14(no-crc)" },
        /* PON */ { "ctr", "no-ctr" },
};
static const char *cur_desc = "";
static char desc_buf[256];

static uint32_t rng_state = 0xC0FFEE01;
static uint8_t
rnd8(void)
{
        rng_state = rng_state * 1664525u + 1013904223u;
        return (uint8_t) (rng_state >> 24);
}
static void
fill(uint8_t *p, size_t n)
{
        size_t i;

        for (i = 0; i < n; i++)
                p[i] = rnd8();
}

static void
describe(const struct slot *s, const char *vname, char *out, size_t outsz)
{
        snprintf(out, outsz,
                 "%s variant=%s dir=%s klen=%d ivlen=%zu aadlen=%zu len=%zu taglen=%zu "
                 "inplace=%d hash_off=%zu hash_len=%zu cipher_off=%zu frame_len=%zu noctr=%d",
                 alg_name[s->alg], vname, s->enc ? "ENC" : "DEC", s->klen, s->ivlen, s->aadlen,
                 s->len, s->taglen, s->inplace, s->hash_off, s->hash_len, s->cipher_off,
                 s->frame_len, s->noctr);
}

static void
on_crash(int sig)
{
        char msg[400];
        int n = snprintf(msg, sizeof(msg), "\nCRASH signal %d while running: %s\n", sig, cur_desc);

        if (write(1, msg, (size_t) n) < 0)
                _exit(3);
        _exit(3);
}

static void
report_fail(const struct slot *s, int v, const char *what)
{
        char d[256];

        total_fail++;
        alg_fail[s->alg]++;
        var_fail[v]++;
        cls_fail[s->alg][s->cls][v]++;
        if (cls_fail[s->alg][s->cls][v] <= 4 || getenv("XCHECK_ALL") != NULL) {
                describe(s, variants[v].name, d, sizeof(d));
                printf("MISMATCH (%s): %s\n", what, d);
        }
}

/* ------------------------------------------------------------------------- */

static void
fill_job(IMB_MGR *mgr, IMB_JOB *job, struct slot *s)
{
        uint8_t *data = s->buf + GUARD;

        memset(s->buf, PAT, sizeof(s->buf));
        memset(s->tag, PAT, sizeof(s->tag));
        memcpy(data, s->in, s->data_len);
        s->done = 0;
        s->err = 0;

        job->user_data = s;
        job->cipher_direction = s->enc ? IMB_DIR_ENCRYPT : IMB_DIR_DECRYPT;
        job->auth_tag_output = s->tag;
        job->auth_tag_output_len_in_bytes = s->taglen;
        job->cipher_start_src_offset_in_bytes = 0;
        job->hash_start_src_offset_in_bytes = 0;
        job->iv = s->iv;
        job->iv_len_in_bytes = s->ivlen;
        job->key_len_in_bytes = (uint64_t) s->klen;
        job->msg_len_to_cipher_in_bytes = s->len;
        job->msg_len_to_hash_in_bytes = s->len;
        if (s->inplace) {
                job->src = data;
                job->dst = data;
        } else {
                /* out of place: the destination starts as pattern */
                memset(data, PAT, s->data_len);
                job->src = s->in;
                job->dst = data;
        }

        switch (s->alg) {
        case A_GCM:
                if (s->klen == 16)
                        IMB_AES128_GCM_PRE(mgr, s->key, &s->gkd);
                else if (s->klen == 24)
                        IMB_AES192_GCM_PRE(mgr, s->key, &s->gkd);
                else
                        IMB_AES256_GCM_PRE(mgr, s->key, &s->gkd);
                job->cipher_mode = IMB_CIPHER_GCM;
                job->hash_alg = IMB_AUTH_AES_GMAC;
                job->chain_order = s->enc ? IMB_ORDER_CIPHER_HASH : IMB_ORDER_HASH_CIPHER;
                job->enc_keys = &s->gkd;
                job->dec_keys = &s->gkd;
                job->u.GCM.aad = s->aad;
                job->u.GCM.aad_len_in_bytes = s->aadlen;
                break;
        case A_GMAC:
                if (s->klen == 16) {
                        IMB_AES128_GCM_PRE(mgr, s->key, &s->gkd);
                        job->hash_alg = IMB_AUTH_AES_GMAC_128;
                } else if (s->klen == 24) {
                        IMB_AES192_GCM_PRE(mgr, s->key, &s->gkd);
                        job->hash_alg = IMB_AUTH_AES_GMAC_192;
                } else {
                        IMB_AES256_GCM_PRE(mgr, s->key, &s->gkd);
                        job->hash_alg = IMB_AUTH_AES_GMAC_256;
                }
                job->cipher_mode = IMB_CIPHER_NULL;
                job->cipher_direction = IMB_DIR_ENCRYPT;
                job->chain_order = IMB_ORDER_HASH_CIPHER;
                job->src = s->in;
                job->dst = NULL;
                job->iv = NULL;
                job->iv_len_in_bytes = 0;
                job->key_len_in_bytes = 0;
                job->enc_keys = NULL;
                job->dec_keys = NULL;
                job->msg_len_to_cipher_in_bytes = 0;
                job->u.GMAC._key = &s->gkd;
                job->u.GMAC._iv = s->iv;
                job->u.GMAC.iv_len_in_bytes = s->ivlen;
                break;
        case A_CCM:
                if (s->klen == 16)
                        IMB_AES_KEYEXP_128(mgr, s->key, s->eks, s->dks);
                else
                        IMB_AES_KEYEXP_256(mgr, s->key, s->eks, s->dks);
                job->cipher_mode = IMB_CIPHER_CCM;
                job->hash_alg = IMB_AUTH_AES_CCM;
                job->chain_order = s->enc ? IMB_ORDER_HASH_CIPHER : IMB_ORDER_CIPHER_HASH;
                job->enc_keys = s->eks;
                job->dec_keys = s->eks;
                job->u.CCM.aad = s->aad;
                job->u.CCM.aad_len_in_bytes = s->aadlen;
                break;
        case A_CHACHA:
                job->cipher_mode = IMB_CIPHER_CHACHA20_POLY1305;
                job->hash_alg = IMB_AUTH_CHACHA20_POLY1305;
                job->chain_order = IMB_ORDER_HASH_CIPHER;
                job->enc_keys = s->key;
                job->dec_keys = s->key;
                job->u.CHACHA20_POLY1305.aad = s->aad;
                job->u.CHACHA20_POLY1305.aad_len_in_bytes = s->aadlen;
                break;
        case A_SM4GCM:
                imb_sm4_gcm_pre(mgr, s->key, &s->gkd);
                job->cipher_mode = IMB_CIPHER_SM4_GCM;
                job->hash_alg = IMB_AUTH_SM4_GCM;
                job->chain_order = s->enc ? IMB_ORDER_CIPHER_HASH : IMB_ORDER_HASH_CIPHER;
                job->enc_keys = &s->gkd;
                job->dec_keys = &s->gkd;
                job->u.GCM.aad = s->aad;
                job->u.GCM.aad_len_in_bytes = s->aadlen;
                break;
        case A_DOCSIS:
                if (s->klen == 16)
                        IMB_AES_KEYEXP_128(mgr, s->key, s->eks, s->dks);
                else
                        IMB_AES_KEYEXP_256(mgr, s->key, s->eks, s->dks);
                job->cipher_mode = IMB_CIPHER_DOCSIS_SEC_BPI;
                job->hash_alg = IMB_AUTH_DOCSIS_CRC32;
                job->chain_order = s->enc ? IMB_ORDER_HASH_CIPHER : IMB_ORDER_CIPHER_HASH;
                job->enc_keys = s->eks;
                job->dec_keys = s->dks;
                job->src = data;
                job->dst = data + s->cipher_off;
                job->cipher_start_src_offset_in_bytes = s->cipher_off;
                job->msg_len_to_cipher_in_bytes = s->len;
                job->hash_start_src_offset_in_bytes = s->hash_off;
                job->msg_len_to_hash_in_bytes = s->hash_len;
                break;
        case A_PON:
                job->cipher_mode = IMB_CIPHER_PON_AES_CNTR;
                job->hash_alg = IMB_AUTH_PON_CRC_BIP;
                job->chain_order = s->enc ? IMB_ORDER_HASH_CIPHER : IMB_ORDER_CIPHER_HASH;
                job->src = data;
                job->dst = data + 8;
                job->cipher_start_src_offset_in_bytes = 8;
                job->hash_start_src_offset_in_bytes = 0;
                job->msg_len_to_hash_in_bytes = s->frame_len;
                if (s->noctr) {
                        job->enc_keys = NULL;
                        job->dec_keys = NULL;
                        job->key_len_in_bytes = 0;
                        job->iv = NULL;
                        job->iv_len_in_bytes = 0;
                        job->msg_len_to_cipher_in_bytes = 0;
                } else {
                        IMB_AES_KEYEXP_128(mgr, s->key, s->eks, s->dks);
                        job->enc_keys = s->eks;
                        job->dec_keys = s->eks;
                        job->key_len_in_bytes = 16;
                        job->msg_len_to_cipher_in_bytes = s->frame_len - 8;
                }
                break;
        }
}

static void
check_slot(struct slot *s, int v)
{
        size_t i;
        const uint8_t *data = s->buf + GUARD;

        for (i = 0; i < GUARD; i++)
                if (s->buf[i] != PAT || s->buf[GUARD + s->data_len + i] != PAT) {
                        report_fail(s, v, "write outside the buffer");
                        return;
                }
        if (s->alg != A_GMAC && memcmp(data, s->exp, s->data_len) != 0) {
                for (i = 0; i < s->data_len; i++)
                        if (data[i] != s->exp[i])
                                break;
                snprintf(desc_buf, sizeof(desc_buf), "output data, first diff at byte %zu", i);
                report_fail(s, v, desc_buf);
                return;
        }
        for (i = 0; i < 32; i++)
                if (s->tag_mask[i] && s->tag[i] != s->exp_tag[i]) {
                        snprintf(desc_buf, sizeof(desc_buf),
                                 "tag byte %zu: got %02x%02x%02x%02x%02x%02x%02x%02x.. exp "
                                 "%02x%02x%02x%02x%02x%02x%02x%02x..",
                                 i, s->tag[0], s->tag[1], s->tag[2], s->tag[3], s->tag[4],
                                 s->tag[5], s->tag[6], s->tag[7], s->exp_tag[0], s->exp_tag[1],
                                 s->exp_tag[2], s->exp_tag[3], s->exp_tag[4], s->exp_tag[5],
                                 s->exp_tag[6], s->exp_tag[7]);
                        report_fail(s, v, desc_buf);
                        return;
                }
}

static void
job_done(IMB_JOB *job, int v)
{
        struct slot *s = job->user_data;

        if (job->status != IMB_STATUS_COMPLETED) {
                snprintf(desc_buf, sizeof(desc_buf), "job status %d, errno at submit %d (%s)",
                         (int) job->status, s->err, imb_get_strerror(s->err));
                report_fail(s, v, desc_buf);
        }
        s->done++;
}

static void
run_batch(void)
{
        int v, i;
        static char d[256];

        for (v = 0; v < nvariants; v++) {
                IMB_MGR *mgr = variants[v].mgr;
                IMB_JOB *job;

                for (i = 0; i < nslots; i++) {
                        struct slot *s = &slots[i];

                        if (v == 0)
                                cls_cases[s->alg][s->cls]++;
                        describe(s, variants[v].name, d, sizeof(d));
                        cur_desc = d;
                        job = IMB_GET_NEXT_JOB(mgr);
                        fill_job(mgr, job, s);
                        job = IMB_SUBMIT_JOB(mgr);
                        if (imb_get_errno(mgr) != 0)
                                s->err = imb_get_errno(mgr);
                        while (job != NULL) {
                                job_done(job, v);
                                job = IMB_GET_COMPLETED_JOB(mgr);
                        }
                        total_jobs++;
                }
                cur_desc = "flush";
                while ((job = IMB_FLUSH_JOB(mgr)) != NULL)
                        job_done(job, v);
                for (i = 0; i < nslots; i++) {
                        struct slot *s = &slots[i];

                        if (s->done == 1)
                                check_slot(s, v);
                        else
                                report_fail(s, v, "job not returned exactly once");
                }
        }
        nslots = 0;
}

static struct slot *
new_slot(enum alg a)
{
        struct slot *s;

        if (nslots == BATCH)
                run_batch();
        s = &slots[nslots++];
        memset(s, 0, offsetof(struct slot, buf));
        s->alg = a;
        memset(s->exp_tag, PAT, 32);
        memset(s->tag_mask, 1, 32);
        total_cases++;
        alg_cases[a]++;
        return s;
}

/* expected tag image: first taglen bytes = tag, rest pattern */
static void
set_exp_tag(struct slot *s, const uint8_t *tag, size_t taglen)
{
        memset(s->exp_tag, PAT, 32);
        memcpy(s->exp_tag, tag, taglen);
        s->taglen = taglen;
}

/* add an encrypt slot and the mirrored decrypt slot from one reference run */
static void
add_aead_pair(enum alg a, int klen, const uint8_t *key, const uint8_t *iv, size_t ivlen,
              const uint8_t *aad, size_t aadlen, const uint8_t *pt, const uint8_t *ct, size_t len,
              const uint8_t *tag, size_t taglen, int inplace)
{
        int dir;

        for (dir = 1; dir >= 0; dir--) {
                struct slot *s = new_slot(a);

                s->enc = dir;
                s->klen = klen;
                s->inplace = inplace;
                memcpy(s->key, key, (size_t) klen);
                memcpy(s->iv, iv, ivlen);
                s->ivlen = ivlen;
                s->cls = ((a == A_GCM) && ivlen != 12) ? 1 : 0;
                memcpy(s->aad, aad, aadlen);
                s->aadlen = aadlen;
                s->len = len;
                s->data_len = len;
                memcpy(s->in, dir ? pt : ct, len);
                memcpy(s->exp, dir ? ct : pt, len);
                set_exp_tag(s, tag, taglen);
        }
}

/* ------------------------------------------------------------------------- */

static void
sweep_gcm(void)
{
        static const int klens[3] = { 16, 24, 32 };
        static const size_t taglens[4] = { 16, 16, 12, 8 };
        uint8_t key[32], iv[64], aad[80], pt[MAXF], ct[MAXF], tag[16];
        size_t len, aadlen, ivlen;
        int k;
        unsigned cnt = 0;

        /* A: every len 0..600 x every AAD 0..64, 96-bit IV, 3 key sizes */
        for (k = 0; k < 3; k++)
                for (len = 0; len <= 600; len++)
                        for (aadlen = 0; aadlen <= 64; aadlen++) {
                                fill(key, (size_t) klens[k]);
                                fill(iv, 12);
                                fill(aad, aadlen);
                                fill(pt, len);
                                ref_gcm(1, key, klens[k], iv, 12, aad, aadlen, pt, ct, len, tag);
                                add_aead_pair(A_GCM, klens[k], key, iv, 12, aad, aadlen, pt, ct,
                                              len, tag, taglens[cnt & 3], (int) (cnt >> 2) & 1);
                                cnt++;
                        }
        /* B: IV lengths 1..32 and 60 x every len 0..600 x 3 rotating AAD lengths */
        for (k = 0; k < 3; k++)
                for (ivlen = 1; ivlen <= 33; ivlen++) {
                        const size_t il = (ivlen == 33) ? 60 : ivlen;

                        if (il == 12)
                                continue;
                        for (len = 0; len <= 600; len++) {
                                int j;

                                for (j = 0; j < 3; j++) {
                                        aadlen = (len * 5 + il * 3 + (size_t) j * 23) % 65;
                                        fill(key, (size_t) klens[k]);
                                        fill(iv, il);
                                        fill(aad, aadlen);
                                        fill(pt, len);
                                        ref_gcm(1, key, klens[k], iv, il, aad, aadlen, pt, ct,
                                                len, tag);
                                        add_aead_pair(A_GCM, klens[k], key, iv, il, aad, aadlen,
                                                      pt, ct, len, tag, 16, (int) (cnt & 1));
                                        cnt++;
                                }
                        }
                }
        run_batch();
}

static void
sweep_gmac(void)
{
        static const int klens[3] = { 16, 24, 32 };
        uint8_t key[32], iv[64], msg[MAXF], tag[16];
        size_t len, ivlen;
        int k;

        for (k = 0; k < 3; k++)
                for (ivlen = 1; ivlen <= 33; ivlen++) {
                        const size_t il = (ivlen == 33) ? 60 : ivlen;

                        for (len = 0; len <= 600; len++) {
                                struct slot *s;

                                if (il != 12 && ((len + il) % 4) != 0)
                                        continue;
                                fill(key, (size_t) klens[k]);
                                fill(iv, il);
                                fill(msg, len);
                                ref_gmac(key, klens[k], iv, il, msg, len, tag);
                                s = new_slot(A_GMAC);
                                s->enc = 1;
                                s->klen = klens[k];
                                memcpy(s->key, key, (size_t) klens[k]);
                                memcpy(s->iv, iv, il);
                                s->ivlen = il;
                                s->cls = (il != 12);
                                s->len = len;
                                s->data_len = len;
                                s->inplace = 1;
                                memcpy(s->in, msg, len);
                                memcpy(s->exp, msg, len);
                                set_exp_tag(s, tag, 16);
                        }
                }
        run_batch();
}

/* H from the model -> IMB_GHASH_PRE must give the same hash key table as IMB_AESxxx_GCM_PRE */
static void
sweep_hashkey(void)
{
        static const int klens[3] = { 16, 24, 32 };
        static struct gcm_key_data a, b;
        uint8_t key[32], h[16];
        int v, k, i, bad = 0, n = 0;

        for (v = 0; v < nvariants; v++)
                for (k = 0; k < 3; k++)
                        for (i = 0; i < 200; i++) {
                                IMB_MGR *mgr = variants[v].mgr;

                                fill(key, (size_t) klens[k]);
                                memset(&a, 0, sizeof(a));
                                memset(&b, 0, sizeof(b));
                                if (klens[k] == 16)
                                        IMB_AES128_GCM_PRE(mgr, key, &a);
                                else if (klens[k] == 24)
                                        IMB_AES192_GCM_PRE(mgr, key, &a);
                                else
                                        IMB_AES256_GCM_PRE(mgr, key, &a);
                                ref_gcm_hashkey(key, klens[k], h);
                                IMB_GHASH_PRE(mgr, h, &b);
                                if (memcmp(&a.ghash_keys, &b.ghash_keys, sizeof(a.ghash_keys))) {
                                        if (bad++ < 5)
                                                printf("MISMATCH hashkey table variant=%s klen=%d\n",
                                                       variants[v].name, klens[k]);
                                        total_fail++;
                                }
                                n++;
                        }
        printf("hashkey: %d comparisons (GCM_PRE table vs GHASH_PRE(ref H)), %d mismatches\n", n,
               bad);
}

static void
sweep_ccm(void)
{
        static const int klens[2] = { 16, 32 };
        uint8_t key[32], nonce[16], aad[80], pt[MAXF], ct[MAXF], tag[16];
        size_t len, aadlen;
        int k, nlen, tlen;
        unsigned cnt = 0;

        for (k = 0; k < 2; k++)
                for (nlen = 7; nlen <= 13; nlen++)
                        for (tlen = 4; tlen <= 16; tlen += 2)
                                for (len = 0; len <= 600; len++)
                                        for (aadlen = 0; aadlen <= 46; aadlen++) {
                                                /* full AAD sweep for nonce 13/tag 8, nonce 7/tag
                                                 * 16, nonce 11/tag 4 and for short/boundary
                                                 * lengths; 5 rotating AAD lengths elsewhere */
                                                const int fullaad =
                                                        (nlen == 13 && tlen == 8) ||
                                                        (nlen == 7 && tlen == 16) ||
                                                        (nlen == 11 && tlen == 4) || len <= 48 ||
                                                        (len % 16) <= 1 || (len % 16) == 15;

                                                if (!fullaad &&
                                                    ((aadlen + len * 3 + (size_t) nlen) % 9) != 0)
                                                        continue;
                                                fill(key, (size_t) klens[k]);
                                                fill(nonce, (size_t) nlen);
                                                fill(aad, aadlen);
                                                fill(pt, len);
                                                ref_ccm(1, key, klens[k], nonce, nlen, aad, aadlen,
                                                        pt, ct, len, tag, tlen);
                                                add_aead_pair(A_CCM, klens[k], key, nonce,
                                                              (size_t) nlen, aad, aadlen, pt, ct,
                                                              len, tag, (size_t) tlen,
                                                              (int) (cnt++ & 1));
                                        }
        run_batch();
}

static void
sweep_chacha(void)
{
        uint8_t key[32], iv[12], aad[80], pt[MAXF], ct[MAXF], tag[16];
        size_t len, aadlen;
        unsigned cnt = 0;

        for (len = 0; len <= 600; len++)
                for (aadlen = 0; aadlen <= 64; aadlen++) {
                        fill(key, 32);
                        fill(iv, 12);
                        fill(aad, aadlen);
                        fill(pt, len);
                        ref_chacha20_poly1305(1, key, iv, aad, aadlen, pt, ct, len, tag);
                        add_aead_pair(A_CHACHA, 32, key, iv, 12, aad, aadlen, pt, ct, len, tag, 16,
                                      (int) (cnt++ & 1));
                }
        run_batch();
}

static void
sweep_sm4gcm(void)
{
        static const size_t taglens[4] = { 16, 16, 12, 8 };
        uint8_t key[16], iv[12], aad[80], pt[MAXF], ct[MAXF], tag[16];
        size_t len, aadlen;
        unsigned cnt = 0;

        for (len = 0; len <= 600; len++)
                for (aadlen = 0; aadlen <= 64; aadlen++) {
                        fill(key, 16);
                        fill(iv, 12);
                        fill(aad, aadlen);
                        fill(pt, len);
                        ref_sm4_gcm(1, key, iv, 12, aad, aadlen, pt, ct, len, tag);
                        add_aead_pair(A_SM4GCM, 16, key, iv, 12, aad, aadlen, pt, ct, len, tag,
                                      taglens[cnt & 3], (int) (cnt >> 2) & 1);
                        cnt++;
                }
        run_batch();
}

/* one DOCSIS geometry, both directions */
static void
add_docsis(int klen, size_t frame_len, size_t hoff, size_t hlen, size_t coff, size_t clen)
{
        uint8_t key[32], iv[16], frame[MAXF], encd[MAXF], tag[4];
        struct slot *s;
        int dir;

        fill(key, (size_t) klen);
        fill(iv, 16);
        fill(frame, frame_len);

        for (dir = 1; dir >= 0; dir--) {
                s = new_slot(A_DOCSIS);
                s->enc = dir;
                s->klen = klen;
                s->inplace = 1;
                memcpy(s->key, key, (size_t) klen);
                memcpy(s->iv, iv, 16);
                s->ivlen = 16;
                s->len = clen;
                s->hash_off = hoff;
                s->hash_len = hlen;
                s->cipher_off = coff;
                s->frame_len = frame_len;
                s->data_len = frame_len;
                if (hlen < 14)
                        s->cls = 4;
                else if (clen == 0)
                        s->cls = 0;
                else if (coff + clen == hoff + hlen + 4)
                        s->cls = (clen >= 5) ? 1 : 2;
                else
                        s->cls = 3;
                if (dir) {
                        memcpy(s->in, frame, frame_len);
                        memcpy(encd, frame, frame_len);
                        ref_docsis_crc32(1, key, klen, iv, encd, hoff, hlen, coff, clen, tag);
                        memcpy(s->exp, encd, frame_len);
                } else {
                        /* decrypt what the model encrypted; every third case with a damaged
                         * byte so that the computed CRC differs from the one in the frame */
                        if ((rnd8() % 3) == 0 && frame_len > 0)
                                encd[rnd8() % frame_len] ^= 0x10;
                        memcpy(s->in, encd, frame_len);
                        memcpy(s->exp, encd, frame_len);
                        ref_docsis_crc32(0, key, klen, iv, s->exp, hoff, hlen, coff, clen, tag);
                }
                if (hlen >= 14)
                        set_exp_tag(s, tag, 4);
                else
                        s->taglen = 4; /* library must leave the tag untouched */
        }
}

static void
sweep_docsis(void)
{
        static const int klens[2] = { 16, 32 };
        size_t hoff, hlen, rel;
        int k, h;

        for (k = 0; k < 2; k++)
                for (h = 0; h < 2; h++) {
                        hoff = h ? 6 : 0;
                        /* CRC + cipher; frame = hoff + hlen + 4 <= 300 */
                        for (hlen = 14; hoff + hlen + 4 <= 300; hlen++) {
                                const size_t fl = hoff + hlen + 4;

                                /* CRC only */
                                add_docsis(klens[k], fl, hoff, hlen, hoff + 12, 0);
                                for (rel = 12; rel <= hlen + 4; rel++) {
                                        const size_t to_end = hlen + 4 - rel; /* covers the CRC */

                                        if (to_end > 0)
                                                add_docsis(klens[k], fl, hoff, hlen, hoff + rel,
                                                           to_end);
                                        if (to_end > 4) /* stops right before the CRC */
                                                add_docsis(klens[k], fl, hoff, hlen, hoff + rel,
                                                           to_end - 4);
                                        if (to_end > 1) /* stops somewhere */
                                                add_docsis(klens[k], fl, hoff, hlen, hoff + rel,
                                                           1 + (rnd8() % (to_end - 1)));
                                }
                        }
                        /* hash_len < 14: no CRC, tag untouched */
                        for (hlen = 0; hlen < 14; hlen++) {
                                size_t clen, coff;

                                add_docsis(klens[k], 40, hoff, hlen, hoff + 12, 0);
                                if (hlen == 0) {
                                        /* cipher only: no geometry constraint */
                                        for (coff = 0; coff <= 20; coff++)
                                                for (clen = 1; coff + clen <= 300; clen++)
                                                        if (coff <= 1 || coff == 18 ||
                                                            (clen % 16) <= 1 || (clen % 16) == 15)
                                                                add_docsis(klens[k], coff + clen,
                                                                           hoff, 0, coff, clen);
                                } else {
                                        /* both non-zero: cipher_len + 8 <= hash_len */
                                        for (clen = 1; clen + 8 <= hlen; clen++)
                                                add_docsis(klens[k], 60, hoff, hlen, hoff + 12,
                                                           clen);
                                }
                        }
                }
        run_batch();
}

static void
add_pon(unsigned pli, size_t payload_len, int noctr, int ivkind)
{
        uint8_t key[16], iv[16], frame[MAXF], encd[MAXF], tag[8];
        const size_t fl = 8 + payload_len;
        struct slot *s;
        int dir;

        fill(key, 16);
        fill(iv, 16);
        if (ivkind == 1)
                memset(iv + 12, 0xff, 4); /* 32-bit counter wrap */
        else if (ivkind == 2)
                memset(iv + 8, 0xff, 8); /* 64-bit counter wrap */
        else if (ivkind == 3)
                memset(iv, 0xff, 16); /* 128-bit counter wrap */
        fill(frame, fl);
        frame[0] = (uint8_t) (pli >> 6);
        frame[1] = (uint8_t) ((pli << 2) | (frame[1] & 3));

        for (dir = 1; dir >= 0; dir--) {
                s = new_slot(A_PON);
                s->enc = dir;
                s->klen = 16;
                s->inplace = 1;
                s->noctr = noctr;
                s->cls = noctr;
                memcpy(s->key, key, 16);
                memcpy(s->iv, iv, 16);
                s->ivlen = 16;
                s->len = noctr ? 0 : payload_len;
                s->hash_len = fl;
                s->hash_off = pli; /* descriptor only: PLI is printed as hash_off */
                s->cipher_off = 8;
                s->frame_len = fl;
                s->data_len = fl;
                if (dir) {
                        memcpy(s->in, frame, fl);
                        memcpy(encd, frame, fl);
                        ref_pon(1, noctr ? NULL : key, iv, encd, fl, tag);
                        memcpy(s->exp, encd, fl);
                } else {
                        if ((rnd8() % 3) == 0 && fl > 8)
                                encd[8 + rnd8() % (fl - 8)] ^= 0x04;
                        memcpy(s->in, encd, fl);
                        memcpy(s->exp, encd, fl);
                        ref_pon(0, noctr ? NULL : key, iv, s->exp, fl, tag);
                }
                set_exp_tag(s, tag, 8);
                if (pli <= 4) /* library writes an undefined CRC word in this case */
                        memset(s->tag_mask + 4, 0, 4);
        }
}

static void
sweep_pon(void)
{
        unsigned pli;
        int noctr, ivkind, padv;

        for (noctr = 0; noctr < 2; noctr++)
                for (pli = 0; pli <= 300; pli++)
                        for (padv = 0; padv < 4; padv++)
                                for (ivkind = 0; ivkind < (noctr ? 1 : 4); ivkind++) {
                                        size_t pl = ((size_t) pli + 3) & ~(size_t) 3;

                                        if (padv == 1 && pl < 8)
                                                pl = 8; /* XGEM minimum as in the test vectors */
                                        else if (padv == 1)
                                                continue;
                                        if (padv == 2)
                                                pl += 4;
                                        if (padv == 3)
                                                pl += 20;
                                        if (pl == 0 && !noctr)
                                                continue; /* would turn into the no-CTR job */
                                        add_pon(pli, pl, noctr, ivkind);
                                }
        run_batch();
}

static void
sweep_hec_crc(int do_hec, int do_crc)
{
        int v;
        long n32 = 0, n64 = 0, ncrc = 0, bad = 0;
        uint8_t b[8], msg[MAXF];
        long i;
        size_t len;

        for (v = 0; v < nvariants; v++) {
                IMB_MGR *mgr = variants[v].mgr;

                if (do_hec) {
                        /* HEC_32: all 2^19 payload values with random junk in the HEC field */
                        for (i = 0; i < (1L << 19); i++) {
                                const uint32_t hdr = ((uint32_t) i << 13) |
                                                     (((uint32_t) rnd8() << 8 | rnd8()) & 0x1fff);

                                b[0] = (uint8_t) (hdr >> 24);
                                b[1] = (uint8_t) (hdr >> 16);
                                b[2] = (uint8_t) (hdr >> 8);
                                b[3] = (uint8_t) hdr;
                                if (IMB_HEC_32(mgr, b) != ref_hec32(b)) {
                                        if (bad++ < 10)
                                                printf("MISMATCH HEC_32 variant=%s in=%02x%02x%02x%02x "
                                                       "lib=%08x ref=%08x\n",
                                                       variants[v].name, b[0], b[1], b[2], b[3],
                                                       IMB_HEC_32(mgr, b), ref_hec32(b));
                                        total_fail++;
                                }
                                n32++;
                        }
                        for (i = 0; i < 400000; i++) {
                                fill(b, 8);
                                if (i < 64) { /* single-bit payloads */
                                        memset(b, 0, 8);
                                        b[i / 8] = (uint8_t) (0x80 >> (i % 8));
                                }
                                if (IMB_HEC_64(mgr, b) != ref_hec64(b)) {
                                        if (bad++ < 10)
                                                printf("MISMATCH HEC_64 variant=%s lib=%016llx "
                                                       "ref=%016llx\n",
                                                       variants[v].name,
                                                       (unsigned long long) IMB_HEC_64(mgr, b),
                                                       (unsigned long long) ref_hec64(b));
                                        total_fail++;
                                }
                                n64++;
                        }
                }
                if (do_crc)
                        for (len = 0; len <= 600; len++) {
                                int r;

                                for (r = 0; r < 4; r++) {
                                        fill(msg, len);
                                        if (IMB_CRC32_ETHERNET_FCS(mgr, msg, len) !=
                                            ref_crc32_ethernet(msg, len)) {
                                                if (bad++ < 10)
                                                        printf("MISMATCH CRC32_ETHERNET_FCS "
                                                               "variant=%s len=%zu\n",
                                                               variants[v].name, len);
                                                total_fail++;
                                        }
                                        ncrc++;
                                }
                        }
        }
        if (do_hec)
                printf("hec: HEC_32 %ld comparisons, HEC_64 %ld comparisons\n", n32, n64);
        if (do_crc)
                printf("crc: CRC32_ETHERNET_FCS %ld comparisons\n", ncrc);
        if (bad)
                printf("hec/crc mismatches: %ld\n", bad);
}

/* ------------------------------------------------------------------------- */

static void
add_variant(const char *arch, uint64_t flags, const char *fname)
{
        IMB_MGR *mgr = alloc_mb_mgr(flags);
        int i;
        static char names[8][64];

        if (mgr == NULL)
                return;
        if (!strcmp(arch, "sse"))
                init_mb_mgr_sse(mgr);
        else if (!strcmp(arch, "avx2"))
                init_mb_mgr_avx2(mgr);
        else
                init_mb_mgr_avx512(mgr);
        if (imb_get_errno(mgr) != 0) {
                printf("variant %s/%s not available: %s\n", arch, fname,
                       imb_get_strerror(imb_get_errno(mgr)));
                free_mb_mgr(mgr);
                return;
        }
        snprintf(names[nvariants], sizeof(names[0]), "%s(%s)=arch%d-type%d", arch, fname,
                 (int) mgr->used_arch, (int) mgr->used_arch_type);
        /* skip duplicates (same arch and type reached through different flags) */
        for (i = 0; i < nvariants; i++)
                if (variants[i].mgr->used_arch == mgr->used_arch &&
                    variants[i].mgr->used_arch_type == mgr->used_arch_type) {
                        free_mb_mgr(mgr);
                        return;
                }
        variants[nvariants].name = names[nvariants];
        variants[nvariants].mgr = mgr;
        printf("variant %d: %s\n", nvariants, names[nvariants]);
        nvariants++;
}

static int
want(int argc, char **argv, const char *name)
{
        int i;

        if (argc <= 1)
                return 1;
        for (i = 1; i < argc; i++)
                if (!strcmp(argv[i], name))
                        return 1;
        return 0;
}

int
main(int argc, char **argv)
{
        int a, v;

        setvbuf(stdout, NULL, _IOLBF, 0);
        signal(SIGSEGV, on_crash);
        signal(SIGBUS, on_crash);
        signal(SIGILL, on_crash);

        if (posix_memalign((void **) &slots, 64, sizeof(struct slot) * BATCH) != 0)
                return 2;

        add_variant("sse", IMB_FLAG_SHANI_OFF, "SHANI_OFF");
        add_variant("sse", IMB_FLAG_GFNI_OFF, "GFNI_OFF");
        add_variant("sse", 0, "0");
        add_variant("avx2", IMB_FLAG_SHANI_OFF, "SHANI_OFF");
        add_variant("avx2", IMB_FLAG_GFNI_OFF, "GFNI_OFF");
        add_variant("avx2", 0, "0");
        add_variant("avx512", IMB_FLAG_SHANI_OFF, "SHANI_OFF");
        add_variant("avx512", IMB_FLAG_GFNI_OFF, "GFNI_OFF");
        add_variant("avx512", 0, "0");
        if (nvariants == 0) {
                printf("no usable manager\n");
                return 2;
        }

#define RUN(nm, call)                                                                              \
        do {                                                                                       \
                if (want(argc, argv, nm)) {                                                        \
                        const long c0 = total_cases, j0 = total_jobs, f0 = total_fail;             \
                        call;                                                                      \
                        printf("sweep %-7s cases %ld  library jobs %ld  mismatches %ld\n", nm,    \
                               total_cases - c0, total_jobs - j0, total_fail - f0);                \
                }                                                                                  \
        } while (0)

        RUN("gcm", sweep_gcm());
        RUN("gmac", sweep_gmac());
        RUN("hkey", sweep_hashkey());
        RUN("ccm", sweep_ccm());
        RUN("chacha", sweep_chacha());
        RUN("sm4gcm", sweep_sm4gcm());
        RUN("docsis", sweep_docsis());
        RUN("pon", sweep_pon());
        if (want(argc, argv, "hec") || want(argc, argv, "crc")) {
                const long f0 = total_fail;

                sweep_hec_crc(want(argc, argv, "hec"), want(argc, argv, "crc"));
                printf("sweep hec/crc mismatches %ld\n", total_fail - f0);
        }

        printf("\nresult table (cases = reference cases, each run on every variant):\n");
        for (a = 0; a < 7; a++) {
                int c;

                for (c = 0; c < NCLS; c++) {
                        if (cls_cases[a][c] == 0)
                                continue;
                        printf("  %-18s %-52s cases %8ld  fails:", alg_name[a], cls_name[a][c],
                               cls_cases[a][c]);
                        for (v = 0; v < nvariants; v++)
                                printf(" %ld", cls_fail[a][c][v]);
                        printf("\n");
                }
        }
        printf("\nper algorithm: ");
        for (a = 0; a < 7; a++)
                printf("%s cases=%ld fail=%ld; ", alg_name[a], alg_cases[a], alg_fail[a]);
        printf("\nper variant failures: ");
        for (v = 0; v < nvariants; v++)
                printf("%s=%ld; ", variants[v].name, var_fail[v]);
        printf("\nTOTAL cases %ld, library jobs %ld, mismatches %ld\n", total_cases, total_jobs,
               total_fail);
        return total_fail ? 1 : 0;
}
